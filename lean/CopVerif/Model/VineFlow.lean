import CopVerif.Base.Num
/-!
  Hand-written model (K) of the vine *data flow* (property C17):
  `copulas/multivariate/tree.py` — `Tree.prepare_next_tree`, `Tree.get_likelihood`,
  `Edge.get_conditional_uni`, `Edge.get_likelihood`, `Edge._identify_eds_ing`,
  `Tree.get_adjacent_matrix` — and `copulas/multivariate/vine.py` — `get_likelihood`,
  `_sample_row`, `sample`.

  The vine STRUCTURE (which edges exist) is input data here (extracted from the real fitted object;
  `Model/Vine.lean`, property C16, models how it is built).  This file says WHAT FLOWS WHERE:

  * `fitPlan`: for every edge the two inputs of its pair copula as *plan terms* over external
    symbols — `COL j` (column `j` of the marginal-CDF matrix) in the first tree, `Uof(parent, side)`
    (row `side` of `Edge.U` of the parent with that index in the previous tree) above, chosen
    exactly as `Edge.get_conditional_uni` chooses.  Then, in the real code,
    `family, θ = select_copula(column_stack(inputs))` and
    `U = fix01 (H(l, r), H(r, l))` with `H = copula.partial_derivative` (`fix01`: `≤ 0 ↦ ε`, `≥ 1 ↦ 1 − ε`).
  * `likPlan`: `VineCopula.get_likelihood` as the recursion over trees; the `d × d` matrix of
    conditional values is a FINITE MAP (`Mat`): a cell that was never written is *not a number* — a
    read of it is reported (`written = false`) and yields the symbolic value `junk`, which is what
    `np.empty` means.
  * `sampleRow`: the traversal of `_sample_row` (a stack search over the first tree) and, for every
    visited variable, which (tree, edge) pair copulas are inverted in which order.

  Python sets of small non-negative ints are lists; `list(s)[0]` is modelled as the head of the
  list in the order supplied by the harness (ascending), which is CPython's iteration order for
  ints below the table size and is irrelevant when the set has one element (always, in a regular
  vine).
-/
namespace CopVerif.Model.VineFlow
open CopVerif

/-- non-results: the Python exception the real code raises, or a limit of the model. -/
inductive Fail where
  | valueError      -- `left, right = sorted(A ^ B)` with `|A △ B| ≠ 2`
  | indexError      -- `list(empty set)[0]`, `trees[i]`, `edges[i]`
  | typeError       -- unpacking `parents = None`
  | unboundLocal    -- `tmp` referenced before assignment in `_sample_row`
  | unmodelled      -- shapes the model does not cover (a parentless edge above the first tree)
  | fuel            -- the traversal did not finish within the fuel
  deriving DecidableEq, Repr, Inhabited

def Fail.toString : Fail → String
  | .valueError => "ValueError"
  | .indexError => "IndexError"
  | .typeError => "TypeError"
  | .unboundLocal => "UnboundLocalError"
  | .unmodelled => "unmodelled"
  | .fuel => "fuel"

structure Edge where
  /-- `Edge.index` (the real code uses it to index `Tree.edges` in `_sample_row`) -/
  index : Nat
  L : Nat
  R : Nat
  /-- conditioning set (ascending, as sent by the harness) -/
  D : List Nat
  /-- positions of `parents[0]`, `parents[1]` in the previous tree's `edges` -/
  parents : Option (Nat × Nat)
  deriving DecidableEq, Repr, Inhabited

abbrev Tree := List Edge

/-- `{e.L, e.R} | e.D` -/
def Edge.vars (e : Edge) : List Nat := e.L :: e.R :: e.D

/-- the conditioned pair -/
def Edge.cond (e : Edge) : List Nat := [e.L, e.R]

def sdiff (A B : List Nat) : List Nat := A.filter fun x => !B.contains x
def inter (A B : List Nat) : List Nat := A.filter fun x => B.contains x

def dedup : List Nat → List Nat
  | [] => []
  | a :: l => if (dedup l).contains a then dedup l else a :: dedup l

/-- the elements of `A ^ B`, each once -/
def symDiff (A B : List Nat) : List Nat := dedup (sdiff A B ++ sdiff B A)

/-- `Edge._identify_eds_ing`: `left, right = sorted(A ^ B)`, `depend_set = A & B`. -/
def identify (p q : Edge) : Except Fail (Nat × Nat × List Nat) :=
  match symDiff p.vars q.vars with
  | [a, b] => .ok (min a b, max a b, inter p.vars q.vars)
  | _ => .error .valueError

def getE (t : Tree) (i : Nat) : Except Fail Edge :=
  match t[i]? with
  | some e => .ok e
  | none => .error .indexError

/-! ## fitting: which pseudo-observations feed which pair copula -/

/-- a plan term for one input column of a pair copula. -/
inductive Src where
  /-- `u_matrix[:, j]` -/
  | col (j : Nat)
  /-- `previous_tree.edges[parent].U[side]` -/
  | uof (parent side : Nat)
  deriving DecidableEq, Repr, Inhabited

structure EdgePlan where
  left : Src
  right : Src
  deriving DecidableEq, Repr, Inhabited

/-- `parent.U[0] if parent.L == x else parent.U[1]` -/
def sideOf (p : Edge) (x : Nat) : Nat := if p.L == x then 0 else 1

/-- `Edge.get_conditional_uni(left_parent, right_parent)`; `i0 i1` are the parents' positions. -/
def condUni (p0 p1 : Edge) (i0 i1 : Nat) : Except Fail (Src × Src) :=
  match identify p0 p1 with
  | .ok (l, r, _) => .ok (.uof i0 (sideOf p0 l), .uof i1 (sideOf p1 r))
  | .error e => .error e

/-- the inputs of one edge in `Tree.prepare_next_tree` (`first` ⇔ `self.level == 1`). -/
def edgePlan (first : Bool) (prev : Tree) (e : Edge) : Except Fail EdgePlan :=
  if first then .ok ⟨.col e.L, .col e.R⟩
  else match e.parents with
    | none => .error .typeError
    | some (i0, i1) =>
      match getE prev i0, getE prev i1 with
      | .ok p0, .ok p1 =>
        match condUni p0 p1 i0 i1 with
        | .ok (a, b) => .ok ⟨a, b⟩
        | .error e => .error e
      | .error e, _ => .error e
      | _, .error e => .error e

def mapE {β γ : Type} (f : β → Except Fail γ) : List β → Except Fail (List γ)
  | [] => .ok []
  | x :: xs =>
    match f x, mapE f xs with
    | .ok y, .ok ys => .ok (y :: ys)
    | .error e, _ => .error e
    | _, .error e => .error e

def fitPlanFrom (first : Bool) (prev : Tree) : List Tree → Except Fail (List (List EdgePlan))
  | [] => .ok []
  | t :: ts =>
    match mapE (edgePlan first prev) t, fitPlanFrom false t ts with
    | .ok p, .ok ps => .ok (p :: ps)
    | .error e, _ => .error e
    | _, .error e => .error e

/-- the data-flow plan of `VineCopula.fit` for the given structure. -/
def fitPlan (trees : List Tree) : Except Fail (List (List EdgePlan)) := fitPlanFrom true [] trees

/-- `U[side]` of edge `e` is the conditional CDF of this variable … -/
def slotVar (e : Edge) (side : Nat) : Nat := if side = 0 then e.L else e.R
/-- … given these. -/
def slotGiven (e : Edge) (side : Nat) : List Nat := (if side = 0 then e.R else e.L) :: e.D

/-- the slot a *correct* vine takes for variable `x`: the parent that has `x` as a conditioned
variable (first `p0`, then `p1`); `none` if neither has. -/
def needSlot (p0 p1 : Edge) (i0 i1 : Nat) (x : Nat) : Option Src :=
  if p0.L == x then some (.uof i0 0) else if p0.R == x then some (.uof i0 1)
  else if p1.L == x then some (.uof i1 0) else if p1.R == x then some (.uof i1 1)
  else none

/-- the hypothesis the code silently makes about one edge: after `sort_edge`, `parents[0]` carries
the child's smaller conditioned variable and `parents[1]` the larger one. -/
def flowOK (e p0 p1 : Edge) : Bool := p0.cond.contains e.L && p1.cond.contains e.R

/-- strict `(L, R)` lexicographic order: the key of `Edge.sort_edge`. -/
def keyLt (p q : Edge) : Bool := p.L < q.L || (p.L == q.L && p.R < q.R)

/-- the code's invariant: `parents = Edge.sort_edge([…, …])`, i.e. `parents[1]` does not sort
strictly before `parents[0]` (all three tree builders sort before `get_child_edge`). -/
def sortedOK (p0 p1 : Edge) : Bool := !keyLt p1 p0

/-- variables of an edge are pairwise distinct. -/
def nodupB : List Nat → Bool
  | [] => true
  | a :: l => !l.contains a && nodupB l

def sameSet (A B : List Nat) : Bool := A.all (B.contains ·) && B.all (A.contains ·)

/-- edge `e` of a tree above the first is what `get_child_edge` builds from its parents, the parents
are in `sort_edge` order, and the silent hypothesis `flowOK` holds. -/
def childOK (prev : Tree) (e : Edge) : Bool :=
  match e.parents with
  | none => false
  | some (i0, i1) =>
    match prev[i0]?, prev[i1]? with
    | some p0, some p1 =>
      match identify p0 p1 with
      | .ok (l, r, D) =>
        l == e.L && r == e.R && sameSet D e.D && nodupB e.D && flowOK e p0 p1 && sortedOK p0 p1
      | .error _ => false
    | _, _ => false

/-- no two edges of a tree write the same matrix cell. -/
def pairsDistinct : Tree → Bool
  | [] => true
  | e :: t => t.all (fun f => !((f.L == e.L && f.R == e.R) || (f.L == e.R && f.R == e.L)))
      && pairsDistinct t

def treeWF (t : Tree) : Bool := t.all (fun e => nodupB e.vars) && pairsDistinct t

def goodFrom (prev : Tree) : List Tree → Bool
  | [] => true
  | t :: ts => treeWF t && t.all (childOK prev) && goodFrom t ts

/-- The hypothesis bundle of the data-flow theorems: a well-formed vine structure in which EVERY
edge satisfies `flowOK`.  Decidable; the driver evaluates it on every real fitted vine. -/
def goodVine : List Tree → Bool
  | [] => true
  | t :: ts => treeWF t && t.all (fun e => e.parents.isNone) && goodFrom t ts

/-! ## `fix01`: the 0/1 correction of `prepare_next_tree` -/

section
variable {α : Type} [Sub α] [LE α] [DecidableLE α] [NumFns α]

/-- `x[x <= 0] = EPSILON` then `x[x >= 1] = 1 - EPSILON`, one element (a clamp; a NaN fails both
comparisons and stays). -/
def fix01 (ε x : α) : α :=
  let y := if x ≤ NumFns.ofNat 0 then ε else x
  if NumFns.ofNat 1 ≤ y then NumFns.ofNat 1 - ε else y

/-- `edge.U = [fix01 H(l, r), fix01 H(r, l)]`, one row of the table. -/
def edgeU (ε : α) (H : α → α → α) (l r : α) : α × α := (fix01 ε (H l r), fix01 ε (H r l))
end

/-! ## likelihood -/

/-- symbolic values flowing through `get_likelihood`. -/
inductive Term where
  /-- `u[j]`, the j-th coordinate of the evaluation point -/
  | u (j : Nat)
  /-- the content of cell `(row, col)` of the `np.empty` matrix allocated by tree `lvl`, which that
  tree never wrote -/
  | junk (lvl row col : Nat)
  /-- `partial_derivative([[a, b]])` of the pair copula of edge `i` of tree `k` -/
  | h (k i : Nat) (a b : Term)
  deriving DecidableEq, Repr, Inhabited

def Term.clean : Term → Bool
  | .u _ => true
  | .junk _ _ _ => false
  | .h _ _ a b => a.clean && b.clean

/-- the conditional matrix as a finite map; the FIRST match is the current content (writes are
consed at the front). -/
abbrev Mat := List ((Nat × Nat) × Term)

def Mat.get (M : Mat) (r c : Nat) : Option Term := M.lookup (r, c)

/-- where one argument of a pair-copula density came from. -/
inductive ReadSrc where
  /-- `uni_matrix[:, col]` of the caller's point (first tree) -/
  | input (col : Nat)
  /-- `uni_matrix[row, col]` of the previous tree's matrix; `written = false` ⇔ `⊥` -/
  | cell (row col : Nat) (written : Bool)
  deriving DecidableEq, Repr, Inhabited

structure LikEdge where
  lsrc : ReadSrc
  rsrc : ReadSrc
  /-- `value = pdf(l, r)`; the edge then writes `new[L,R] = h(l,r)`, `new[R,L] = h(r,l)` -/
  l : Term
  r : Term
  deriving DecidableEq, Repr, Inhabited

def headE (l : List Nat) : Except Fail Nat :=
  match l with
  | [] => .error .indexError
  | a :: _ => .ok a

/-- read cell `(r, c)` of the matrix produced by tree `k - 1`. -/
def readCell (k : Nat) (M : Mat) (r c : Nat) : ReadSrc × Term :=
  match M.get r c with
  | some t => (.cell r c true, t)
  | none => (.cell r c false, .junk (k - 1) r c)

/-- `Edge.get_likelihood`: the reads of edge `e` of tree `k` (0-based). -/
def likEdge (k : Nat) (prev : Tree) (M : Mat) (e : Edge) : Except Fail LikEdge :=
  match e.parents with
  | none =>
    if k = 0 then .ok ⟨.input e.L, .input e.R, .u e.L, .u e.R⟩ else .error .unmodelled
  | some (i0, i1) =>
    match getE prev i0, getE prev i1 with
    | .ok p0, .ok p1 =>
      match headE (sdiff e.D p0.D), headE (sdiff e.D p1.D) with
      | .ok li, .ok ri =>
        let a := readCell k M e.L li
        let b := readCell k M e.R ri
        .ok ⟨a.1, b.1, a.2, b.2⟩
      | .error x, _ => .error x
      | _, .error x => .error x
    | .error x, _ => .error x
    | _, .error x => .error x

/-- the two cells edge `i` of tree `k` writes (the later write first). -/
def cellsOf (k i : Nat) (e : Edge) (le : LikEdge) : Mat :=
  [((e.R, e.L), .h k i le.r le.l), ((e.L, e.R), .h k i le.l le.r)]

/-- the matrix after the edges `t` (numbered from `i`) have written, later edges first. -/
def writeAll (k : Nat) : Nat → List Edge → List LikEdge → Mat
  | i, e :: t, le :: ls => writeAll k (i + 1) t ls ++ cellsOf k i e le
  | _, _, _ => []

/-- `Tree.get_likelihood`: all reads come from the PREVIOUS matrix, all writes go to a new one. -/
def likTree (k : Nat) (prev : Tree) (M : Mat) (t : Tree) : Except Fail (List LikEdge × Mat) :=
  match mapE (likEdge k prev M) t with
  | .ok les => .ok (les, writeAll k 0 t les)
  | .error e => .error e

def likFrom (k : Nat) (prev : Tree) (M : Mat) : List Tree → Except Fail (List (List LikEdge))
  | [] => .ok []
  | t :: ts =>
    match likTree k prev M t with
    | .ok (les, M') =>
      match likFrom (k + 1) t M' ts with
      | .ok rest => .ok (les :: rest)
      | .error e => .error e
    | .error e => .error e

/-- the read/write plan of `VineCopula.get_likelihood`. -/
def likPlan (trees : List Tree) : Except Fail (List (List LikEdge)) := likFrom 0 [] [] trees

def LikEdge.args (e : LikEdge) : Term × Term := (e.l, e.r)
def LikEdge.readsWritten (e : LikEdge) : Bool :=
  (match e.lsrc with | .cell _ _ w => w | .input _ => true) &&
  (match e.rsrc with | .cell _ _ w => w | .input _ => true)

/-! ### the specification: h-propagated arguments, chosen by VARIABLE -/

/-- the pseudo-observation of variable `x` offered by parent `p` whose two slots hold `s`. -/
def slotFor (p : Edge) (s : Term × Term) (x : Nat) : Option Term :=
  if p.L == x then some s.1 else if p.R == x then some s.2 else none

/-- arguments `(F(L | D), F(R | D))` of edge `e` given the previous tree's slots. -/
def specEdge (k : Nat) (prev : Tree) (slots : List (Term × Term)) (e : Edge) :
    Option (Term × Term) :=
  match e.parents with
  | none => if k = 0 then some (.u e.L, .u e.R) else none
  | some (i0, i1) =>
    match prev[i0]?, prev[i1]?, slots[i0]?, slots[i1]? with
    | some p0, some p1, some s0, some s1 =>
      match (slotFor p0 s0 e.L).orElse (fun _ => slotFor p1 s1 e.L),
            (slotFor p1 s1 e.R).orElse (fun _ => slotFor p0 s0 e.R) with
      | some a, some b => some (a, b)
      | _, _ => none
    | _, _, _, _ => none

def mapO {β γ : Type} (f : β → Option γ) : List β → Option (List γ)
  | [] => some []
  | x :: xs =>
    match f x, mapO f xs with
    | some y, some ys => some (y :: ys)
    | _, _ => none

/-- slots `(F(L | R, D), F(R | L, D))` of the edges numbered from `i`. -/
def slotsOf (k : Nat) : Nat → List (Term × Term) → List (Term × Term)
  | _, [] => []
  | i, (a, b) :: rest => (.h k i a b, .h k i b a) :: slotsOf k (i + 1) rest

def specFrom (k : Nat) (prev : Tree) (slots : List (Term × Term)) :
    List Tree → Option (List (List (Term × Term)))
  | [] => some []
  | t :: ts =>
    match mapO (specEdge k prev slots) t with
    | some args =>
      match specFrom (k + 1) t (slotsOf k 0 args) ts with
      | some rest => some (args :: rest)
      | none => none
    | none => none

/-- the arguments of every pair-copula density in the vine factorisation. -/
def specArgs (trees : List Tree) : Option (List (List (Term × Term))) := specFrom 0 [] [] trees

/-! ### numeric reading -/

structure Interp (α : Type) where
  /-- `partial_derivative([[a, b]])` of the copula of edge `i` of tree `k` -/
  h : Nat → Nat → α → α → α
  /-- `probability_density([[a, b]])` -/
  pdf : Nat → Nat → α → α → α

section
variable {α : Type} [Add α] [NumFns α]

def evalTerm (I : Interp α) (u : Nat → α) (junk : Nat → Nat → Nat → α) : Term → α
  | .u j => u j
  | .junk l r c => junk l r c
  | .h k i a b => I.h k i (evalTerm I u junk a) (evalTerm I u junk b)

def sumFrom (f : Nat → (Term × Term) → α) : Nat → List (Term × Term) → α
  | _, [] => NumFns.ofNat 0
  | i, x :: xs => f i x + sumFrom f (i + 1) xs

def sumTrees (f : Nat → Nat → (Term × Term) → α) : Nat → List (List (Term × Term)) → α
  | _, [] => NumFns.ofNat 0
  | k, t :: ts => sumFrom (f k) 0 t + sumTrees f (k + 1) ts

/-- `Σ_trees Σ_edges log pdf_e(args_e)` -/
def likValue (I : Interp α) (u : Nat → α) (junk : Nat → Nat → Nat → α)
    (args : List (List (Term × Term))) : α :=
  sumTrees (fun k i a => NumFns.log (I.pdf k i (evalTerm I u junk a.1) (evalTerm I u junk a.2))) 0 args
end

/-! ## sampling: the traversal of `_sample_row` -/

/-- `adj[a, b] == 1` after `Tree.get_adjacent_matrix` -/
def adjB (t : Tree) (a b : Nat) : Bool :=
  t.any fun e => (e.L == a && e.R == b) || (e.R == a && e.L == b)

/-- `np.where(adj[c, :] == 1)[0].tolist()` -/
def adjRow (t : Tree) (d c : Nat) : List Nat := (List.range d).filter (adjB t c)

/-- the `while explore:` loop: the list of `(current, visited at that moment)`. -/
def traverse (t : Tree) (d : Nat) : Nat → List Nat → List Nat → Except Fail (List (Nat × List Nat))
  | _, [], _ => .ok []
  | 0, _ :: _, _ => .error .fuel
  | fuel + 1, c :: rest, visited =>
    let nb := (adjRow t d c).filter fun s => !visited.contains s
    match traverse t d fuel (nb.reverse ++ rest) (c :: visited) with
    | .ok vs => .ok ((c, visited) :: vs)
    | .error e => .error e

/-- one inversion `tmp = copula(tree, edge).percent_point(src, unis[given])`. -/
structure Step where
  tree : Nat
  edge : Nat
  /-- `true`: `src = unis[current]` (`i == itr - 1`); `false`: `src = tmp` (left by an earlier step,
  possibly of an earlier variable) -/
  fresh : Bool
  deriving DecidableEq, Repr, Inhabited

structure Visit where
  current : Nat
  /-- `visited[0]`, the conditioning value used by every step of this visit -/
  given : Option Nat
  steps : List Step
  deriving DecidableEq, Repr, Inhabited

/-- the edge search at level `i` (0-based tree index) → `current_ind`. -/
def findEdge (i : Nat) (tree : Tree) (current v0 : Nat) (visited : List Nat) : Option Nat :=
  if i = 0 then
    (tree.find? fun e => (e.L == current && e.R == v0) || (e.R == current && e.L == v0)).map (·.index)
  else
    match tree.find? (fun e => e.L == current || e.R == current) with
    | some e => if e.vars.all (fun x => x == current || visited.contains x) then some e.index else none
    | none => none

/-- `for i in range(itr - 1, -1, -1)` restricted to `i = n - 1 … 0`. -/
def visitSteps (trees : List Tree) (trunc itr current v0 : Nat) (visited : List Nat) :
    Nat → Except Fail (List Step)
  | 0 => .ok []
  | i + 1 =>
    if trunc ≤ i then visitSteps trees trunc itr current v0 visited i
    else match trees[i]? with
      | none => .error .indexError
      | some tree =>
        match visitSteps trees trunc itr current v0 visited i with
        | .error e => .error e
        | .ok rest =>
          match findEdge i tree current v0 visited with
          | none => .ok rest
          | some idx =>
            if idx < tree.length then .ok (⟨i, idx, i + 1 == itr⟩ :: rest) else .error .indexError

/-- annotate the traversal with the inversions; `tmpDef` ⇔ the local `tmp` is bound. -/
def annotate (trees : List Tree) (trunc : Nat) : Nat → Bool → List (Nat × List Nat) →
    Except Fail (List Visit)
  | _, _, [] => .ok []
  | itr, tmpDef, (c, visited) :: rest =>
    match visited with
    | [] =>
      -- itr == 0: `new_x = ppfs[current](unis[current])`
      match annotate trees trunc (itr + 1) tmpDef rest with
      | .ok vs => .ok (⟨c, none, []⟩ :: vs)
      | .error e => .error e
    | v0 :: _ =>
      match visitSteps trees trunc itr c v0 visited itr with
      | .error e => .error e
      | .ok steps =>
        let firstFresh := match steps with | s :: _ => s.fresh | [] => false
        if !tmpDef && !firstFresh then .error .unboundLocal
        else match annotate trees trunc (itr + 1) true rest with
          | .ok vs => .ok (⟨c, some v0, steps⟩ :: vs)
          | .error e => .error e

/-- `_sample_row` with `first_ind = first`: the visits in order. -/
def sampleRow (trees : List Tree) (d trunc first : Nat) : Except Fail (List Visit) :=
  match trees with
  | [] => .error .indexError
  | t :: _ =>
    match traverse t d (d * d + d + 1) [first] [] with
    | .ok order => annotate trees trunc 0 false order
    | .error e => .error e

/-- the columns of one sampled row that are assigned (`sampled[current] = …`), in order. -/
def visitOrder (t : Tree) (d first : Nat) : Except Fail (List Nat) :=
  match traverse t d (d * d + d + 1) [first] [] with
  | .ok order => .ok (order.map (·.1))
  | .error e => .error e

/-- `sample(n)`: `n` rows, each a row of `d` cells (`np.zeros(n_var)`), cell `c` assigned once per
visit of `c`.  `rowCells` counts the assignments per column. -/
def rowCells (d : Nat) (order : List Nat) : List Nat := (List.range d).map fun c => order.count c

def sampleShape (t : Tree) (d first n : Nat) : Except Fail (List (List Nat)) :=
  match visitOrder t d first with
  | .ok order => .ok (List.replicate n (rowCells d order))
  | .error e => .error e

/-! ### a checkable certificate that the first tree is a tree rooted at `first` -/

/-- `par`/`depth` certify that the first tree is a spanning tree of `0 … d-1` rooted at `first`:
`a ~ b ⇔ a ≠ b ∧ (par a = b ∨ par b = a)`, and `depth` strictly decreases towards the root. -/
def rootedOK (t : Tree) (d first : Nat) (par depth : List Nat) : Bool :=
  decide (first < d) && par.length == d && depth.length == d &&
  par.getD first d == first &&
  (List.range d).all (fun v => v == first ||
    (decide (par.getD v d < d) && decide (depth.getD (par.getD v d) 0 < depth.getD v 0))) &&
  (List.range d).all (fun a => (List.range d).all fun b =>
    adjB t a b == (a != b && (par.getD a d == b || par.getD b d == a)))

/-- breadth-first parents from `first` (untrusted helper: its output is CHECKED by `rootedOK`). -/
def bfsRoot (t : Tree) (d first : Nat) : List Nat × List Nat :=
  let rec go (fuel : Nat) (frontier : List Nat) (par depth : List (Option Nat)) :
      List (Option Nat) × List (Option Nat) :=
    match fuel with
    | 0 => (par, depth)
    | fuel + 1 =>
      match frontier with
      | [] => (par, depth)
      | c :: rest =>
        let dc := (depth.getD c none).getD 0
        let new := (adjRow t d c).filter fun s => (par.getD s none).isNone
        let par' := new.foldl (fun p s => p.set s (some c)) par
        let depth' := new.foldl (fun p s => p.set s (some (dc + 1))) depth
        go fuel (rest ++ new) par' depth'
  let p0 := (List.replicate d (none : Option Nat)).set first (some first)
  let d0 := (List.replicate d (none : Option Nat)).set first (some 0)
  let r := go (d + 1) [first] p0 d0
  (r.1.map (·.getD d), r.2.map (·.getD 0))

end CopVerif.Model.VineFlow
