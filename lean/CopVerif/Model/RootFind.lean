import CopVerif.Base.Num
/-!
  Hand-written models (K) of `copulas/optimize/__init__.py`: `bisect` and `chandrupatla`,
  polymorphic in the numeric signature, with the in-place updates of `xmin`/`xmax` made explicit.

  Reading guide (Python line numbers refer to `copulas/optimize/__init__.py`):

  * a numpy vector is a `List α` of *lanes*; the user function `f` is an arbitrary
    `List α → List α` exactly as in Python (it is called on whole vectors).  The theorems
    specialise it to an element-wise function `evalLanes fs` (lane `i` is `fs i`).
  * parallel arrays of equal shape that are only ever combined lane by lane (`a, b, c, fa, fb, fc,
    t, terminate, xm, …`) are kept as one list of per-lane records (array of structures instead
    of structure of arrays); the only cross-lane operations of the Python code — the call of `f`,
    `(xmax - xmin).max()`, `.all()` — stay operations on whole lists.
  * numpy primitives that are not in `NumFns` (`np.sign`, `np.clip`, `np.maximum/minimum`,
    `ndarray.max`) are defined here from `<`, `isNaN`, with numpy's NaN behaviour.
  * A user function that returns a vector of another length makes Python raise from the boolean
    indexing; the model truncates (`zip`) instead.  Out of scope (the property is about
    element-wise functions).
-/
namespace CopVerif.Model
open CopVerif NumFns

section
variable {α : Type} [Add α] [Sub α] [Mul α] [Div α] [Neg α] [LT α] [LE α]
  [DecidableLT α] [DecidableLE α] [NumFns α]

/-- scalar bisection used only as the stand-in for `brentq` in the driver. -/
def bisectScalar (f : α → α) (lo hi : α) : Nat → α
  | 0 => (lo + hi) / ofNat 2
  | n + 1 =>
    let mid := (lo + hi) / ofNat 2
    if f mid ≤ ofNat 0 then bisectScalar f mid hi n else bisectScalar f lo mid n

/-! ## numpy primitives -/

/-- an element-wise vector function: lane `i` of the result is `fs i` of lane `i` of the argument. -/
def evalLanes (fs : Nat → α → α) (xs : List α) : List α := xs.mapIdx fun i x => fs i x

/-- `np.maximum(a, b)` (NaN-propagating; returns `b` on ties, as observed for `±0`). -/
def maxNP (a b : α) : α := if NumFns.isNaN a then a else if b < a then a else b

/-- `np.minimum(a, b)`. -/
def minNP (a b : α) : α := if NumFns.isNaN a then a else if a < b then a else b

/-- `arr.max()`: `none` stands for the `ValueError` numpy raises on a zero-size array. -/
def arrMax : List α → Option α
  | [] => none
  | x :: xs => some (xs.foldl maxNP x)

/-- `np.sign`: `-1, 0, 1`, NaN for NaN. -/
def signNP (x : α) : α :=
  if NumFns.isNaN x then x
  else if x < ofNat 0 then -(ofNat 1)
  else if ofNat 0 < x then ofNat 1
  else ofNat 0

/-- `np.clip(x, lo, hi)` = `min(max(x, lo), hi)` with numpy's clip loop
    (`isnan(x) ? x : (x > lo ? x : lo)`, then the same against `hi`). -/
def clipNP (x lo hi : α) : α :=
  let y := if NumFns.isNaN x then x else if lo < x then x else lo
  if NumFns.isNaN y then y else if y < hi then y else hi

/-- `(lo + hi) / 2.0` -/
def mid (lo hi : α) : α := (lo + hi) / ofNat 2

/-! ## `bisect` (lines 6-37)

The state is the list of `(xmin[i], xmax[i])`.  Python overwrites the caller's arrays in place
(`xmin[mask] = …`), so the final state IS what the caller's arrays contain afterwards. -/

/-- lines 32-33 for one lane: both masks are evaluated on the same `fguess`; when
    `fguess == 0` both fire and the lane collapses to `lo = hi = guess`; a NaN fires neither. -/
def bisectUpd (fg g : α) (p : α × α) : α × α :=
  (if fg ≤ ofNat 0 then g else p.1, if ofNat 0 ≤ fg then g else p.2)

/-- lines 30-33: one loop body. -/
def bisectStep (f : List α → List α) (s : List (α × α)) : List (α × α) :=
  let guess := s.map fun p => mid p.1 p.2
  let fguess := f guess
  List.zipWith (fun (x : α × α) p => bisectUpd x.1 x.2 p) (List.zip fguess guess) s

/-- `xmax - xmin` -/
def widths (s : List (α × α)) : List α := s.map fun p => p.2 - p.1

/-- lines 29-35: `fuel` = iterations still allowed, `k` = iterations done.  The stop test is ONE
    comparison on the maximum width over all lanes. -/
def bisectLoop (f : List α → List α) (tol : α) : Nat → Nat → List (α × α) → Except Err (Nat × List (α × α))
  | 0, k, s => .ok (k, s)
  | fuel + 1, k, s =>
    let s' := bisectStep f s
    match arrMax (widths s') with
    | none => .error .valueError
    | some w => if w < tol then .ok (k + 1, s') else bisectLoop f tol fuel (k + 1) s'

structure BisectOut (α : Type) where
  /-- the returned vector `(xmin + xmax) / 2.0` -/
  result : List α
  /-- contents of the array object that was passed as `xmin`, after the call (as found) -/
  xmin : List α
  xmax : List α
  /-- number of loop bodies executed -/
  iters : Nat

/-- `bisect(f, xmin, xmax, tol, maxiter)`. -/
def bisect (f : List α → List α) (xmin xmax : List α) (tol : α) (maxiter : Nat) :
    Except Err (BisectOut α) :=
  if !((f xmin).all fun y => decide (y ≤ ofNat 0)) then .error .assertion
  else if !((f xmax).all fun y => decide (ofNat 0 ≤ y)) then .error .assertion
  else match bisectLoop f tol maxiter 0 (xmin.zip xmax) with
    | .error e => .error e
    | .ok (k, s) => .ok { result := s.map fun p => mid p.1 p.2
                          xmin := s.map (·.1), xmax := s.map (·.2), iters := k }

/-- Which arrays does the CALLER hold after the call?  `asFound`: the code writes through the
    arguments (recorded under property C20); `repaired`: it works on copies. -/
inductive Aliasing where
  | asFound | repaired
  deriving DecidableEq, Repr

def callerArrays (v : Aliasing) (xmin xmax : List α) (out : BisectOut α) : List α × List α :=
  match v with
  | .asFound => (out.xmin, out.xmax)
  | .repaired => (xmin, xmax)

/-! ## `chandrupatla` (lines 40-154) -/

/-- per-lane state at the top of the `while` body. `lo`/`hi` are `xmin[i]`/`xmax[i]`
    (never written by this function). -/
structure ChPre (α : Type) where
  lo : α
  hi : α
  a : α
  b : α
  c : α
  fa : α
  fb : α
  fc : α
  t : α
  term : Bool

/-- per-lane state at the `if np.all(terminate): break` test (line 122). -/
structure ChMid (α : Type) where
  lo : α
  hi : α
  a : α
  b : α
  c : α
  fa : α
  fb : α
  fc : α
  term : Bool
  xm : α
  fm : α
  tlim : α

/-- line 98: `np.clip(a + t * (b - a), xmin, xmax)` -/
def chXt (l : ChPre α) : α := clipNP (l.a + l.t * (l.b - l.a)) l.lo l.hi

/-- lines 105-120 for one lane, given the new point `xt` and `ft = f(xt)[i]`. -/
def chUpd (epsM epsA : α) (xt ft : α) (l : ChPre α) : ChMid α :=
  let samesign := NumFns.beq (signNP ft) (signNP l.fa)
  let c := if samesign then l.a else l.b
  let b := if samesign then l.b else l.a
  let fc := if samesign then l.fa else l.fb
  let fb := if samesign then l.fb else l.fa
  let a := xt
  let fa := ft
  let smaller : Bool := decide (NumFns.abs fa < NumFns.abs fb)
  let xm := if smaller then a else b
  let fm := if smaller then fa else fb
  let tol := ofNat 2 * epsM * NumFns.abs xm + epsA
  let tlim := tol / NumFns.abs (b - c)
  let term := l.term || (NumFns.beq fm (ofNat 0) || decide (ofSci 5 1 < tlim))
  { lo := l.lo, hi := l.hi, a := a, b := b, c := c, fa := fa, fb := fb, fc := fc,
    term := term, xm := xm, fm := fm, tlim := tlim }

/-- lines 128-151 for one lane.  `sq` is how `x**2` is computed: `x*x` for an ndarray
    (numpy's fast path for the exponent 2), `pow x 2` for a numpy scalar. -/
def chNext (sq : α → α) (m : ChMid α) : ChPre α :=
  let xi := (m.a - m.b) / (m.c - m.b)
  let phi := (m.fa - m.fb) / (m.fc - m.fb)
  let iqi : Bool := decide (sq phi < xi) && decide (sq (ofNat 1 - phi) < ofNat 1 - xi)
  let t0 := if iqi then
      m.fa / (m.fb - m.fa) * m.fc / (m.fb - m.fc)
        + (m.c - m.a) / (m.b - m.a) * m.fa / (m.fc - m.fa) * m.fb / (m.fc - m.fb)
    else ofSci 5 1
  let t := minNP (ofNat 1 - m.tlim) (maxNP m.tlim t0)
  { lo := m.lo, hi := m.hi, a := m.a, b := m.b, c := m.c, fa := m.fa, fb := m.fb, fc := m.fc,
    t := t, term := m.term }

/-- lines 98-120 on the whole batch: ONE call of `f` on the vector of new points. -/
def chHalf (f : List α → List α) (epsM epsA : α) (s : List (ChPre α)) : List (ChMid α) :=
  let xt := s.map chXt
  let ft := f xt
  List.zipWith (fun (x : α × α) l => chUpd epsM epsA x.1 x.2 l) (List.zip xt ft) s

/-- the `while maxiter > 0` loop.  `xm` is the value the name `xm` is bound to (last iteration's);
    returns `(iterations executed, xm)`. -/
def chLoop (f : List α → List α) (sq : α → α) (epsM epsA : α) :
    Nat → Nat → List (ChPre α) → List α → Nat × List α
  | 0, k, _, xm => (k, xm)
  | fuel + 1, k, s, _ =>
    let m := chHalf f epsM epsA s
    if m.all (·.term) then (k + 1, m.map (·.xm))
    else chLoop f sq epsM epsA fuel (k + 1) (m.map (chNext sq)) (m.map (·.xm))

/-- lines 64-81: `a = xmax; b = xmin; fc = fa; c = a; t = 0.5; terminate = False`. -/
def chInit (lo hi fa fb : α) : ChPre α :=
  { lo := lo, hi := hi, a := hi, b := lo, c := hi, fa := fa, fb := fb, fc := fa,
    t := ofSci 5 1, term := false }

/-- array case (`np.shape(fa) != ()`).  Returns `(iterations, xm)`.
    `maxiter = 0` leaves `xm` unbound: `UnboundLocalError` (`Err.other`). -/
def chandrupatla (f : List α → List α) (xmin xmax : List α) (epsM epsA : α) (maxiter : Nat) :
    Except Err (Nat × List α) :=
  let fa := f xmax
  let fb := f xmin
  if fa.length ≠ fb.length then .error .assertion
  else if !((List.zip fa fb).all fun p => decide (signNP p.1 * signNP p.2 ≤ ofNat 0)) then
    .error .assertion
  else if maxiter = 0 then .error .other
  else
    let s := List.zipWith (fun (x : α × α) (y : α × α) => chInit x.1 x.2 y.1 y.2)
      (List.zip xmin xmax) (List.zip fa fb)
    .ok (chLoop f (fun x => x * x) epsM epsA maxiter 0 s [])

/-- scalar case (`np.shape(fa) == ()`, lines 132-141): `f` is called on scalars, `phi**2` is a
    numpy-scalar power, `if iqi:` is a Python branch. -/
def chLoopScalar (f : α → α) (epsM epsA : α) : Nat → Nat → ChPre α → α → Nat × α
  | 0, k, _, xm => (k, xm)
  | fuel + 1, k, l, _ =>
    let xt := chXt l
    let m := chUpd epsM epsA xt (f xt) l
    if m.term then (k + 1, m.xm)
    else chLoopScalar f epsM epsA fuel (k + 1) (chNext (fun x => NumFns.pow x (ofNat 2)) m) m.xm

def chandrupatlaScalar (f : α → α) (xmin xmax : α) (epsM epsA : α) (maxiter : Nat) :
    Except Err (Nat × α) :=
  let fa := f xmax
  let fb := f xmin
  if !(decide (signNP fa * signNP fb ≤ ofNat 0)) then .error .assertion
  else if maxiter = 0 then .error .other
  else .ok (chLoopScalar f epsM epsA maxiter 0 (chInit xmin xmax fa fb) xmin)

end
end CopVerif.Model
