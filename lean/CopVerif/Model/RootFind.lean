import CopVerif.Base.Num
/-!
  Hand-written models (K) of `copulas/optimize/__init__.py`: `bisect` and `chandrupatla`,
  polymorphic in the numeric signature, with the in-place updates of `xmin`/`xmax` made explicit.
-/
namespace CopVerif.Model
open CopVerif NumFns

section
variable {α : Type} [Add α] [Sub α] [Mul α] [Div α] [Neg α] [LT α] [LE α]
  [DecidableLT α] [DecidableLE α] [NumFns α]

/-- scalar bisection used only as the stand-in for `brentq` in the driver. -/
def bisectScalar (f : α → α) (lo hi : α) : Nat → α
  | 0 => (lo + hi) / ofNat 2
  | n + 1 =>
    let mid := (lo + hi) / ofNat 2
    if f mid ≤ ofNat 0 then bisectScalar f mid hi n else bisectScalar f lo mid n

end
end CopVerif.Model
