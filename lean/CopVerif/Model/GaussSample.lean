import CopVerif.Base.Num
/-!
  Hand-written model (K) of the unconditional path of `GaussianMultivariate.sample`
  (`copulas/multivariate/gaussian.py`) and of `_fit_columns`, property C01.  Imports core Lean only.

  ```
  def _fit_columns(self, X):                       -- fitColumns
      columns, univariates = [], []
      for column_name, column in X.items():        --   walk the table's columns IN ORDER
          distribution = self._get_distribution_for_column(column_name)
          univariate = self._fit_column(column, distribution, column_name)   -- external, see below
          columns.append(column_name); univariates.append(univariate)
      return columns, univariates

  def _get_normal_samples(self, num_rows, None):   -- E.mvn d n, then `frame`
      covariance = self.correlation; columns = self.columns; means = np.zeros(len(columns))
      samples = np.random.multivariate_normal(means, covariance, size=num_rows)
      return pd.DataFrame(samples, columns=columns)

  def sample(self, num_rows=1, conditions=None):   -- sample E m n
      samples = self._get_normal_samples(num_rows, conditions)
      output = {}
      for column_name, univariate in zip(self.columns, self.univariates):
          cdf = stats.norm.cdf(samples[column_name])                 -- E.phi
          output[column_name] = univariate.percent_point(cdf)         -- Uni.ppf E.ppf
      return pd.DataFrame(data=output)
  ```

  What is modelled and what is external:
  * the ORDER / LABEL / ALIGNMENT glue is modelled literally: `zip columns univariates`, the frame of
    draws labelled with the training columns, look-up of a draw column BY LABEL (`samples[name]`),
    insertion into the `output` dict (a repeated key keeps its first position and takes the last value),
    columns of the result in dict order.
  * which distribution is configured for a column, the numeric fit and the Gaussian fall-back are NOT
    modelled here (property C05): every univariate family's `fit` starts with `_check_constant_value`
    (`len(np.unique(X)) == 1` ⇒ `_replace_constant_methods`: `percent_point ≡ c`), and that is all
    `sample` can observe of a constant column.  So a fitted univariate is either `Uni.const c` or an
    external symbol `Uni.ext j` (`j` = its position in `self.univariates`), whose `percent_point` is the
    external function `PPF j`.
  * `scipy.stats.norm.cdf` is the external function `PHI`; `np.random.multivariate_normal(zeros d,
    correlation, size = n)` is the external `MVN d n` (an `n × d` list of rows; the covariance is
    `self.correlation`, property C02).  The conditional branch (`conditions` given) belongs to C12.
  * `sample` is polymorphic in the element type: at `ℝ`/abstract `β` it is what the theorems of
    `Props/C01.lean` are about; at `β = String` with `PPF j t = "P<j>(t)"`, `PHI t = "H(t)"`,
    `MVN d n = [[ "D<k>.<i>" ]]` the very same function prints the PLAN TERM that the harness
    interprets with the real fitted objects and the recorded draws (`Driver/GaussSample.lean`).
  * duplicate column labels are outside the model (pandas returns a sub-frame for `samples[name]`);
    theorems that need it carry `Nodup` hypotheses.  `np.unique` identifies `-0.0` and `0.0` and (with
    `equal_nan`) NaNs; `constantValue` uses `==` on the element type and returns the first element, so
    a column mixing the two zeros is outside the model (NaN is refused by `check_valid_values`).

  Also here (namespace `CopVerif.Model.GaussSample`): an executable Kendall concordance counter and
  tau-b over `List (α × β)` — the quantity `scipy.stats.kendalltau` computes (cross-checked on every
  run), used to state that the rank dependence of the sampled columns is that of the normal draws.
-/
namespace CopVerif.Model.GaussSample
open CopVerif

/-! ## fitted state -/

/-- all that `sample` can observe of one fitted univariate. -/
inductive Uni (α : Type) where
  /-- fitted on constant data `c`: `percent_point = _constant_percent_point ≡ c`. -/
  | const (c : α)
  /-- any other fit: `percent_point` is the external function `PPF j`. -/
  | ext (j : Nat)
  deriving Repr, DecidableEq

def Uni.map {α β : Type} (f : α → β) : Uni α → Uni β
  | .const c => .const (f c)
  | .ext j => .ext j

/-- `univariate.percent_point(u)`. -/
def Uni.ppf {β : Type} (PPF : Nat → β → β) : Uni β → β → β
  | .const c, _ => c
  | .ext j, u => PPF j u

/-- `self.columns`, `self.univariates` after `fit`. -/
structure Fitted (L α : Type) where
  columns : List L
  univariates : List (Uni α)
  deriving Repr

def Fitted.map {L α β : Type} (f : α → β) (m : Fitted L α) : Fitted L β :=
  { columns := m.columns, univariates := m.univariates.map (Uni.map f) }

/-- `uniques = np.unique(X); len(uniques) == 1` ⇒ `uniques[0]`. -/
def constantValue {α : Type} [BEq α] : List α → Option α
  | [] => none
  | x :: xs => if xs.all (· == x) then some x else none

/-- `_fit_column` as far as `sample` can see it: the `j`-th univariate. -/
def fitColumn {α : Type} [BEq α] (j : Nat) (column : List α) : Uni α :=
  match constantValue column with
  | some c => .const c
  | none => .ext j

/-- the loop of `_fit_columns`, the next univariate getting index `j`. -/
def fitColumnsFrom {L α : Type} [BEq α] (j : Nat) : List (L × List α) → List L × List (Uni α)
  | [] => ([], [])
  | (name, column) :: rest =>
    let r := fitColumnsFrom (j + 1) rest
    (name :: r.1, fitColumn j column :: r.2)

/-- `_fit_columns(X)`; `X.items()` is the list of `(label, column)` in table order. -/
def fitColumns {L α : Type} [BEq α] (X : List (L × List α)) : Fitted L α :=
  let r := fitColumnsFrom 0 X
  { columns := r.1, univariates := r.2 }

/-! ## sample -/

/-- the external functions of `sample`. -/
structure Ext (β : Type) where
  /-- `self.univariates[j].percent_point` (non-constant fits). -/
  ppf : Nat → β → β
  /-- `scipy.stats.norm.cdf`. -/
  phi : β → β
  /-- `np.random.multivariate_normal(np.zeros(d), self.correlation, size=n)`: `n` rows of `d` values. -/
  mvn : Nat → Nat → List (List β)

/-- what the model assumes of numpy's `multivariate_normal(…, size=n)`: an `n × d` array. -/
def MvnShape {β : Type} (mvn : Nat → Nat → List (List β)) : Prop :=
  ∀ d n, (mvn d n).length = n ∧ ∀ r ∈ mvn d n, r.length = d

/-- column `k` of a list of rows. -/
def colOf {β : Type} (k : Nat) (rows : List (List β)) : List β := rows.filterMap (·[k]?)

/-- `pd.DataFrame(samples, columns=columns)`: label `columns[i]` names array column `k + i`. -/
def frameFrom {L β : Type} (k : Nat) : List L → List (List β) → List (L × List β)
  | [], _ => []
  | name :: rest, rows => (name, colOf k rows) :: frameFrom (k + 1) rest rows

def frame {L β : Type} (columns : List L) (rows : List (List β)) : List (L × List β) :=
  frameFrom 0 columns rows

/-- `samples[column_name]` (never missing here: the frame's labels are `self.columns`). -/
def getCol {L β : Type} [BEq L] (fr : List (L × List β)) (name : L) : List β :=
  (fr.lookup name).getD []

/-- `output[k] = v` on an insertion-ordered dict. -/
def dictSet {L V : Type} [BEq L] : List (L × V) → L → V → List (L × V)
  | [], k, v => [(k, v)]
  | (k', v') :: rest, k, v => if k' == k then (k', v) :: rest else (k', v') :: dictSet rest k v

/-- one iteration's value: `univariate.percent_point(stats.norm.cdf(samples[column_name]))`. -/
def outCol {L β : Type} [BEq L] (E : Ext β) (samples : List (L × List β)) (p : L × Uni β) : List β :=
  (getCol samples p.1).map fun z => p.2.ppf E.ppf (E.phi z)

/-- the loop of `sample` on given normal draws (rows). -/
def sampleWith {L β : Type} [BEq L] (E : Ext β) (m : Fitted L β) (draws : List (List β)) :
    List (L × List β) :=
  let samples := frame m.columns draws
  (m.columns.zip m.univariates).foldl (fun output p => dictSet output p.1 (outCol E samples p)) []

/-- `GaussianMultivariate.sample(n)` without conditions: the result frame as `(label, column)` list. -/
def sample {L β : Type} [BEq L] (E : Ext β) (m : Fitted L β) (n : Nat) : List (L × List β) :=
  sampleWith E m (E.mvn m.columns.length n)

/-! ## Kendall concordance counts and tau-b -/

section Kendall
variable {α β : Type} [LT α] [LT β] [DecidableLT α] [DecidableLT β]

/-- the pair of observations is concordant. -/
def conc (p q : α × β) : Bool :=
  (decide (p.1 < q.1) && decide (p.2 < q.2)) || (decide (q.1 < p.1) && decide (q.2 < p.2))

/-- discordant. -/
def disc (p q : α × β) : Bool :=
  (decide (p.1 < q.1) && decide (q.2 < p.2)) || (decide (q.1 < p.1) && decide (p.2 < q.2))

/-- tied in the first coordinate (neither is smaller). -/
def tieX (p q : α × β) : Bool := !decide (p.1 < q.1) && !decide (q.1 < p.1)

/-- tied in the second coordinate. -/
def tieY (p q : α × β) : Bool := !decide (p.2 < q.2) && !decide (q.2 < p.2)

/-- number of unordered pairs `{i < j}` of a sample satisfying `P`. -/
def pairCount {γ : Type} (P : γ → γ → Bool) : List γ → Nat
  | [] => 0
  | p :: rest => rest.countP (P p) + pairCount P rest

/-- the five counts: concordant, discordant, tied in x, tied in y, tied in both. -/
structure Counts where
  conc : Nat
  disc : Nat
  tieX : Nat
  tieY : Nat
  tieXY : Nat
  deriving Repr, DecidableEq

def counts (l : List (α × β)) : Counts :=
  { conc := pairCount conc l, disc := pairCount disc l, tieX := pairCount tieX l,
    tieY := pairCount tieY l, tieXY := pairCount (fun p q => tieX p q && tieY p q) l }

/-- Kendall's tau-b from the counts: `(C − D) / sqrt((tot − tieX)(tot − tieY))`, `tot = n(n−1)/2`
    (scipy's formula; NaN there when a denominator factor is 0 — `none` here). -/
def tauB {ν : Type} [Sub ν] [Mul ν] [Div ν] [NumFns ν] (len : Nat) (c : Counts) : Option ν :=
  let tot := len * (len - 1) / 2
  if tot - c.tieX = 0 ∨ tot - c.tieY = 0 then none
  else some ((NumFns.ofNat c.conc - NumFns.ofNat c.disc)
    / NumFns.sqrt (NumFns.ofNat (tot - c.tieX) * NumFns.ofNat (tot - c.tieY)))

/-- `scipy.stats.kendalltau(xs, ys).statistic` for a finite sample. -/
def kendallTauB {ν : Type} [Sub ν] [Mul ν] [Div ν] [NumFns ν] (l : List (α × β)) : Option ν :=
  tauB l.length (counts l)

end Kendall

end CopVerif.Model.GaussSample
