import CopVerif.Base.Num
/-!
  Hand-written executable model (K) of Kendall's tau-b as `scipy.stats.kendalltau` computes it
  (`Bivariate.fit`, base.py: `self.tau = stats.kendalltau(U, V)[0]`).

  For a sample `xs : List (α × α)` the five counts range over the unordered pairs `i < j`:

  * `conc`   – concordant pairs   (`x_i < x_j ∧ y_i < y_j` or both reversed),
  * `disc`   – discordant pairs   (`x_i < x_j ∧ y_j < y_i` or both reversed),
  * `tiedX`  – pairs tied in `x` (whatever `y`; scipy's `xtie`),
  * `tiedY`  – pairs tied in `y` (whatever `x`; scipy's `ytie`),
  * `npairs` – all pairs, `n (n-1) / 2` (scipy's `tot`).

  `tauB = (conc − disc) / sqrt ((npairs − tiedX) * (npairs − tiedY))`.  When a column is constant
  the denominator is `0`; what happens then is left to the numeric type (at `Float`: `0/0 = NaN`,
  which is the value scipy returns and the value on which `fit` raises "Constant column.").

  Only `<` is used; two values are *tied* when neither is below the other (`eqv`).  The facts about
  these definitions are in `CopVerif/Real/Kendall.lean`.  This file imports nothing outside core.
-/
namespace CopVerif.Model.Kendall
open CopVerif

/-- Number of unordered pairs `i < j` of the list with `r x_i x_j`. -/
def countPairs {γ : Type} (r : γ → γ → Bool) : List γ → Nat
  | [] => 0
  | p :: ps => ps.countP (r p) + countPairs r ps

section
variable {α : Type} [LT α] [DecidableLT α]

/-- "Equal" as seen through `<`: neither is below the other. -/
def eqv (a b : α) : Bool := !decide (a < b) && !decide (b < a)

def concB (p q : α × α) : Bool :=
  (decide (p.1 < q.1) && decide (p.2 < q.2)) || (decide (q.1 < p.1) && decide (q.2 < p.2))

def discB (p q : α × α) : Bool :=
  (decide (p.1 < q.1) && decide (q.2 < p.2)) || (decide (q.1 < p.1) && decide (p.2 < q.2))

def tiedXB (p q : α × α) : Bool := eqv p.1 q.1

def tiedYB (p q : α × α) : Bool := eqv p.2 q.2

/-- concordant pairs -/
def conc (xs : List (α × α)) : Nat := countPairs concB xs

/-- discordant pairs -/
def disc (xs : List (α × α)) : Nat := countPairs discB xs

/-- pairs tied in the first coordinate (whatever the second) -/
def tiedX (xs : List (α × α)) : Nat := countPairs tiedXB xs

/-- pairs tied in the second coordinate (whatever the first) -/
def tiedY (xs : List (α × α)) : Nat := countPairs tiedYB xs

/-- all unordered pairs, `n (n-1) / 2` -/
def npairs (xs : List (α × α)) : Nat := countPairs (fun _ _ => true) xs

/-- Kendall's tau-b at the numeric type `β`. -/
def tauB {β : Type} [Sub β] [Mul β] [Div β] [NumFns β] (xs : List (α × α)) : β :=
  (NumFns.ofNat (conc xs) - NumFns.ofNat (disc xs)) /
    NumFns.sqrt ((NumFns.ofNat (npairs xs) - NumFns.ofNat (tiedX xs)) *
      (NumFns.ofNat (npairs xs) - NumFns.ofNat (tiedY xs)))

end
end CopVerif.Model.Kendall
