import CopVerif.Model.Rng
/-!
# Model (K) of the *shapes* built by the dataset generators of `copulas/datasets.py` (property C15)

Only lengths are modelled, never numbers.  Every generator body is written as a small straight-line
program (`Prog`) over shape-level numpy/pandas expressions (`Expr`):

* `draw r`            `np.random.<f>(…, size=r.count)` / `stats.beta.rvs(…, size=r.count)` with literal
                      parameters — a 1-d array with `r.count` entries, a scalar when there is no `size=`;
* `drawP r p`         the same with an *array* parameter `p` (`np.random.normal(loc=np.log(age)/100, …,
                      size=size)`): numpy requires `p` to broadcast to `(size,)`;
* `un e`              elementwise unary function (`np.log`, `.astype(float)`) — shape preserved;
* `bin a b`           elementwise binary operator (`+ - * / < ==`) — numpy broadcasting;
* `maskUpdate a m`    `a[m] /= 1000` — in-place update through a boolean mask of the same length;
* `full n e`          `np.full(n, e)` with scalar `e`;
* `series e`          `pd.Series(e)` (default `RangeIndex`).

The result of a program is the list of columns handed to `pd.DataFrame({...})` (or the single
`pd.Series`): `frameRows` is the row count when every column is 1-d of one common length (the only
case in which the model predicts a value; `none` stands for "raises / not modelled").

`Expr.draws`/`Prog.draws` list the draw requests in Python's evaluation order, so the programs can
be compared with the draw lists `Model.Rng.datasetDraws`/`bimodalDraws` the RNG-protocol model uses.

Assumptions (numpy / pandas facts the model takes for granted): a draw with `size=n` (`n : ℕ`)
returns a 1-d array with `n` entries; elementwise operators follow the broadcasting rule
`broadcast`; a `Series`/`DataFrame` built from 1-d columns of one common length `n` has `n` rows.
-/
namespace CopVerif.Model.DatasetShape
open CopVerif.Model.Rng

/-- shape of a value: a Python/numpy scalar or a 1-d array / Series with `n` entries. -/
inductive Shape where
  | scalar
  | vec (n : Nat)
  deriving DecidableEq, Repr

/-- numpy broadcasting of two (at most 1-d) shapes; `none`: "operands could not be broadcast". -/
def broadcast : Shape → Shape → Option Shape
  | .scalar, s => some s
  | s, .scalar => some s
  | .vec n, .vec m =>
    if n = m then some (.vec n) else if n = 1 then some (.vec m) else if m = 1 then some (.vec n)
    else none

inductive Expr where
  | lit
  /-- the value bound by the `i`-th assignment of the program (0-based). -/
  | var (i : Nat)
  | draw (r : DrawReq)
  | drawP (r : DrawReq) (param : Expr)
  | un (e : Expr)
  | bin (a b : Expr)
  | maskUpdate (a mask : Expr)
  | full (n : Nat) (e : Expr)
  | series (e : Expr)
  deriving Repr

/-- shape of what a draw request returns. -/
def drawShape (r : DrawReq) : Shape :=
  match r.count with
  | none => .scalar
  | some n => .vec n

/-- shape of an expression in an environment of already bound shapes. -/
def evalShape (env : List Shape) : Expr → Option Shape
  | .lit => some .scalar
  | .var i => env[i]?
  | .draw r => some (drawShape r)
  | .drawP r p =>
    match evalShape env p with
    | none => none
    | some sp =>
      -- the parameter must broadcast *to* the requested shape
      match broadcast (drawShape r) sp with
      | some s => if r.count.isNone || s == drawShape r then some s else none
      | none => none
  | .un e => evalShape env e
  | .bin a b =>
    match evalShape env a, evalShape env b with
    | some sa, some sb => broadcast sa sb
    | _, _ => none
  | .maskUpdate a m =>
    match evalShape env a, evalShape env m with
    | some (.vec n), some (.vec k) => if n = k then some (.vec n) else none
    | _, _ => none
  | .full n e =>
    match evalShape env e with
    | some .scalar => some (.vec n)
    | _ => none
  | .series e =>
    match evalShape env e with
    | some .scalar => some (.vec 1)
    | s => s

/-- the draw requests of an expression, in evaluation order (arguments left to right, the
    parameters of a draw before the draw itself). -/
def Expr.draws : Expr → List DrawReq
  | .lit => []
  | .var _ => []
  | .draw r => [r]
  | .drawP r p => p.draws ++ [r]
  | .un e => e.draws
  | .bin a b => a.draws ++ b.draws
  | .maskUpdate a m => a.draws ++ m.draws
  | .full _ e => e.draws
  | .series e => e.draws

/-- a generator body: successive assignments, then the columns of the returned frame
    (one column: the returned `Series`). -/
structure Prog where
  lets : List Expr
  cols : List Expr
  deriving Repr

/-- run the assignments. -/
def evalLets : List Shape → List Expr → Option (List Shape)
  | env, [] => some env
  | env, e :: es =>
    match evalShape env e with
    | some s => evalLets (env ++ [s]) es
    | none => none

def evalCols (env : List Shape) : List Expr → Option (List Shape)
  | [] => some []
  | e :: es =>
    match evalShape env e, evalCols env es with
    | some s, some ss => some (s :: ss)
    | _, _ => none

/-- rows of `pd.DataFrame` / `pd.Series` built from these columns: defined when every column is
    1-d of one common length. -/
def frameRows : List Shape → Option Nat
  | [] => none
  | .scalar :: _ => none
  | .vec n :: rest => if rest.all (fun s => s == .vec n) then some n else none

def Prog.rows (p : Prog) : Option Nat :=
  match evalLets [] p.lets with
  | none => none
  | some env =>
    match evalCols env p.cols with
    | none => none
    | some cs => frameRows cs

def Prog.draws (p : Prog) : List DrawReq := p.lets.flatMap Expr.draws ++ p.cols.flatMap Expr.draws

/-- `pd.Series(np.random.random(size=size) < 0.3).astype(float)` — the body of
    `sample_univariate_bernoulli`, also evaluated (through a nested call) by the bimodal generator. -/
def bernoulliCol (size : Nat) : Expr := .un (.series (.bin (.draw ⟨3, 0, some size⟩) .lit))

/-- the body of `copulas.datasets.sample_<name>(size, seed)` (inside its `set_random_state` scope). -/
def prog (name : String) (size : Nat) : Prog :=
  match name with
  | "bivariate_age_income" =>
    ⟨[ .draw ⟨0, 0, some size⟩,                                   -- age = stats.beta.rvs(…, size=size)
       .bin (.un (.var 0)) .lit,                                   -- income = np.log(age) * 100
       .bin (.var 1) (.drawP ⟨1, 0, some size⟩ (.bin (.un (.var 0)) .lit)),
                                                                   -- income += np.random.normal(loc=np.log(age)/100, scale=10, size=size)
       .maskUpdate (.var 2) (.bin (.draw ⟨2, 0, some size⟩) .lit) ],
                                                                   -- income[np.random.randint(0, 10, size=size) == 0] /= 1000
     [.var 0, .var 3]⟩                                             -- pd.DataFrame({'age': age, 'income': income})
  | "trivariate_xyz" =>
    ⟨[ .draw ⟨0, 1, some size⟩, .draw ⟨0, 2, some size⟩ ],          -- x, y = stats.beta.rvs(…, size=size)
     [.var 0, .var 1, .bin (.draw ⟨1, 1, some size⟩) (.bin (.var 1) .lit)]⟩
                                                                   -- {'x': x, 'y': y, 'z': np.random.normal(size=size) + y * 10}
  | "univariate_bernoulli" => ⟨[], [bernoulliCol size]⟩
  | "univariate_bimodal" =>
    ⟨[ bernoulliCol size,                                          -- bernoulli = sample_univariate_bernoulli(size, seed)
       .bin (.draw ⟨1, 1, some size⟩) (.var 0),                     -- mode1 = np.random.normal(size=size) * bernoulli
       .bin (.draw ⟨1, 3, some size⟩) (.bin .lit (.var 0)) ],       -- mode2 = np.random.normal(size=size, loc=10) * (1.0 - bernoulli)
     [.series (.bin (.var 1) (.var 2))]⟩                           -- pd.Series(mode1 + mode2)
  | "univariate_uniform" => ⟨[], [.series (.bin (.bin .lit (.draw ⟨3, 0, some size⟩)) .lit)]⟩
  | "univariate_normal" => ⟨[], [.series (.draw ⟨1, 2, some size⟩)]⟩
  | "univariate_degenerate" => ⟨[], [.series (.full size (.draw ⟨3, 0, none⟩))]⟩
  | "univariate_exponential" => ⟨[], [.series (.bin (.draw ⟨4, 0, some size⟩) .lit)]⟩
  | "univariate_beta" => ⟨[], [.series (.draw ⟨0, 3, some size⟩)]⟩
  | _ => ⟨[], []⟩

/-- the generators with one `set_random_state` scope and a straight-line body. -/
def simpleNames : List String :=
  ["bivariate_age_income", "trivariate_xyz", "univariate_bernoulli", "univariate_uniform",
   "univariate_normal", "univariate_degenerate", "univariate_exponential", "univariate_beta"]

/-- the seven columns of `sample_univariates`, in source order. -/
def univariatesColumns : List String :=
  ["univariate_bernoulli", "univariate_bimodal", "univariate_uniform", "univariate_normal",
   "univariate_degenerate", "univariate_exponential", "univariate_beta"]

/-- every bundled generator except the aggregate `sample_univariates`. -/
def generatorNames : List String := simpleNames ++ ["univariate_bimodal"]

/-- `sample_univariates(size, seed)`: a `DataFrame` whose columns are the `Series` returned by the
    seven univariate generators called with the same `(size, seed)`. -/
def univariatesRows (size : Nat) : Option Nat :=
  match univariatesColumns.mapM (fun n => (prog n size).rows) with
  | none => none
  | some ns => frameRows (ns.map Shape.vec)

end CopVerif.Model.DatasetShape
