/-!
# Model (K) of the random-state protocol of `copulas` (property C15)

Code modelled (line numbers of /repo at the time of writing):

* `copulas/utils.py:14-33`  `set_random_state` (context manager)        → `withModelState`
* `copulas/utils.py:36-52`  `random_state` (decorator)                  → `decorateWith` / `decorate`
* `copulas/utils.py:55-76`  `validate_random_state`                     → `setRandomState`
* the samplers `ScipyModel.sample`, `GaussianKDE.sample`, `Bivariate.sample`,
  `GaussianMultivariate.sample`, `VineCopula.sample` (all `@random_state`) and the *undecorated*
  `Univariate.sample` (delegates to `self._instance.sample`)            → `sample`
* `copulas/datasets.py`                                                 → `datasetSimple`, `datasetBimodal`

Reading guide.

* The numpy legacy generator (MT19937 + cached gaussian) is **abstract**: a type `G` of generator
  states with `advance : G → Draw → G` (a draw request consumes the stream deterministically) and
  `out : G → Draw → Out` (what the request returns).  `fromSeed n` is `RandomState(n).get_state()`
  (also the state after `np.random.seed(n)`).  Nothing else is assumed; "a non-empty draw changes the
  state" is the explicit hypothesis `Acyclic` where it is needed.
* Every sampler of the library is `deterministic transform ∘ draws from the global np.random`; the
  model keeps only the draws (`Call.draws`) and whether the body raises after them (`Call.raises`):
  the transform is a function of the fitted parameters, which the RNG protocol never touches.
* `RandomState` objects live in a heap (`heap : Nat → G`, `next` = allocation pointer) because
  `validate_random_state` keeps a caller-supplied object **by reference** while the context manager
  stores a **fresh** object carrying the advanced state; `World.rs m` is the model attribute
  `m.random_state` (`none` = `None`).
* Which `sample` is wrapped by `@random_state` is **data** (`Config.decorated`), filled by the
  harness from the real classes by introspection; `asFoundTable` is the table of the code as found
  (`Univariate.sample` is not wrapped), `repairedTable` the table after the obvious repair.
-/
namespace CopVerif.Model.Rng

/-! Model identifiers `m` (Python objects with a `random_state` attribute) and references `r` to
`np.random.RandomState` objects are plain `Nat`s. -/

/-- abstract generator algebra. -/
structure GenAlg (G Draw Out : Type) where
  advance : G → Draw → G
  out : G → Draw → Out
  fromSeed : Nat → G

/-- point update of a function on `Nat` (attribute / heap-cell assignment). -/
def upd {α : Type} (f : Nat → α) (k : Nat) (v : α) : Nat → α := fun i => if i = k then v else f i

/-- what the *body* of a sampler does with the global stream: a sequence of draw requests and then
    either a normal return or an exception (`raises`; e.g. `percent_point` failing after `v` and `c`
    were drawn, or the `tau` range check failing before any draw: `draws = []`). -/
structure Call (Draw : Type) where
  draws : List Draw
  raises : Bool
  deriving DecidableEq, Repr

/-- what the caller of a sampler observes. -/
inductive Result (Out : Type) where
  | ok (outs : List Out)
  | raised
  deriving DecidableEq, Repr

def Result.append {Out : Type} : Result Out → Result Out → Result Out
  | .ok a, .ok b => .ok (a ++ b)
  | _, _ => .raised

/-- the process: the global legacy generator, the `RandomState` objects, the `random_state`
    attribute of every model. -/
structure World (G : Type) where
  global : G
  heap : Nat → G
  next : Nat
  rs : Nat → Option Nat

/-- `m.random_state.get_state()` if `m.random_state is not None`. -/
def World.view {G : Type} (w : World G) (m : Nat) : Option G := (w.rs m).map w.heap

/-- every reference stored in a model points to an allocated object. -/
def WF {G : Type} (w : World G) : Prop := ∀ m r, w.rs m = some r → r < w.next

/-- seeds accepted by `validate_random_state` (anything else is a `TypeError` raised before any
    state is touched). -/
inductive Seed where
  | none
  | int (n : Nat)
  | obj (r : Nat)
  deriving DecidableEq, Repr

section
variable {G Draw Out : Type} (A : GenAlg G Draw Out)

/-- state after a sequence of draw requests. -/
def advDraws (g : G) (ds : List Draw) : G := ds.foldl A.advance g

/-- what the draw requests return, in order. -/
def outDraws : G → List Draw → List Out
  | _, [] => []
  | g, d :: ds => A.out g d :: outDraws (A.advance g d) ds

/-- observable result of a body that starts at stream state `g`. -/
def result (g : G) (c : Call Draw) : Result Out :=
  if c.raises then .raised else .ok (outDraws A g c.draws)

/-- an undecorated sampler body: draws from the **global** generator. -/
def drawGlobal (c : Call Draw) (w : World G) : World G × Result Out :=
  (⟨advDraws A w.global c.draws, w.heap, w.next, w.rs⟩, result A w.global c)

/-- `utils.set_random_state(random_state, set_model_random_state)` with `st =
    random_state.get_state()`.  The body's second component says whether it returned or raised;
    the `finally` clause runs in both cases, which is why it does not inspect it. -/
def withModelState {R : Type} (st : G) (setter : G → World G → World G)
    (body : World G → World G × R) (w : World G) : World G × R :=
  let saved := w.global                               -- original_state = np.random.get_state()
  let r := body ⟨st, w.heap, w.next, w.rs⟩             -- np.random.set_state(st); yield
  -- finally:
  let w' := setter r.1.global r.1                      -- fresh RandomState ← np.random.get_state(); setter(it)
  (⟨saved, w'.heap, w'.next, w'.rs⟩, r.2)              -- np.random.set_state(original_state)

/-- `model.set_random_state(current_random_state)` as called by the context manager:
    `current_random_state` is a *new* object (allocated here) holding state `g`. -/
def storeFresh (m : Nat) (g : G) (w : World G) : World G :=
  ⟨w.global, upd w.heap w.next g, w.next + 1, upd w.rs m (some w.next)⟩

/-- `utils.random_state` around `body`, for an object whose `random_state` currently reads `st`. -/
def decorateWith (st : Option G) (setter : G → World G → World G)
    (body : World G → World G × Result Out) (w : World G) : World G × Result Out :=
  match st with
  | none => body w                                     -- if self.random_state is None: return function(...)
  | some g => withModelState g setter body w

/-- the decorator applied to a method of model `m`. -/
def decorate (m : Nat) (body : World G → World G × Result Out) (w : World G) :
    World G × Result Out :=
  decorateWith (w.view m) (storeFresh m) body w

/-- `direct`: the body draws from `np.random` itself (or through scipy's global `RandomState`).
    `delegating`: `Univariate.sample` — `return self._instance.sample(n_samples)` where `_instance`
    was built by `get_instance(best_model)` **without** the wrapper's seed and nothing ever sets its
    `random_state`, so the instance's own (decorated) sampler sees `None`. -/
inductive Kind where
  | direct
  | delegating
  deriving DecidableEq, Repr

/-- per-model configuration; `decorated` comes from the generated table. -/
structure Config where
  kind : Nat → Kind
  decorated : Nat → Bool

/-- the function under the decorator (or the whole method when there is no decorator). -/
def undecoratedSample (cfg : Config) (m : Nat) (c : Call Draw) (w : World G) :
    World G × Result Out :=
  match cfg.kind m with
  | .direct => drawGlobal A c w
  | .delegating => decorateWith none (fun _ w => w) (drawGlobal A c) w

/-- `m.sample(...)`. -/
def sample (cfg : Config) (m : Nat) (c : Call Draw) (w : World G) : World G × Result Out :=
  if cfg.decorated m then decorate m (undecoratedSample A cfg m c) w
  else undecoratedSample A cfg m c w

/-- `m.set_random_state(seed)` / the constructor's `self.random_state = validate_random_state(seed)`.
    An `int` makes a new `RandomState(seed)`; a `RandomState` object is kept by reference
    (a reference to an object that does not exist cannot be written in Python: no-op). -/
def setRandomState (m : Nat) (s : Seed) (w : World G) : World G :=
  match s with
  | .none => ⟨w.global, w.heap, w.next, upd w.rs m none⟩
  | .int n => storeFresh m (A.fromSeed n) w
  | .obj r => if r < w.next then ⟨w.global, w.heap, w.next, upd w.rs m (some r)⟩ else w

/-! ## dataset generators -/

def dummySetter : G → World G → World G := fun _ w => w

/-- `with set_random_state(validate_random_state(seed), _dummy_fn): body`. -/
def datasetScope {R : Type} (seed : Nat) (body : World G → World G × R) (w : World G) :
    World G × R :=
  withModelState (A.fromSeed seed) dummySetter body w

/-- every generator except `sample_univariate_bimodal` (and `sample_univariates`, which only
    concatenates the others): one scope, draws `ds`. -/
def datasetSimple (seed : Nat) (ds : List Draw) (w : World G) : World G × Result Out :=
  datasetScope A seed (drawGlobal A ⟨ds, false⟩) w

/-- `sample_univariate_bimodal`: calls `sample_univariate_bernoulli(size, seed)` (draws `dsB`, its
    own scope) inside its scope, then draws `dsM`. -/
def datasetBimodal (seed : Nat) (dsB dsM : List Draw) (w : World G) : World G × Result Out :=
  datasetScope A seed (fun w1 =>
    let b := datasetSimple A seed dsB w1
    let r := drawGlobal A ⟨dsM, false⟩ b.1
    (r.1, Result.append b.2 r.2)) w

/-! ## histories -/

/-- one observable operation of a client program. -/
inductive Op (Draw : Type) where
  /-- `m.sample(...)` whose body performs `c`. -/
  | sample (m : Nat) (c : Call Draw)
  /-- `m.set_random_state(s)` (also: construction with `random_state=s`). -/
  | setState (m : Nat) (s : Seed)
  /-- the caller creates `np.random.RandomState(n)` (its reference is the current `next`). -/
  | callerNew (n : Nat)
  /-- the caller draws from an object it holds (`rs.uniform(...)`, or `m.random_state.uniform(...)`). -/
  | callerDraw (r : Nat) (d : Draw)
  /-- `np.random.seed(n)`. -/
  | seedGlobal (n : Nat)
  | dataset (seed : Nat) (ds : List Draw)
  | datasetBimodal (seed : Nat) (dsB dsM : List Draw)

/-- one step: new world and, for calls that return something, what the caller got. -/
def step (cfg : Config) (w : World G) : Op Draw → World G × Option (Result Out)
  | .sample m c => let r := sample A cfg m c w; (r.1, some r.2)
  | .setState m s => (setRandomState A m s w, none)
  | .callerNew n => (⟨w.global, upd w.heap w.next (A.fromSeed n), w.next + 1, w.rs⟩, none)
  | .callerDraw r d =>
    (if r < w.next then ⟨w.global, upd w.heap r (A.advance (w.heap r) d), w.next, w.rs⟩ else w, none)
  | .seedGlobal n => (⟨A.fromSeed n, w.heap, w.next, w.rs⟩, none)
  | .dataset seed ds => let r := datasetSimple A seed ds w; (r.1, some r.2)
  | .datasetBimodal seed dsB dsM => let r := datasetBimodal A seed dsB dsM w; (r.1, some r.2)

def stepW (cfg : Config) (w : World G) (op : Op Draw) : World G := (step A cfg w op).1

/-- world after a history. -/
def runW (cfg : Config) : World G → List (Op Draw) → World G
  | w, [] => w
  | w, op :: h => runW cfg (stepW A cfg w op) h

/-- the full log of a history: after every op the world and what the op returned
    (used by the driver; the theorems speak about `runW`, `outputs`, `maskedOutputs`). -/
def runLog (cfg : Config) : World G → List (Op Draw) → List (World G × Option (Result Out))
  | _, [] => []
  | w, op :: h => let r := step A cfg w op; r :: runLog cfg r.1 h

/-- what one op returned to the caller of `m.sample`, if it is such a call. -/
def outputOp (cfg : Config) (m : Nat) (w : World G) : Op Draw → List (Result Out)
  | .sample m' c => if m' = m then [(sample A cfg m' c w).2] else []
  | _ => []

/-- what the successive `m.sample` calls of a history returned. -/
def outputs (cfg : Config) (m : Nat) : World G → List (Op Draw) → List (Result Out)
  | _, [] => []
  | w, op :: h => outputOp A cfg m w op ++ outputs cfg m (stepW A cfg w op) h

/-- the same, with a call made while `m.random_state is None` masked out (`none`): such a call is
    driven by the global stream (`unseeded_uses_global`), not by the model's own. -/
def maskedOp (cfg : Config) (m : Nat) (w : World G) : Op Draw → List (Option (Result Out))
  | .sample m' c =>
    if m' = m then [if (w.rs m).isSome then some (sample A cfg m' c w).2 else none] else []
  | _ => []

def maskedOutputs (cfg : Config) (m : Nat) : World G → List (Op Draw) → List (Option (Result Out))
  | _, [] => []
  | w, op :: h => maskedOp A cfg m w op ++ maskedOutputs cfg m (stepW A cfg w op) h

/-! ## the isolated single-model machine (specification side of `stream_deterministic`) -/

/-- the operations that concern one model, with seeds resolved to generator states. -/
inductive MOp (G Draw : Type) where
  | sample (c : Call Draw)
  | set (v : Option G)
  /-- the caller advanced the very object the model holds by reference. -/
  | ext (d : Draw)
  deriving DecidableEq

def isoStep (v : Option G) : MOp G Draw → Option G
  | .sample c => v.map fun g => advDraws A g c.draws
  | .set v' => v'
  | .ext d => v.map fun g => A.advance g d

def isoRun (v : Option G) (ops : List (MOp G Draw)) : Option G := ops.foldl (isoStep A) v

def isoOutputs : Option G → List (MOp G Draw) → List (Option (Result Out))
  | _, [] => []
  | v, .sample c :: ops => (v.map fun g => result A g c) :: isoOutputs (isoStep A v (.sample c)) ops
  | v, op :: ops => isoOutputs (isoStep A v op) ops

/-- the part of one op that concerns model `m` (dynamic: a `RandomState` seed is read when it is
    installed; a caller draw concerns `m` iff `m` holds that very object). -/
def ownOp (w : World G) (m : Nat) : Op Draw → List (MOp G Draw)
  | .sample m' c => if m' = m then [.sample c] else []
  | .setState m' .none => if m' = m then [.set none] else []
  | .setState m' (.int n) => if m' = m then [.set (some (A.fromSeed n))] else []
  | .setState m' (.obj r) => if m' = m ∧ r < w.next then [.set (some (w.heap r))] else []
  | .callerDraw r d => if r < w.next ∧ w.rs m = some r then [.ext d] else []
  | _ => []

def ownOps (cfg : Config) (m : Nat) : World G → List (Op Draw) → List (MOp G Draw)
  | _, [] => []
  | w, op :: h => ownOp A w m op ++ ownOps cfg m (stepW A cfg w op) h

/-- static projection: valid when the history has no caller draws and `m` is never given a
    `RandomState` object (`plainFor`). -/
def projOp (m : Nat) : Op Draw → List (MOp G Draw)
  | .sample m' c => if m' = m then [.sample c] else []
  | .setState m' .none => if m' = m then [.set none] else []
  | .setState m' (.int n) => if m' = m then [.set (some (A.fromSeed n))] else []
  | _ => []

def proj (m : Nat) (h : List (Op Draw)) : List (MOp G Draw) := h.flatMap (projOp A m)

/-- no caller draws; `m` seeded only by `int`/`None`. -/
def plainOp (m : Nat) : Op Draw → Bool
  | .callerDraw _ _ => false
  | .setState m' (.obj _) => !(m' == m)
  | _ => true

def plainFor (m : Nat) (h : List (Op Draw)) : Bool := h.all (plainOp m)

/-! ## events on the global stream (specification side of `global_preserved`) -/

inductive GEvent (Draw : Type) where
  | draws (ds : List Draw)
  | seed (n : Nat)

def applyG (g : G) : List (GEvent Draw) → G
  | [] => g
  | .draws ds :: es => applyG (advDraws A g ds) es
  | .seed n :: es => applyG (A.fromSeed n) es

/-- does `m.sample` currently run on its own stream? -/
def seeded (cfg : Config) (w : World G) (m : Nat) : Bool := cfg.decorated m && (w.rs m).isSome

/-- the events an op applies to the global stream: only unseeded sampling and `np.random.seed`. -/
def globalOp (cfg : Config) (w : World G) : Op Draw → List (GEvent Draw)
  | .sample m c => if seeded cfg w m then [] else [.draws c.draws]
  | .seedGlobal n => [.seed n]
  | _ => []

def globalOps (cfg : Config) : World G → List (Op Draw) → List (GEvent Draw)
  | _, [] => []
  | w, op :: h => globalOp cfg w op ++ globalOps cfg (stepW A cfg w op) h

/-- a history all of whose sampling is seeded and which does not re-seed the global generator. -/
def quiet (cfg : Config) : World G → List (Op Draw) → Bool
  | _, [] => true
  | w, op :: h => (globalOp cfg w op).isEmpty && quiet cfg (stepW A cfg w op) h

/-- hypothesis about the generator used by `stream_advances`: consuming a non-empty sequence of
    draw requests never returns to the same state (MT19937: period 2^19937 − 1). -/
def Acyclic : Prop := ∀ (g : G) (ds : List Draw), ds ≠ [] → advDraws A g ds ≠ g

end

/-! ## the decorator table (generated-table slot)

The harness fills a table of this shape from the real classes (`hasattr(cls.sample, '__wrapped__')`
plus the identity of the wrapper) and hands it to the driver; `asFoundTable` is what the code
under test is expected to produce, `repairedTable` what it produces once `Univariate.sample` is
wrapped as well. -/

structure TableEntry where
  cls : String
  method : String
  decorated : Bool
  deriving DecidableEq, Repr

def samplerClasses : List String :=
  ["BetaUnivariate", "GammaUnivariate", "GaussianUnivariate", "GaussianKDE", "LogLaplace",
   "StudentTUnivariate", "TruncatedGaussian", "UniformUnivariate",
   "Bivariate", "Clayton", "Frank", "Gumbel", "Independence",
   "GaussianMultivariate", "VineCopula"]

def asFoundTable : List TableEntry :=
  samplerClasses.map (fun c => ⟨c, "sample", true⟩) ++ [⟨"Univariate", "sample", false⟩]

def repairedTable : List TableEntry :=
  samplerClasses.map (fun c => ⟨c, "sample", true⟩) ++ [⟨"Univariate", "sample", true⟩]

/-- is `cls.sample` wrapped according to `table`? (unknown class: not wrapped) -/
def tableDecorated (table : List TableEntry) (cls : String) : Bool :=
  match table.find? (fun e => e.cls == cls && e.method == "sample") with
  | some e => e.decorated
  | none => false

/-- `Univariate` is the only delegating sampler. -/
def kindOfClass (cls : String) : Kind := if cls == "Univariate" then .delegating else .direct

/-- configuration of a population of models given the class of each and the table. -/
def configOf (table : List TableEntry) (clsOf : Nat → String) : Config :=
  ⟨fun m => kindOfClass (clsOf m), fun m => tableDecorated table (clsOf m)⟩

/-! ## dataset generators: the draw requests of each body, as data

`kind` codes: 0 `beta.rvs`, 1 `np.random.normal`, 2 `np.random.randint`, 3 `np.random.random`,
4 `np.random.exponential`.  `count` is the `size=` argument (`none`: a scalar draw). -/

structure DrawReq where
  kind : Nat
  tag : Nat
  count : Option Nat
  deriving DecidableEq, Repr

def datasetDraws (name : String) (size : Nat) : List DrawReq :=
  match name with
  | "bivariate_age_income" => [⟨0, 0, some size⟩, ⟨1, 0, some size⟩, ⟨2, 0, some size⟩]
  | "trivariate_xyz" => [⟨0, 1, some size⟩, ⟨0, 2, some size⟩, ⟨1, 1, some size⟩]
  | "univariate_bernoulli" => [⟨3, 0, some size⟩]
  | "univariate_uniform" => [⟨3, 0, some size⟩]
  | "univariate_normal" => [⟨1, 2, some size⟩]
  | "univariate_degenerate" => [⟨3, 0, none⟩]
  | "univariate_exponential" => [⟨4, 0, some size⟩]
  | "univariate_beta" => [⟨0, 3, some size⟩]
  | _ => []

/-- `sample_univariate_bimodal`: the nested bernoulli draws and then the two normal draws. -/
def bimodalDraws (size : Nat) : List DrawReq × List DrawReq :=
  (datasetDraws "univariate_bernoulli" size, [⟨1, 1, some size⟩, ⟨1, 3, some size⟩])

/-! ## the free generator algebra (driver)

States are terms `root · d₁ · d₂ · …` (`root = 0`: the unknown prior global state, `n + 1`:
`fromSeed n`); an output is the pair (state at which the request was made, request).  The run of a
history in the free algebra maps homomorphically onto its run in **every** generator algebra
(`Props.C15.free_run_sound`): digests the model predicts equal must be equal. -/

structure Term (Draw : Type) where
  root : Nat
  draws : List Draw
  deriving DecidableEq, Repr

def freeAlg (Draw : Type) : GenAlg (Term Draw) Draw (Term Draw × Draw) where
  advance g d := ⟨g.root, g.draws ++ [d]⟩
  out g d := (g, d)
  fromSeed n := ⟨n + 1, []⟩

/-- the meaning of a term in an algebra `A`, `g0` being the prior global state. -/
def interp {G Draw Out : Type} (A : GenAlg G Draw Out) (g0 : G) (t : Term Draw) : G :=
  advDraws A (match t.root with | 0 => g0 | n + 1 => A.fromSeed n) t.draws

/-- the world every history of the harness starts from: unknown global state, no `RandomState`
    objects yet, every model unseeded (construction with a seed is a `setState` op). -/
def World.init {G : Type} (g0 : G) : World G := ⟨g0, fun _ => g0, 0, fun _ => none⟩

/-- transport of worlds and results along a map of generator states / outputs. -/
def World.map {G G' : Type} (φ : G → G') (w : World G) : World G' :=
  ⟨φ w.global, fun r => φ (w.heap r), w.next, w.rs⟩

def Result.map {Out Out' : Type} (ψ : Out → Out') : Result Out → Result Out'
  | .ok outs => .ok (outs.map ψ)
  | .raised => .raised

/-! ## small named objects used by the property statements -/

/-- what `n` successive calls return when the stream starts at `g`: consecutive segments. -/
def segments {G Draw Out : Type} (A : GenAlg G Draw Out) : G → List (Call Draw) → List (Option (Result Out))
  | _, [] => []
  | g, c :: cs => some (result A g c) :: segments A (advDraws A g c.draws) cs

/-- a counter is an acyclic generator algebra (non-vacuity of `Acyclic`, witness of the wrapper counterexample). -/
def ctr : GenAlg Nat Nat Nat := ⟨fun g d => g + d + 1, fun g d => 1000 * g + d, fun n => 1000000 * n⟩

/-- The model of the code as found: `Univariate.sample` is not decorated and delegates to an
instance built without the seed. -/
def wrapperAsFound : Config := configOf asFoundTable fun _ => "Univariate"

/-- … and after the repair (decorating `Univariate.sample`). -/
def wrapperRepaired : Config := configOf repairedTable fun _ => "Univariate"

end CopVerif.Model.Rng
