/-!
  Write-effect IR (C20): a tiny imperative language over *variables pointing at objects*.

  The translator `tools/gen_effects.py` abstracts every function of `copulas` reachable from a public
  entry point to a list of these statements (SSA-renamed variables, branch joins and loop
  back-edges as extra `alias` edges, `self.<attr>` as one global variable per attribute name) and
  the program is read as an **unordered set** of statements: the semantics below runs *any finite
  sequence* of statements drawn from the set, every `write`/`fresh` storing an arbitrary content.
  A real execution of the Python function is one such sequence, so a property of all sequences is
  a property of the real execution (as far as the translation is faithful — that part is validated
  dynamically by `tools/props/c20.py`).

  Core Lean only (no Mathlib, no Std data structures).
-/
namespace CopVerif.Model.Effects

abbrev Var := Nat
abbrev Obj := Nat
abbrev Val := Nat

/-- Statements of the IR.  `call f args rets` is resolved by `flatten` (callee `f` of the module:
    `params[i] := args[i]`, `rets[j] := callee.rets[j]`, callee body joins the statement set).
    The translator passes every value on two channels: the object itself and a *content* variable
    standing for everything reachable inside it, hence two parameters per Python parameter and two
    return variables. -/
inductive Stmt where
  | param (x : Var)          -- `x` is a parameter of the entry point: it points at a caller-owned object
  | alias (x y : Var)        -- `x := y` (same object): assignment, slice, `.T`, `.to_numpy()`, `np.asarray`
  | fresh (x : Var)          -- `x := <new object>`: `.copy()`, arithmetic, fancy indexing, constructors
  | write (x : Var)          -- the object `x` points at is modified in place
  | call (f : Nat) (args : List Var) (rets : List Var)
  deriving DecidableEq, Repr, Inhabited

abbrev Program := List Stmt

structure Fn where
  params : List Var
  rets : List Var
  body : List Stmt
  deriving Repr, Inhabited

abbrev Module := Array Fn

/-! ## Heap semantics -/

structure State where
  env : Var → Obj
  heap : Obj → Val
  /-- allocation pointer: objects `≥ next` have not been allocated yet -/
  next : Obj

/-- one statement, with `c` the (arbitrary) content stored by a `write` / given to a `fresh` object -/
def step (s : State) (c : Val) : Stmt → State
  | .param _ => s
  | .alias x y => ⟨fun v => if v = x then s.env y else s.env v, s.heap, s.next⟩
  | .fresh x => ⟨fun v => if v = x then s.next else s.env v,
                 fun o => if o = s.next then c else s.heap o, s.next + 1⟩
  | .write x => ⟨s.env, fun o => if o = s.env x then c else s.heap o, s.next⟩
  | .call _ _ _ => s

/-- run a finite trace of (statement, content) pairs -/
def run (s : State) : List (Stmt × Val) → State
  | [] => s
  | (st, c) :: tr => run (step s c st) tr

/-! ## Checker -/

def params (p : Program) : List Var :=
  p.filterMap fun | .param x => some x | _ => none

/-- `T` (a candidate taint set) is respected by one statement: closed under `alias`, never written. -/
def closedStmt (T : Var → Bool) : Stmt → Bool
  | .alias x y => !T y || T x
  | .write x => !T x
  | _ => true

/-- `T` contains the roots, is closed under the alias edges of `p`, and no tainted variable is written. -/
def okFor (p : Program) (T : Var → Bool) (roots : List Var) : Bool :=
  roots.all T && p.all (closedStmt T)

def stmtVars : Stmt → List Var
  | .param x => [x]
  | .alias x y => [x, y]
  | .fresh x => [x]
  | .write x => [x]
  | .call _ args rets => rets ++ args

def varBound (p : Program) (roots : List Var) : Nat :=
  (p.foldl (fun m s => (stmtVars s).foldl Nat.max m) (roots.foldl Nat.max 0)) + 1

/-- one propagation round over all alias edges; the flag says whether anything changed -/
def roundT (p : Program) (T : Array Bool) : Array Bool × Bool :=
  p.foldl (fun (acc : Array Bool × Bool) s =>
    match s with
    | .alias x y =>
      if acc.1.getD y false && !acc.1.getD x false then (acc.1.setIfInBounds x true, true) else acc
    | _ => acc) (T, false)

def iterT (p : Program) : Nat → Array Bool → Array Bool
  | 0, T => T
  | n + 1, T =>
    let r := roundT p T
    if r.2 then iterT p n r.1 else r.1

/-- may-alias closure of `roots` under the alias edges of `p` (least fixed point, computed by
    rounds; the checker re-validates closedness, so nothing needs to be proved about this function) -/
def taintArr (p : Program) (roots : List Var) : Array Bool :=
  let n := varBound p roots
  let T0 := roots.foldl (fun T x => T.setIfInBounds x true) (Array.replicate n false)
  iterT p (p.length + 1) T0

def taint (p : Program) (roots : List Var) (x : Var) : Bool := (taintArr p roots).getD x false

/-- no object reachable (by may-alias) from `roots` is written.  (The closure is computed once.) -/
def safeFrom (p : Program) (roots : List Var) : Bool :=
  let T := taintArr p roots
  okFor p (fun x => T.getD x false) roots

/-- **the checker**: no `write` on a variable that may alias a parameter -/
def noParamWrite (p : Program) : Bool := safeFrom p (params p)

/-- parameters whose objects may be written -/
def mayWrite (p : Program) : List Var :=
  (params p).filter fun x => !safeFrom p [x]

/-! ## Linking: `call` statements resolved through the callee's IR -/

def callees (b : List Stmt) : List Nat :=
  b.filterMap fun | .call f _ _ => some f | _ => none

/-- functions reachable from the work list (depth-first).  Out of fuel with work left ⇒ every
    function of the module (conservative; never happens with the fuel `flatten` passes). -/
def reach (m : Module) : Nat → List Nat → List Nat → List Nat
  | _, [], seen => seen
  | 0, _ :: _, _ => List.range m.size
  | fuel + 1, f :: work, seen =>
    if seen.contains f then reach m fuel work seen
    else
      let new := (callees ((m.getD f default).body)).filter fun g => !(seen.contains g)
      reach m fuel (new ++ work) (f :: seen)

def reachFuel (m : Module) : Nat :=
  m.foldl (fun a f => a + f.body.length + 1) 2

/-- a call becomes parameter/return bindings; an unknown callee writes its arguments -/
def expand (m : Module) : Stmt → List Stmt
  | .call f args rets =>
    match m[f]? with
    | some fn => List.zipWith (fun r q => Stmt.alias r q) rets fn.rets ++
        List.zipWith (fun p a => Stmt.alias p a) fn.params args
    | none => args.map .write
  | .param _ => []
  | s => [s]

/-- the flat statement set of entry point `e`: its parameters, and the expanded bodies of every
    function reachable from it -/
def flatten (m : Module) (e : Nat) : Program :=
  ((m.getD e default).params.map .param) ++
    (reach m (reachFuel m) [e] []).flatMap fun f => ((m.getD f default).body).flatMap (expand m)

/-- several entry points at once (a *session*: any sequence of public calls on the same objects is
    a trace over the union of their statement sets, with all their parameters caller-owned) -/
def flattenMany (m : Module) (es : List Nat) : Program :=
  (es.flatMap fun e => (m.getD e default).params.map .param) ++
    (reach m (reachFuel m) es []).flatMap fun f => ((m.getD f default).body).flatMap (expand m)

/-! ## Text form of a module (the generated program is shipped as one string literal: elaborating tens
of thousands of numerals as Lean terms takes minutes, a string literal takes nothing).  One function per
line: `params;rets;stmt,stmt,…` with `a x y` = alias, `f x` = fresh, `w x` = write, `p x` = param,
`c f args… > rets…` = call.  Anything malformed makes the whole decode fail (no silent skip); the
harness additionally compares `flatten` of the decoded module with its own linking of the IR. -/

def decodeNats (s : String) : Option (List Nat) :=
  ((s.splitOn " ").filter (· ≠ "")).mapM (·.toNat?)

def decodeStmt (s : String) : Option Stmt :=
  match (s.splitOn " ").filter (· ≠ "") with
  | ["a", x, y] => do pure (.alias (← x.toNat?) (← y.toNat?))
  | ["f", x] => do pure (.fresh (← x.toNat?))
  | ["w", x] => do pure (.write (← x.toNat?))
  | ["p", x] => do pure (.param (← x.toNat?))
  | "c" :: f :: rest => do
    let args := rest.takeWhile (· ≠ ">")
    let rets := (rest.dropWhile (· ≠ ">")).drop 1
    pure (.call (← f.toNat?) (← args.mapM (·.toNat?)) (← rets.mapM (·.toNat?)))
  | _ => none

def decodeFn (line : String) : Option Fn :=
  match line.splitOn ";" with
  | [ps, rs, body] => do
    let stmts ← ((body.splitOn ",").filter (fun t => t.trimAscii.toString ≠ "")).mapM decodeStmt
    pure ⟨← decodeNats ps, ← decodeNats rs, stmts⟩
  | _ => none

def decodeModule (code : String) : Option Module :=
  (((code.splitOn "\n").filter (· ≠ "")).mapM decodeFn).map List.toArray

/-- checker on an entry point of a module -/
def noParamWriteEntry (m : Module) (e : Nat) : Bool := noParamWrite (flatten m e)

end CopVerif.Model.Effects
