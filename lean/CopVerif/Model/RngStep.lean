import CopVerif.Model.Rng
/-!
# The step language of the random-state protocol (property C15, translator tie)

`tools/gen_rngscope.py` translates the Python functions `utils.set_random_state`, `utils.random_state`,
`utils.validate_random_state` and the `set_random_state` methods of the model base classes statement by
statement into `do` blocks of the monad `M G` below; this file is the **fixed table of meanings** of the
numpy / Python primitives those statements use.  Mathlib-free and executable.

* `M G α := World G → World G × Except Exc α` — a Python computation: it transforms the process state
  (`Model.Rng.World`: global legacy generator, heap of `RandomState` objects, `random_state` attribute of
  every model) and either returns a value or raises.  `bind` stops at the first exception (statement
  sequencing), `tryFin` is `try: … finally: …` (the `finally` block runs in both cases; the pending
  exception — or return value — of the `try` block survives unless the `finally` block itself raises).
* `Val G` — the dynamically typed values that flow through the protocol: `None`, an `int`, a reference to
  a `RandomState` object, the tuple returned by `get_state()`, anything else.
* primitives (the trusted table):

  | Python                                   | here                         | meaning                                                        |
  |------------------------------------------|------------------------------|----------------------------------------------------------------|
  | `np.random.get_state()`                  | `npGetState`                 | `.state w.global`                                              |
  | `np.random.set_state(s)`                 | `npSetState s`               | `global := g` for `s = .state g`; else `TypeError`             |
  | `x.get_state()`                          | `rsGetState x`               | `.state (heap r)` for `x = .rs r`; else `AttributeError`       |
  | `x.set_state(s)`                         | `rsSetState x s`             | `heap r := g`; wrong receiver `AttributeError`, wrong arg `TypeError` |
  | `np.random.RandomState()`                | `newRandomState`             | fresh reference `next`; its state is the arbitrary content of the unallocated cell (OS entropy) |
  | `np.random.RandomState(seed=v)` / `(v)`  | `newRandomStateSeeded A v`   | `v = .int n`: fresh object holding `A.fromSeed n`; `v = None`: as above; else `TypeError` |
  | `e is None`, `isinstance(e, int)`, `isinstance(e, np.random.RandomState)` | `isNone`, `isInt`, `isRandomState` | tag tests                   |
  | `self.random_state`                      | `self.getRandomState`        | `attrOf m`: `None` / `.rs r` from `w.rs m`                       |
  | `self.random_state = v`                  | `self.assignRandomState v`   | `attrOf m`: `rs m := none / some r`; any other value is outside the model (`Exc.unrepresentable`) |
  | `raise TypeError(…)`                     | `raiseExc (excOfName "TypeError")` |                                                          |
-/
namespace CopVerif.Model.RngStep
open CopVerif.Model.Rng

/-- exceptions, by class; `body` = whatever a sampler body raises (the model's `Result.raised`). -/
inductive Exc where
  | typeError
  | attributeError
  | valueError
  | unrepresentable
  | other (name : String)
  | body
  deriving DecidableEq, Repr

def excOfName (s : String) : Exc :=
  if s == "TypeError" then .typeError
  else if s == "AttributeError" then .attributeError
  else if s == "ValueError" then .valueError
  else .other s

/-- dynamically typed values. -/
inductive Val (G : Type) where
  | none
  | int (n : Nat)
  | rs (r : Nat)
  | state (g : G)
  | other
  deriving DecidableEq, Repr

def isNone {G : Type} : Val G → Bool
  | .none => true
  | _ => false

def isInt {G : Type} : Val G → Bool
  | .int _ => true
  | _ => false

def isRandomState {G : Type} : Val G → Bool
  | .rs _ => true
  | _ => false

instance {ε α : Type} [DecidableEq ε] [DecidableEq α] : DecidableEq (Except ε α)
  | .ok a, .ok b => if h : a = b then isTrue (h ▸ rfl) else isFalse (fun e => h (Except.ok.inj e))
  | .error a, .error b => if h : a = b then isTrue (h ▸ rfl) else isFalse (fun e => h (Except.error.inj e))
  | .ok _, .error _ => isFalse (fun e => by cases e)
  | .error _, .ok _ => isFalse (fun e => by cases e)

/-- a Python computation over the process state. -/
def M (G : Type) (α : Type) : Type := World G → World G × Except Exc α

section
variable {G Draw Out : Type} {α β : Type}

def M.pure (a : α) : M G α := fun w => (w, .ok a)

def M.bind (x : M G α) (f : α → M G β) : M G β := fun w =>
  match x w with
  | (w1, .ok a) => f a w1
  | (w1, .error e) => (w1, .error e)

instance : Monad (M G) where
  pure := M.pure
  bind := M.bind

/-- `raise E(...)` -/
def raiseExc (e : Exc) : M G α := fun w => (w, .error e)

/-- `try: x finally: f` -/
def tryFin (x : M G α) (f : M G (Val G)) : M G α := fun w =>
  match x w with
  | (w1, r) =>
    match f w1 with
    | (w2, .ok _) => (w2, r)
    | (w2, .error e) => (w2, .error e)

/-! ## numpy primitives -/

def npGetState : M G (Val G) := fun w => (w, .ok (.state w.global))

def npSetState : Val G → M G (Val G)
  | .state g => fun w => (⟨g, w.heap, w.next, w.rs⟩, .ok .none)
  | _ => raiseExc .typeError

def rsGetState : Val G → M G (Val G)
  | .rs r => fun w => (w, .ok (.state (w.heap r)))
  | _ => raiseExc .attributeError

def rsSetState : Val G → Val G → M G (Val G)
  | .rs r, .state g => fun w => (⟨w.global, upd w.heap r g, w.next, w.rs⟩, .ok .none)
  | .rs _, _ => raiseExc .typeError
  | _, _ => raiseExc .attributeError

def newRandomState : M G (Val G) := fun w => (⟨w.global, w.heap, w.next + 1, w.rs⟩, .ok (.rs w.next))

def newRandomStateSeeded (A : GenAlg G Draw Out) : Val G → M G (Val G)
  | .int n => fun w => (⟨w.global, upd w.heap w.next (A.fromSeed n), w.next + 1, w.rs⟩, .ok (.rs w.next))
  | .none => newRandomState
  | _ => raiseExc .typeError

/-! ## `self` -/

/-- the attribute `random_state` of an object, as the two accesses the protocol performs. -/
structure SelfRef (G : Type) where
  getRandomState : M G (Val G)
  assignRandomState : Val G → M G (Val G)

/-- the Python value of an attribute slot. -/
def optVal : Option Nat → Val G
  | some r => .rs r
  | none => .none

/-- model `m` of the world. -/
def attrOf (m : Nat) : SelfRef G where
  getRandomState := fun w => (w, .ok (optVal (w.rs m)))
  assignRandomState
    | .none => fun w => (⟨w.global, w.heap, w.next, upd w.rs m none⟩, .ok .none)
    | .rs r => fun w => (⟨w.global, w.heap, w.next, upd w.rs m (some r)⟩, .ok .none)
    | _ => raiseExc .unrepresentable

/-- the object `Univariate.sample` delegates to: `self._instance`, built by `get_instance` without a
    seed; nothing ever assigns its `random_state` (it stays `None`; `Model.Rng.Kind.delegating`). -/
def unseededInstance : SelfRef G where
  getRandomState := M.pure .none
  assignRandomState := fun _ => M.pure .none

/-! ## glue between the monad and the model's vocabulary -/

/-- the model's `Result` as an outcome of the monad and back. -/
def ofResult : Result Out → Except Exc (List Out)
  | .ok outs => .ok outs
  | .raised => .error .body

def toResult : Except Exc (List Out) → Result Out
  | .ok outs => .ok outs
  | .error _ => .raised

/-- a model-level body (returns / raises) as a computation. -/
def liftBody (b : World G → World G × Result Out) : M G (List Out) := fun w => ((b w).1, ofResult (b w).2)

/-- … and a computation as a model-level body. -/
def lowerBody (x : M G (List Out)) : World G → World G × Result Out := fun w => ((x w).1, toResult (x w).2)

/-- run a `None`-returning computation for its effect. -/
def effect (x : M G α) (w : World G) : World G := (x w).1

/-- the Python value of a `Model.Rng.Seed`. -/
def seedVal : Seed → Val G
  | .none => .none
  | .int n => .int n
  | .obj r => .rs r

end
end CopVerif.Model.RngStep
