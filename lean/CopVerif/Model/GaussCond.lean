import CopVerif.Base.Num
/-!
  Hand-written model (K) of conditional sampling from a fitted Gaussian copula, property C12:
  `GaussianMultivariate.sample(num_rows, conditions)` with `conditions` not `None`
  (`copulas/multivariate/gaussian.py`: `_transform_to_normal`, `_get_conditional_distribution`,
  `_get_normal_samples`, `sample`).

  ```
  # _get_normal_samples
  conditions        = pd.Series(conditions)                                  -- Conditions.items (caller's order)
  normal_conditions = self._transform_to_normal(conditions)[0]               -- walkedScores (TRAINING order)
  normal_conditions = pd.Series(normal_conditions, index=conditions.index)   -- normalConditions (CALLER's order!)
  means, covariance, columns = self._get_conditional_distribution(normal_conditions)   -- condDist
  samples = np.random.multivariate_normal(means, covariance, size=num_rows)  -- external: `rng`
  return pd.DataFrame(samples, columns=columns)                              -- drawCol (lookup by label)
  # sample
  for column_name, univariate in zip(self.columns, self.univariates):
      if conditions and column_name in conditions:                           -- truthy / colPlan
          output[column_name] = np.full(num_rows, conditions[column_name])   -- ColPlan.fixed (ORIGINAL value)
      else:
          output[column_name] = univariate.percent_point(stats.norm.cdf(samples[column_name]))  -- ColPlan.draw
  ```

  Quirks that are modelled because the code has them (variant `AsFound`):
  * `_transform_to_normal` walks the *training* columns and keeps those present in the conditions, but
    the resulting score vector is re-labelled with `conditions.index`, i.e. the *caller's* key order:
    conditions listed in another order than the training order get each other's scores;
  * `if conditions and …` takes the truth value of the caller's object: fine for a `dict`, `ValueError`
    ("The truth value of a Series is ambiguous") for a `pandas.Series`.
  Variant `Repaired` is the minimal behavioural correction: scores labelled by the columns actually
  walked; `conditions is not None`.

  External symbols (parameters): the per-column score `score c x = Φ⁻¹(clip(F_c(x)))`, the per-column
  quantile `ppf c`, `Φ`, `np.linalg.inv` (`inv`; the driver uses the executable `gaussJordan`), the
  order used by pandas `Index.difference` to sort (`le`), `np.random.multivariate_normal` (`rng`).
  Labels are an abstract `[DecidableEq ι]`.  Matrices are lists of rows built with `table`, read
  with `entry`.
-/
namespace CopVerif.Model.GaussCond
open CopVerif NumFns

/-- how the score vector coming out of `_transform_to_normal` is labelled. -/
inductive Labelling where
  /-- as found: `index=conditions.index`, the caller's key order. -/
  | callerOrder
  /-- repaired: the training columns actually walked. -/
  | walked
  deriving DecidableEq, Repr

/-- the first conjunct of the test in `sample`'s loop. -/
inductive TruthTest where
  /-- as found: `if conditions and …` (truth value of the caller's object). -/
  | truthValue
  /-- repaired: `if conditions is not None and …`. -/
  | isNotNone
  deriving DecidableEq, Repr

/-- which reading of the code; the two defects (and their repairs) are independent. -/
structure Variant where
  labelling : Labelling
  truth : TruthTest
  deriving DecidableEq, Repr

/-- the code as found. -/
def Variant.asFound : Variant := ⟨.callerOrder, .truthValue⟩
/-- the code with the two minimal repairs. -/
def Variant.repaired : Variant := ⟨.walked, .isNotNone⟩

/-- kind of the caller's `conditions` object. -/
inductive Container where
  | dict | series
  deriving DecidableEq, Repr

/-- the caller's `conditions`: container kind and the items in the caller's key / index order. -/
structure Conditions (ι α : Type) where
  kind : Container
  items : List (ι × α)

/-- `conditions.index` / `dict` keys, in the caller's order. -/
def Conditions.keys {ι α : Type} (c : Conditions ι α) : List ι := c.items.map Prod.fst

/-! ### matrices as lists of rows -/

/-- `m × n` list-of-rows matrix with entry `f i j`. -/
def table {β : Type} (m n : Nat) (f : Nat → Nat → β) : List (List β) :=
  (List.range m).map fun i => (List.range n).map fun j => f i j

section numeric
variable {α : Type} [Add α] [Sub α] [Mul α] [Div α] [Neg α] [LT α] [DecidableLT α] [NumFns α]

/-- entry `(i, j)`; `0` outside the shape. -/
def entry (M : List (List α)) (i j : Nat) : α := (M.getD i []).getD j (ofNat 0)

/-- `Σ_{l < k} f l`, summed left to right from `0`. -/
def sumRange (k : Nat) (f : Nat → α) : α := (List.range k).foldl (fun acc l => acc + f l) (ofNat 0)

/-- `A @ B` for `A : m × k`, `B : k × n`. -/
def matMul (m k n : Nat) (A B : List (List α)) : List (List α) :=
  table m n fun i j => sumRange k fun l => entry A i l * entry B l j

/-- `A - B` for `m × n` matrices. -/
def matSub (m n : Nat) (A B : List (List α)) : List (List α) :=
  table m n fun i j => entry A i j - entry B i j

/-- `mu1 + A @ (z - mu2)` with `mu1 = np.zeros(m)`, `mu2 = np.zeros(k)`. -/
def affineMean (m k : Nat) (A : List (List α)) (z : List α) : List α :=
  (List.range m).map fun i => ofNat 0 + sumRange k fun l => entry A i l * (z.getD l (ofNat 0) - ofNat 0)

/-! ### executable stand-in for `np.linalg.inv` (Gauss–Jordan with partial pivoting) -/

def swapRows {β : Type} (M : List (List β)) (a b : Nat) : List (List β) :=
  (List.range M.length).map fun r => M.getD (if r = a then b else if r = b then a else r) []

/-- one elimination step on column `c` of the augmented matrix. -/
def gjStep (k : Nat) (M : List (List α)) (c : Nat) : List (List α) :=
  let cand := (List.range k).filter fun r => decide (c ≤ r)
  let p := cand.foldl (fun best r => if NumFns.abs (entry M best c) < NumFns.abs (entry M r c) then r else best) c
  let M := swapRows M c p
  let piv := entry M c c
  let prow := (M.getD c []).map fun x => x / piv
  (List.range M.length).map fun r =>
    let row := M.getD r []
    if r = c then prow else
      let f := row.getD c (ofNat 0)
      List.zipWith (fun x y => x - f * y) row prow

/-- inverse of a `k × k` matrix by Gauss–Jordan on `[A | I]`.  Only used by the driver at `Float`;
    the theorems take the inverse as a parameter with the hypothesis that it *is* the inverse. -/
def gaussJordan (k : Nat) (A : List (List α)) : List (List α) :=
  let aug := (List.range k).map fun i =>
    (List.range k).map (fun j => entry A i j)
      ++ (List.range k).map fun j => if i = j then (ofNat 1 : α) else ofNat 0
  ((List.range k).foldl (gjStep k) aug).map fun row => row.drop k

end numeric

/-! ### labels: `_transform_to_normal`, the re-labelling, the partition -/
section labels
variable {ι α : Type} [DecidableEq ι]

/-- `_transform_to_normal(pd.Series(conditions))[0]`: walk the TRAINING columns in training order, keep
    those present in the conditions, score each with its own marginal.  Returned with the label of
    the column each score was computed for (the code keeps only the scores). -/
def walkedScores (cols : List ι) (score : ι → α → α) (items : List (ι × α)) : List (ι × α) :=
  cols.filterMap fun c => (items.lookup c).map fun x => (c, score c x)

/-- the training columns that are present in the conditions, in training order. -/
def walked (cols keys : List ι) : List ι := cols.filter fun c => decide (c ∈ keys)

/-- `normal_conditions` as handed to `_get_conditional_distribution`: label ↦ score pairs, in the
    order of the Series.  `np.column_stack([])` raises for no matching key; `pd.Series(values,
    index=conditions.index)` raises on a length mismatch (a key that is not a training column). -/
def normalConditions (v : Variant) (cols : List ι) (score : ι → α → α) (c : Conditions ι α) :
    Except Err (List (ι × α)) :=
  let ws := walkedScores cols score c.items
  if ws.isEmpty then .error .valueError
  else match v.labelling with
    | .callerOrder =>
      if ws.length = c.items.length then .ok (c.keys.zip (ws.map Prod.snd)) else .error .valueError
    | .walked => .ok ws

/-- `columns1 = self.correlation.columns.difference(columns2)`: pandas `Index.difference` SORTS. -/
def columns1 (le : ι → ι → Bool) (cols columns2 : List ι) : List ι :=
  (cols.filter fun c => decide (c ∉ columns2)).mergeSort le

end labels

/-- `self.correlation`: a square table labelled by the training columns on both axes. -/
structure Corr (ι α : Type) where
  labels : List ι
  data : List (List α)

/-- what `_get_conditional_distribution` returns and `np.random.multivariate_normal` receives. -/
structure CondDist (ι α : Type) where
  mean : List α
  cov : List (List α)
  /-- labels of the columns of the draws (`columns1`). -/
  columns : List ι

section dist
variable {ι α : Type} [DecidableEq ι] [Add α] [Sub α] [Mul α] [NumFns α]

/-- `self.correlation.loc[r, c]` for single labels. -/
def Corr.loc1 (S : Corr ι α) (r c : ι) : α := entry S.data (S.labels.idxOf r) (S.labels.idxOf c)

/-- `self.correlation.loc[rows, cols].to_numpy()`. -/
def Corr.loc (S : Corr ι α) (rows cols : List ι) : List (List α) :=
  rows.map fun r => cols.map fun c => S.loc1 r c

/-- `sigma12 @ np.linalg.inv(sigma22)`. -/
def gain (inv : List (List α) → List (List α)) (S : Corr ι α) (c1 c2 : List ι) : List (List α) :=
  matMul c1.length c2.length c2.length (S.loc c1 c2) (inv (S.loc c2 c2))

/-- `mu_bar = mu1 + sigma12sigma22inv @ (conditions - mu2)`. -/
def condMean (inv : List (List α) → List (List α)) (S : Corr ι α) (c1 c2 : List ι) (z : List α) :
    List α :=
  affineMean c1.length c2.length (gain inv S c1 c2) z

/-- `sigma_bar = sigma11 - sigma12sigma22inv @ sigma21`. -/
def condCov (inv : List (List α) → List (List α)) (S : Corr ι α) (c1 c2 : List ι) : List (List α) :=
  matSub c1.length c1.length (S.loc c1 c1)
    (matMul c1.length c2.length c1.length (gain inv S c1 c2) (S.loc c2 c1))

/-- `_get_conditional_distribution(normal_conditions)`.  `columns2 = conditions.index`; an empty
    `columns1` (every column conditioned) makes numpy raise `ValueError`. -/
def condDist (inv : List (List α) → List (List α)) (le : ι → ι → Bool) (S : Corr ι α)
    (nc : List (ι × α)) : Except Err (CondDist ι α) :=
  let c2 := nc.map Prod.fst
  let c1 := columns1 le S.labels c2
  if c1.isEmpty then .error .valueError
  else .ok { mean := condMean inv S c1 c2 (nc.map Prod.snd), cov := condCov inv S c1 c2, columns := c1 }

end dist

/-! ### the sampling plan -/

/-- how one output column is produced. -/
inductive ColPlan (ι α : Type) where
  /-- `np.full(num_rows, conditions[column_name])`: the caller's ORIGINAL value. -/
  | fixed (x : α)
  /-- `univariate.percent_point(stats.norm.cdf(samples[label]))`, `samples[label]` looked up by label. -/
  | draw (label : ι)
  deriving Repr

structure Plan (ι α : Type) where
  /-- handed to `np.random.multivariate_normal(mean, cov, size=num_rows)`; draws labelled `columns`. -/
  dist : CondDist ι α
  /-- one entry per training column, in training order. -/
  cols : List (ι × ColPlan ι α)

section plan
variable {ι α : Type} [DecidableEq ι]

/-- the `conditions and …` / `conditions is not None and …` part of the test in `sample`. -/
def truthy (v : Variant) (c : Conditions ι α) : Except Err Bool :=
  match v.truth, c.kind with
  | .isNotNone, _ => .ok true
  | .truthValue, .dict => .ok (!c.items.isEmpty)
  | .truthValue, .series => .error .valueError

/-- body of the loop in `sample` for one training column. -/
def colPlan (v : Variant) (c : Conditions ι α) (col : ι) : Except Err (ColPlan ι α) :=
  match truthy v c with
  | .error e => .error e
  | .ok t =>
    if t && decide (col ∈ c.keys) then
      match c.items.lookup col with
      | some x => .ok (.fixed x)
      | none => .error .other
    else .ok (.draw col)

/-- the loop over `zip(self.columns, self.univariates)`; the first error aborts. -/
def planCols (v : Variant) (c : Conditions ι α) : List ι → Except Err (List (ι × ColPlan ι α))
  | [] => .ok []
  | col :: rest =>
    match colPlan v c col with
    | .error e => .error e
    | .ok p =>
      match planCols v c rest with
      | .error e => .error e
      | .ok ps => .ok ((col, p) :: ps)

variable [Add α] [Sub α] [Mul α] [NumFns α]

/-- `sample(num_rows, conditions)` up to the random draws and the marginals' quantile functions. -/
def samplePlan (v : Variant) (inv : List (List α) → List (List α)) (le : ι → ι → Bool)
    (score : ι → α → α) (S : Corr ι α) (c : Conditions ι α) : Except Err (Plan ι α) :=
  match normalConditions v S.labels score c with
  | .error e => .error e
  | .ok nc =>
    match condDist inv le S nc with
    | .error e => .error e
    | .ok d =>
      match planCols v c S.labels with
      | .error e => .error e
      | .ok ps => .ok { dist := d, cols := ps }

/-- `samples[label]`: column of the frame `pd.DataFrame(draws, columns=columns)`, by label. -/
def drawCol (columns : List ι) (draws : List (List α)) (label : ι) : List α :=
  draws.map fun row => row.getD (columns.idxOf label) (ofNat 0)

/-- one output column from its plan and the recorded draws (`n` rows). -/
def evalCol (n : Nat) (ppf : ι → α → α) (phi : α → α) (columns : List ι) (draws : List (List α))
    (col : ι) : ColPlan ι α → List α
  | .fixed x => List.replicate n x
  | .draw l => (drawCol columns draws l).map fun z => ppf col (phi z)

/-- the output frame as (label, column) pairs in order. -/
def evalPlan (n : Nat) (ppf : ι → α → α) (phi : α → α) (p : Plan ι α) (draws : List (List α)) :
    List (ι × List α) :=
  p.cols.map fun q => (q.1, evalCol n ppf phi p.dist.columns draws q.1 q.2)

/-- `sample(n, conditions)`; `rng mean cov n` stands for `np.random.multivariate_normal(mean, cov,
    size=n)` (an `n`-row table).  Second component: the caller's `conditions` object after the call
    — the model never writes to it (`pd.Series(conditions)` rebinds a local name). -/
def sampleEff (v : Variant) (inv : List (List α) → List (List α)) (le : ι → ι → Bool)
    (score ppf : ι → α → α) (phi : α → α) (rng : List α → List (List α) → Nat → List (List α))
    (S : Corr ι α) (n : Nat) (c : Conditions ι α) :
    Except Err (List (ι × List α)) × Conditions ι α :=
  (match samplePlan v inv le score S c with
    | .error e => .error e
    | .ok p => .ok (evalPlan n ppf phi p (rng p.dist.mean p.dist.cov n)), c)

def sample (v : Variant) (inv : List (List α) → List (List α)) (le : ι → ι → Bool)
    (score ppf : ι → α → α) (phi : α → α) (rng : List α → List (List α) → Nat → List (List α))
    (S : Corr ι α) (n : Nat) (c : Conditions ι α) : Except Err (List (ι × List α)) :=
  (sampleEff v inv le score ppf phi rng S n c).1

end plan
end CopVerif.Model.GaussCond
