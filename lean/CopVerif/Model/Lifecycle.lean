import CopVerif.Base.Num
/-!
# Model (K) of the model life cycle of `copulas` (property C19)

Code modelled (line numbers of /repo at the time of writing):

* `copulas/univariate/base.py:109-119`   `Univariate.check_fit`                       → `checkFit`
* `copulas/univariate/base.py:190-231`   `_replace_constant_methods`, `_set_constant_value`,
                                         `_check_constant_value`                      → the `override` field
* `copulas/univariate/base.py:233-248`   `Univariate.fit` (the selecting wrapper)      → `fitWrapper`
* `copulas/univariate/base.py:626-638`   `ScipyModel.fit`                              → `fit`
* `copulas/univariate/truncated_gaussian.py:33-38`  `_fit` storing `self.min/self.max` → `Kind.truncated`
* `copulas/univariate/gaussian_kde.py:37-40,158-172` `_get_model` caching `_sample_size`,
                                         `_fit` resampling, `_fit_constant`            → `Kind.kde`
* `copulas/utils.py:79-120`              `get_instance`, `store_args`                  → `getInstance`, `construct`
* `copulas/utils.py:217-248`             `check_valid_values`                          → `checkValidValues`
* `copulas/multivariate/gaussian.py:73-93`, `vine.py:159-195`  `fit`                   → `mfit`
* `copulas/bivariate/base.py:133-144`    `Bivariate.check_fit` (`if not self.theta`)   → `bivCheckFit`

Reading guide.

* Everything numerical is **external**: the scipy fitters are parameters (`Fitters`): `_fit` is a
  function `fitFn` of (class, the option attributes the fit path *reads*, data) and
  `_fit_constant` a function `fitConst` of (class, resolved sample size, data).  Data are abstract
  (`D`) and seen only through `DataOps`: `np.unique(X)` having one element (`const?`),
  `X.min() - EPSILON` (`lo`), `X.max() + EPSILON` (`hi`), `len(X)`.  Randomness of a resampling
  fit is part of the data argument (the harness fixes the global generator before every `fit`).
* `Variant` has three independent flags; `Variant.asFound` (all set) is the code as it is: the
  option attributes read by a fit are the **instance's
  current ones**, which earlier fits have overwritten (`self.min/self.max` after the first
  non-constant fit of a `TruncatedGaussian` built without bounds; `self._sample_size` after the
  first non-constant fit of a `GaussianKDE` built without `sample_size`), and the four constant
  methods written on the instance by a constant fit are never removed.
  `Variant.repaired`: a fit reads the **constructor's** options, writes none of them back, and a
  non-constant fit removes the constant methods.
* What a caller can observe is `obs`: `fitted`, `to_dict()`, which method set answers
  cdf/ppf/pdf/sample (`override`) and the parameters the regular methods use; `query` is a function
  of it (`query_congr` in `Lemmas/Lifecycle.lean`).  `hidden` (the option attributes) is white-box
  state, used by the tie only.
-/
namespace CopVerif.Model.Lifecycle
open CopVerif

/-! ## tables emitted by the translator (`Gen/Lifecycle.lean`) -/

/-- what a query method does first. -/
inductive Guard where
  | checkFit                  -- `self.check_fit()` is the first statement
  | delegate (m : String)     -- `return <pure wrapper>(self.m(<names>))`
  | abstract                  -- `raise NotImplementedError`
  | unguarded                 -- anything else
  deriving DecidableEq, Repr

/-- the tests of `check_valid_values`. -/
inductive Check where
  | empty | nonNumeric | nan
  deriving DecidableEq, Repr

structure ClassInfo where
  name : String
  module : String
  /-- `univariate` / `multivariate` / `bivariate` -/
  package : String
  /-- `module.name` -/
  qualname : String
  bases : List String
  ownInit : Bool
  /-- the class (in-package MRO) whose `__init__` is used. -/
  initOwner : String
  /-- that `__init__` is decorated with `@store_args`. -/
  storeArgs : Bool
  params : List String
  required : List String
  /-- instance attributes (besides `_params`, `_model`) assigned by `_fit/_fit_constant/_get_model`. -/
  fitWrites : List String
  fitDecorators : List String
  /-- `fit` assigns `self.fitted = True` exactly once, as its last statement. -/
  fittedLast : Bool
  guards : List (String × Guard)
  deriving DecidableEq, Repr

def lookupGuard (ci : ClassInfo) (m : String) : Option Guard :=
  (ci.guards.find? fun g => g.1 == m).map (·.2)

/-- does method `m` raise `NotFittedError` on an unfitted object before anything else can happen?
    (follows delegations; `fuel` bounds the chain). -/
def guardedBy (ci : ClassInfo) : Nat → String → Bool
  | 0, _ => false
  | fuel + 1, m =>
    match lookupGuard ci m with
    | some .checkFit => true
    | some (.delegate m') => guardedBy ci fuel m'
    | _ => false

def guarded (ci : ClassInfo) (m : String) : Bool := guardedBy ci 4 m

/-- a class whose constructor takes options but does not record them: `get_instance(instance)`
    rebuilds it with defaults. -/
def losesOptions (ci : ClassInfo) : Bool := !ci.storeArgs && !ci.params.isEmpty

/-! ## univariate (`ScipyModel`) state and `fit` -/

/-- which of the three recorded behaviours the modelled code has (they can be repaired independently):
* `keepOverride`: a non-constant fit leaves the instance-level constant methods in place;
* `rememberBounds`: the fit path reads `self.min/self.max` as left by earlier fits and writes them back;
* `cacheSize`: the fit path reads `self._sample_size` as left by earlier fits and writes it back. -/
structure Variant where
  keepOverride : Bool
  rememberBounds : Bool
  cacheSize : Bool
  deriving DecidableEq, Repr

/-- the code as it is. -/
def Variant.asFound : Variant := ⟨true, true, true⟩
/-- a fit reads the constructor's options, writes none back, and clears the constant methods. -/
def Variant.repaired : Variant := ⟨false, false, false⟩

@[simp] theorem Variant.asFound_keepOverride : Variant.asFound.keepOverride = true := rfl
@[simp] theorem Variant.asFound_rememberBounds : Variant.asFound.rememberBounds = true := rfl
@[simp] theorem Variant.asFound_cacheSize : Variant.asFound.cacheSize = true := rfl
@[simp] theorem Variant.repaired_keepOverride : Variant.repaired.keepOverride = false := rfl
@[simp] theorem Variant.repaired_rememberBounds : Variant.repaired.rememberBounds = false := rfl
@[simp] theorem Variant.repaired_cacheSize : Variant.repaired.cacheSize = false := rfl

/-- how the class's fit path treats the option attributes. -/
inductive Kind where
  | scipy        -- reads/writes none
  | truncated    -- `TruncatedGaussian`: `if self.min is None: self.min = X.min() - EPSILON` (same for max)
  | kde          -- `GaussianKDE`: `_sample_size` truthy ⇒ resample; `_get_model` stores `_sample_size or len(dataset)`
  deriving DecidableEq, Repr

/-- kind read off a generated class row. -/
def kindOfInfo (ci : ClassInfo) : Kind :=
  if ci.fitWrites.contains "min" || ci.fitWrites.contains "max" then .truncated
  else if ci.fitWrites.contains "_sample_size" then .kde else .scipy

/-- Python truthiness of `_sample_size` (`None` and `0` are falsy). -/
def truthy : Option Nat → Option Nat
  | some 0 => none
  | o => o

/-- `self._sample_size or n`. -/
def orLen (s : Option Nat) (n : Nat) : Nat :=
  match truthy s with
  | some k => k
  | none => n

/-- option attributes: `minimum`, `maximum`, `sample_size`, and the rest (`bw_method`, `weights`,
    `random_state`, …) which no fit ever writes. -/
structure Opts (V O : Type) where
  min : Option V
  max : Option V
  sampleSize : Option Nat
  other : O
  deriving DecidableEq, Repr

structure UState (C V O P : Type) where
  cls : C
  kind : Kind
  /-- the constructor's options (`__args__/__kwargs__`); never modified. -/
  ctor : Opts V O
  fitted : Bool
  /-- `_params` -/
  params : Option P
  /-- `some c`: the instance attributes `cumulative_distribution`, `percent_point`,
      `probability_density`, `sample` are the constant methods with `_constant_value = c`. -/
  override : Option V
  /-- `self.min`, `self.max`, `self._sample_size` as they currently are. -/
  min : Option V
  max : Option V
  sampleSize : Option Nat
  deriving DecidableEq, Repr

/-- a newly constructed object. -/
def UState.fresh {C V O P : Type} (cls : C) (kind : Kind) (ctor : Opts V O) : UState C V O P :=
  ⟨cls, kind, ctor, false, none, none, ctor.min, ctor.max, ctor.sampleSize⟩

structure DataOps (D V : Type) where
  /-- `some c` iff `np.unique(X)` has the single element `c`. -/
  const? : D → Option V
  /-- `X.min() - EPSILON` -/
  lo : D → V
  /-- `X.max() + EPSILON` -/
  hi : D → V
  len : D → Nat

/-- the external fitters (scipy `fit`, `fmin_slsqp`, `gaussian_kde(...).resample`). -/
structure Fitters (C V O P D : Type) where
  /-- `_fit_constant`; the `Nat` is `self._sample_size or len(X)` for a KDE (`len(X)` otherwise). -/
  fitConst : C → Nat → D → P
  /-- `_fit`, given the option attributes it reads. -/
  fitFn : C → Opts V O → D → P

/-- the option attributes a non-constant `_fit` of this kind reads. -/
def effOpts {V O : Type} (k : Kind) (mn mx : Option V) (ss : Option Nat) (o : O) : Opts V O :=
  match k with
  | .scipy => ⟨none, none, none, o⟩
  | .truncated => ⟨mn, mx, none, o⟩
  | .kde => ⟨none, none, truthy ss, o⟩

/-- the size `_fit_constant` uses: `self._sample_size or len(X)` (KDE), else just `len(X)`. -/
def constSize (k : Kind) (ss : Option Nat) (n : Nat) : Nat :=
  match k with
  | .kde => orLen ss n
  | _ => n

/-- `x or y` on `Option`. -/
def orElse {V : Type} (a : Option V) (b : V) : Option V :=
  match a with
  | some v => some v
  | none => some b

/-- `TruncatedGaussian._fit`: `if self.min is None: self.min = X.min() - EPSILON` (resp. max). -/
def stepBound {V : Type} (k : Kind) (b : Option V) (fromData : V) : Option V :=
  match k with
  | .truncated => orElse b fromData
  | _ => b

/-- `GaussianKDE._get_model`: `self._sample_size = self._sample_size or len(dataset)`. -/
def stepSize (k : Kind) (ss : Option Nat) (n : Nat) : Option Nat :=
  match k with
  | .kde => some (orLen ss n)
  | _ => ss

section
variable {C V O P D : Type}

/-- `ScipyModel.fit(X)`.

```
if self._check_constant_value(X):      # installs the constant methods on the instance
    self._fit_constant(X)
else:
    self._fit(X)                       # TruncatedGaussian: writes self.min/self.max; KDE: _get_model writes _sample_size
self.fitted = True
```
-/
def fit (v : Variant) (ops : DataOps D V) (F : Fitters C V O P D) (s : UState C V O P) (x : D) :
    UState C V O P :=
  -- the option attributes this fit starts from
  let mn := if v.rememberBounds then s.min else s.ctor.min
  let mx := if v.rememberBounds then s.max else s.ctor.max
  let ss := if v.cacheSize then s.sampleSize else s.ctor.sampleSize
  match ops.const? x with
  | some c =>
    ⟨s.cls, s.kind, s.ctor, true, some (F.fitConst s.cls (constSize s.kind ss (ops.len x)) x), some c, mn, mx, ss⟩
  | none =>
    let mn' := stepBound s.kind mn (ops.lo x)
    let mx' := stepBound s.kind mx (ops.hi x)
    let ss' := stepSize s.kind ss (ops.len x)
    let p := F.fitFn s.cls (effOpts s.kind mn' mx' ss s.ctor.other) x
    ⟨s.cls, s.kind, s.ctor, true, some p, if v.keepOverride then s.override else none,
     if v.rememberBounds then mn' else mn, if v.rememberBounds then mx' else mx,
     if v.cacheSize then ss' else ss⟩

/-- a history of `fit` calls. -/
def fitAll (v : Variant) (ops : DataOps D V) (F : Fitters C V O P D) (s : UState C V O P) :
    List D → UState C V O P
  | [] => s
  | x :: xs => fitAll v ops F (fit v ops F s x) xs

/-! ## observation -/

/-- `check_fit` -/
def checkFit (fitted : Bool) : Except Err Unit :=
  if fitted then .ok () else .error .notFitted

/-- `to_dict()`: `check_fit`, then `_params.copy()` + the class name. -/
def toDict (s : UState C V O P) : Except Err (C × Option P) :=
  match checkFit s.fitted with
  | .error e => .error e
  | .ok _ => .ok (s.cls, s.params)

structure Obs (C V P : Type) where
  cls : C
  fitted : Bool
  toDict : Except Err (C × Option P)
  /-- which method set is bound on the instance. -/
  override : Option V
  /-- what the regular (class-level) methods would use. -/
  params : Option P

def obs (s : UState C V O P) : Obs C V P := ⟨s.cls, s.fitted, toDict s, s.override, s.params⟩

/-- white-box: the option attributes. -/
def hidden (s : UState C V O P) : Option V × Option V × Option Nat := (s.min, s.max, s.sampleSize)

/-- the query methods. `logpdf` (`log_probability_density`) is *not* among the attributes replaced
    by `_replace_constant_methods`. -/
inductive Q where
  | cdf | ppf | pdf | sample | logpdf
  deriving DecidableEq, Repr

def Q.overridable : Q → Bool
  | .logpdf => false
  | _ => true

/-- the external evaluators: the constant methods, and the class's regular methods applied to
    `_params` (and the never-written options, e.g. `bw_method`). -/
structure Evals (C V O P R : Type) where
  const : V → Q → R
  reg : C → O → P → Q → R

/-- `instance.<q>(…)`: an instance attribute shadows the class method, and the constant methods do
    not call `check_fit`; the class methods start with `check_fit`. -/
def query {R : Type} (E : Evals C V O P R) (s : UState C V O P) (q : Q) : Except Err R :=
  match s.override, q.overridable with
  | some c, true => .ok (E.const c q)
  | _, _ =>
    match checkFit s.fitted with
    | .error e => .error e
    | .ok _ =>
      match s.params with
      | some p => .ok (E.reg s.cls s.ctor.other p q)
      | none => .error .other

/-! ## the selecting wrapper `Univariate` -/

structure WState (C V O P W : Type) where
  /-- candidates / parametric / bounded / selection_sample_size -/
  ctor : W
  fitted : Bool
  /-- `_instance` -/
  inst : Option (UState C V O P)

def WState.fresh (ctor : W) : WState C V O P W := ⟨ctor, false, none⟩

/-- `Univariate.fit`: `select_univariate` (external: best candidate for the data), then
    `get_instance(best_model)` — a **new** object — fitted on `X`. -/
def fitWrapper {W : Type} (v : Variant) (ops : DataOps D V) (F : Fitters C V O P D)
    (select : W → D → C × Kind × Opts V O) (w : WState C V O P W) (x : D) : WState C V O P W :=
  let sel := select w.ctor x
  ⟨w.ctor, true, some (fit v ops F (UState.fresh sel.1 sel.2.1 sel.2.2) x)⟩

def fitAllWrapper {W : Type} (v : Variant) (ops : DataOps D V) (F : Fitters C V O P D)
    (select : W → D → C × Kind × Opts V O) (w : WState C V O P W) : List D → WState C V O P W
  | [] => w
  | x :: xs => fitAllWrapper v ops F select (fitWrapper v ops F select w x) xs

/-- what is observable of a wrapper: `fitted` and, through delegation, its instance. -/
def obsWrapper {W : Type} (w : WState C V O P W) : Bool × Option (Obs C V P) :=
  (w.fitted, w.inst.map obs)

def queryWrapper {R W : Type} (E : Evals C V O P R) (w : WState C V O P W) (q : Q) : Except Err R :=
  match checkFit w.fitted with
  | .error e => .error e
  | .ok _ =>
    match w.inst with
    | some s => query E s q
    | none => .error .other

def toDictWrapper {W : Type} (w : WState C V O P W) : Except Err (C × Option P) :=
  match checkFit w.fitted with
  | .error e => .error e
  | .ok _ =>
    match w.inst with
    | some s => .ok (s.cls, s.params)
    | none => .error .other

end

/-! ## the free ("Herbrand") interpretation of the externals

Parameters are the *term* recording which external fitter was called on which arguments: two
observations are equal under the free interpretation iff they are equal for every interpretation of
the fitters.  The driver computes with it (the harness evaluates the terms with the real scipy
fitters); the closed counter-examples in `Props/C19.lean` use it as a concrete witness. -/

inductive FreeP (C V O D : Type) where
  | const (cls : C) (size : Nat) (d : D)
  | reg (cls : C) (opts : Opts V O) (d : D)
  deriving DecidableEq, Repr

def freeFitters {C V O D : Type} : Fitters C V O (FreeP C V O D) D := ⟨FreeP.const, FreeP.reg⟩

/-- a dataset as the model sees it: an identifier and the four facts of `DataOps`. -/
structure Dat (V : Type) where
  id : Nat
  const? : Option V
  lo : V
  hi : V
  len : Nat
  deriving DecidableEq, Repr

def datOps {V : Type} : DataOps (Dat V) V := ⟨Dat.const?, Dat.lo, Dat.hi, Dat.len⟩

/-! ## multivariate `fit` behind `check_valid_values` -/

/-- what the decorator looks at. -/
structure DataFacts where
  len : Nat
  numeric : Bool
  hasNaN : Bool
  deriving DecidableEq, Repr

def Check.fires (f : DataFacts) : Check → Bool
  | .empty => f.len == 0
  | .nonNumeric => !f.numeric
  | .nan => f.hasNaN

/-- `check_valid_values`: the tests in order; the first that fires raises `ValueError`. -/
def checkValidValues (checks : List Check) (f : DataFacts) : Except Err Unit :=
  if checks.any (Check.fires f) then .error .valueError else .ok ()

/-- training data a multivariate model must reject. -/
def DataFacts.invalid (f : DataFacts) : Bool := f.len == 0 || !f.numeric || f.hasNaN

structure MState (C A M : Type) where
  cls : C
  ctor : A
  fitted : Bool
  /-- columns / univariates / correlation, or trees / unis / tau_mat / u_matrix … -/
  content : Option M
  deriving DecidableEq, Repr

def MState.fresh {C A M : Type} (cls : C) (ctor : A) : MState C A M := ⟨cls, ctor, false, none⟩

section
variable {C A M D : Type}

/-- the body of a multivariate `fit` (external): new content and whether it raised part-way
    (then the content may be partially written). -/
abbrev Body (C A M D : Type) := C → A → D → Option M × Option Err

/-- decorated `fit(X)`: returns the state after the call and the exception, if any.
    The decorator's tests run **before** the body; `self.fitted = True` is the body's last statement
    (`fittedLast` in the generated table), so it is reached only if nothing raised. -/
def mfit (checks : List Check) (facts : D → DataFacts) (body : Body C A M D) (s : MState C A M) (x : D) :
    MState C A M × Option Err :=
  match checkValidValues checks (facts x) with
  | .error e => (s, some e)
  | .ok _ =>
    match body s.cls s.ctor x with
    | (m, none) => (⟨s.cls, s.ctor, true, m⟩, none)
    | (m, some e) => (⟨s.cls, s.ctor, s.fitted, m⟩, some e)

def mfitAll (checks : List Check) (facts : D → DataFacts) (body : Body C A M D) (s : MState C A M) :
    List D → MState C A M
  | [] => s
  | x :: xs => mfitAll checks facts body (mfit checks facts body s x).1 xs

/-- queries of `GaussianMultivariate` (`check_fit` first). -/
def mquery {R : Type} (eval : M → R) (s : MState C A M) : Except Err R :=
  match checkFit s.fitted with
  | .error e => .error e
  | .ok _ =>
    match s.content with
    | some m => .ok (eval m)
    | none => .error .other

end

/-! ## bivariate `check_fit` -/

/-- `Bivariate.check_fit`: `if not self.theta: raise NotFittedError` (so `None` **and** `0`), then
    `check_theta`. -/
def bivCheckFit {T : Type} (isZero valid : T → Bool) (θ : Option T) : Except Err Unit :=
  match θ with
  | none => .error .notFitted
  | some t => if isZero t then .error .notFitted else if valid t then .ok () else .error .valueError

/-- a bivariate query whose first statement is `self.check_fit()`. -/
def bivQuery {T R : Type} (isZero valid : T → Bool) (eval : T → R) (θ : Option T) : Except Err R :=
  match bivCheckFit isZero valid θ with
  | .error e => .error e
  | .ok _ =>
    match θ with
    | some t => .ok (eval t)
    | none => .error .other

/-! ## `get_instance` and `@store_args` -/

/-- constructor arguments as passed: positional values and keyword bindings. -/
structure Args (Val : Type) where
  pos : List Val
  kw : List (String × Val)
  deriving DecidableEq, Repr

def Args.none {Val : Type} : Args Val := ⟨[], []⟩
def Args.isEmpty {Val : Type} (a : Args Val) : Bool := a.pos.isEmpty && a.kw.isEmpty

/-- bind arguments to the parameter list: positional first, then keywords; `TypeError` for too many
    positionals, an unknown or repeated name, or a missing required parameter. -/
def bindArgs {Val : Type} (params required : List String) (a : Args Val) :
    Except Err (List (String × Val)) :=
  if a.pos.length > params.length then .error .typeError else
  let posB := (params.zip a.pos)
  if a.kw.any (fun b => !params.contains b.1 || posB.any (fun p => p.1 == b.1)) then .error .typeError else
  if !(a.kw.map (·.1)).Nodup then .error .typeError else
  let all := posB ++ a.kw
  if required.any (fun r => !all.any (fun b => b.1 == r)) then .error .typeError else
  .ok all

/-- a Python object of one of the model classes, as far as cloning is concerned. -/
structure Obj (Val St : Type) where
  cls : String
  /-- `__args__/__kwargs__` if the constructor is decorated with `@store_args`
      (a deep copy taken **before** `__init__` ran: a value, not a reference). -/
  stored : Option (Args Val)
  /-- the options `__init__` bound (what the instance is configured with at construction). -/
  bound : List (String × Val)
  fitted : Bool
  /-- everything a fit wrote (parameters, overrides, remembered bounds …). -/
  fitState : Option St
  deriving DecidableEq, Repr

section
variable {Val St : Type}

/-- `cls(*args, **kwargs)`. -/
def construct (ci : ClassInfo) (a : Args Val) : Except Err (Obj Val St) :=
  match bindArgs ci.params ci.required a with
  | .error e => .error e
  | .ok b => .ok ⟨ci.name, if ci.storeArgs then some a else none, b, false, none⟩

/-- the four prototype forms of `get_instance`. -/
inductive Proto (Val St : Type) where
  | name (fqn : String)
  | cls (c : String)
  | inst (o : Obj Val St)

/-- `utils.get_instance(obj, **kwargs)`; `table` resolves a class (by qualified or bare name). -/
def getInstance (table : String → Option ClassInfo) (p : Proto Val St) (kwargs : List (String × Val)) :
    Except Err (Obj Val St) :=
  match p with
  | .name fqn =>
    match table fqn with
    | some ci => construct ci ⟨[], kwargs⟩
    | none => .error .other
  | .cls c =>
    match table c with
    | some ci => construct ci ⟨[], kwargs⟩
    | none => .error .other
  | .inst o =>
    match table o.cls with
    | none => .error .other
    | some ci =>
      if !kwargs.isEmpty then construct ci ⟨[], kwargs⟩          -- the prototype's own options are dropped
      else construct ci (o.stored.getD Args.none)                 -- getattr(obj, '__args__', ()), getattr(obj, '__kwargs__', {})

/-- a fit (or anything else done to the object after construction). -/
def Obj.afterFit (o : Obj Val St) (st : St) : Obj Val St := ⟨o.cls, o.stored, o.bound, true, some st⟩

end

/-- lookup in a generated class list by bare name or by `module.name`. -/
def tableOf (classes : List ClassInfo) (n : String) : Option ClassInfo :=
  classes.find? fun ci => ci.name == n || ci.qualname == n

end CopVerif.Model.Lifecycle
