import CopVerif.Base.Num
/-!
  Hand-written model (K) of the decision logic in `copulas/bivariate/base.py`:
  `check_theta`, `check_fit`.  Tied to the code by the correspondence run of C06/C10
  (`tools/harness/biv.py`, op `checkfit`).
-/
namespace CopVerif
open NumFns
section
variable {α : Type} [LT α] [LE α] [DecidableLT α] [DecidableLE α] [NumFns α]

/-- `check_theta`: `lower <= theta <= upper` and `theta not in invalid_thetas`. -/
def checkTheta (lo hi : Bound α) (invalid : List α) (θ : α) : Bool :=
  (lo.leVal θ && Bound.valLe θ hi) && !(invalid.any fun t => NumFns.beq θ t)

/-- `check_fit`: `if not self.theta: raise NotFittedError`, then `check_theta`. -/
def checkFit (lo hi : Bound α) (invalid : List α) (θ : α) : Except Err Unit :=
  if NumFns.beq θ (ofNat 0) then .error .notFitted
  else if checkTheta lo hi invalid θ then .ok () else .error .valueError

end
end CopVerif
