import CopVerif.Base.Num
/-!
  Hand-written model (K) of the vine *structure* code: `copulas/multivariate/tree.py`
  (`Tree.fit`, `_check_constraint`, `_sort_tau_by_y`, `CenterTree`, `DirectTree`, `RegularTree`,
  `Edge._identify_eds_ing`, `Edge.is_adjacent`, `Edge.sort_edge`, `Edge.get_child_edge`) and
  `copulas/multivariate/vine.py` (`VineCopula.train_vine`).  Property C16.

  Reading guide
  * variables and tree nodes are `Nat`; a Python `set` of ints is a strictly increasing
    `List Nat` (`norm`); an edge is `(L, R | D)` plus the indices of its two parents in the
    previous tree's edge list, in `sort_edge` order.  `Edge.index` is the position in the list.
  * the Kendall-tau matrices are DATA (`Mat α`): the harness sends the matrix each `Tree.fit`
    received.  Pair-copula selection (`select_copula`) does not influence the structure and is not
    modelled here (C17).
  * where the code is deterministic the model is a function (`greedyPath`, `pathKth`, the edges
    produced from a given choice); where it depends on how numpy's unstable `argsort` / CPython's
    `sorted(set, key=…)` break ties, the model takes the choice as an argument and ACCEPTS it iff
    the code could have made it (`orderOk`, `top2Ok`, `primStep…`); the theorems hold for every
    accepted choice sequence.
  * `Fail.diverges` is the `adj_set == ∅` branch of `RegularTree._build_kth_tree`:
    `visited.add(list(unvisited)[0])` re-adds node 0 (it is never removed from `unvisited`), so
    the `while` loop would never end.
  * NaN: `_sort_tau_by_y` maps NaN to `-10` and this is modelled; `np.argmax`'s NaN rule and
    `sorted` with NaN keys are NOT modelled (the matrices are Kendall taus; the harness skips the
    replay of a tree whose snapshot contains NaN in an uninitialised `np.empty` cell).
-/
namespace CopVerif.Model.Vine
open CopVerif

/-! ## finite sets of naturals as strictly increasing lists -/

/-- insert into a strictly increasing list, keeping it strictly increasing. -/
def insertS (a : Nat) : List Nat → List Nat
  | [] => [a]
  | b :: bs => if a < b then a :: b :: bs else if a = b then b :: bs else b :: insertS a bs

/-- `sorted(set(l))` -/
def norm (l : List Nat) : List Nat := l.foldr insertS []

/-- `A & B` (sorted if `A` is) -/
def inter (A B : List Nat) : List Nat := A.filter fun x => B.contains x

/-- `A - B` -/
def sdiff (A B : List Nat) : List Nat := A.filter fun x => !B.contains x

/-- `sorted(A ^ B)` -/
def symDiff (A B : List Nat) : List Nat := norm (sdiff A B ++ sdiff B A)

def nodupB : List Nat → Bool
  | [] => true
  | a :: l => !l.contains a && nodupB l

/-! ## edges, `_identify_eds_ing`, `sort_edge`, `get_child_edge`, `_check_constraint` -/

/-- errors / non-results of the construction. -/
inductive Fail where
  /-- Python raises `ValueError` (`left, right = sorted(A ^ B)` with `|A △ B| ≠ 2`). -/
  | valueError
  /-- Python raises `IndexError`. -/
  | indexError
  /-- the `while` loop of `RegularTree._build_kth_tree` never terminates. -/
  | diverges
  /-- the supplied choice is not one the code could have made. -/
  | rejected (why : String)
  /-- malformed request (shape of the supplied data). -/
  | badInput (why : String)
  deriving DecidableEq, Repr, Inhabited

def Fail.toString : Fail → String
  | .valueError => "ValueError"
  | .indexError => "IndexError"
  | .diverges => "diverges"
  | .rejected w => "rejected:" ++ w
  | .badInput w => "badinput:" ++ w

structure Edge where
  L : Nat
  R : Nat
  /-- conditioning set, strictly increasing -/
  D : List Nat
  /-- indices of `parents[0]`, `parents[1]` in the previous tree's `edges` -/
  parents : Option (Nat × Nat)
  deriving DecidableEq, Repr, Inhabited

abbrev Tree := List Edge

/-- `{e.L, e.R} | e.D` -/
def Edge.vars (e : Edge) : List Nat := norm (e.L :: e.R :: e.D)

/-- first-tree edge `Edge(index, left, right, …)`: `D = set()`, `parents = None`. -/
def mkEdge (l r : Nat) : Edge := { L := l, R := r, D := [], parents := none }

/-- `left, right = sorted([a, b])` -/
def mkSorted (a b : Nat) : Edge := if b < a then mkEdge b a else mkEdge a b

/-- `Edge._identify_eds_ing`: `(left, right, depend_set)`. -/
def identify (p q : Edge) : Except Fail (Nat × Nat × List Nat) :=
  match symDiff p.vars q.vars with
  | [l, r] => .ok (l, r, inter p.vars q.vars)
  | _ => .error .valueError

/-- strict `(L, R)` lexicographic order: the key of `Edge.sort_edge`. -/
def keyLt (p q : Edge) : Bool := p.L < q.L || (p.L == q.L && p.R < q.R)

def getE (t : Tree) (i : Nat) : Except Fail Edge :=
  match t[i]? with
  | some e => .ok e
  | none => .error .indexError

/-- `Edge.sort_edge([edges[i], edges[j]])` as indices (Python's `sorted` is stable). -/
def sortPair (p q : Edge) (i j : Nat) : Nat × Nat := if keyLt q p then (j, i) else (i, j)

/-- `left_parent, right_parent = Edge.sort_edge([edges[i], edges[j]])`;
    `Edge.get_child_edge(index, left_parent, right_parent)` (structure only). -/
def childEdge (prev : Tree) (i j : Nat) : Except Fail Edge := do
  let p ← getE prev i
  let q ← getE prev j
  let (a, b) := sortPair p q i j
  let (pa, pb) := if keyLt q p then (q, p) else (p, q)
  let (l, r, D) ← identify pa pb
  pure { L := l, R := r, D := D, parents := some (a, b) }

/-- `Tree._check_constraint` of a tree with `self.level = level`. -/
def checkConstraint (level : Nat) (e f : Edge) : Bool :=
  (norm ([e.L, e.R, f.L, f.R] ++ e.D ++ f.D)).length == level + 1

/-- `Edge.is_adjacent`: compares ONLY the conditioned variables. -/
def isAdjacent (e f : Edge) : Bool := e.L == f.L || e.L == f.R || e.R == f.L || e.R == f.R

/-- `Tree._get_constraints`: `neighbors` of every edge. -/
def neighbors (t : Tree) : List (List Nat) :=
  t.mapIdx fun k e => (List.range t.length).filter fun i =>
    k != i && isAdjacent e (t.getD i default)

/-! ## tau matrices -/

abbrev Mat (α : Type) := List (List α)

section
variable {α : Type} [LT α] [DecidableLT α] [Neg α] [NumFns α]

def Mat.get (m : Mat α) (i j : Nat) : α := (m.getD i []).getD j (NumFns.ofNat 0)

/-- `m[:, j] = v` -/
def Mat.setCol (m : Mat α) (j : Nat) (v : α) : Mat α := m.map fun row => row.set j v

/-- the marker `-10` -/
def m10 : α := -(NumFns.ofNat 10)

/-- column 2 of `temp` in `_sort_tau_by_y(y)` for row `i`: `abs(tau_y[i])` with `tau_y[y] = nan`
    and NaN mapped to `-10`. -/
def sortKey (diag : Bool) (v : α) : α :=
  if diag then m10 else if NumFns.isNaN (NumFns.abs v) then m10 else NumFns.abs v

/-- column 1 of `temp`. -/
def sortVal (diag : Bool) (v : α) : α := if diag || NumFns.isNaN v then m10 else v

def colKeys (tau : Mat α) (y n : Nat) : List α :=
  (List.range n).map fun i => sortKey (i == y) (tau.get i y)

def colVals (tau : Mat α) (y n : Nat) : List α :=
  (List.range n).map fun i => sortVal (i == y) (tau.get i y)

def keyAt (keys : List α) (i : Nat) : α := keys.getD i (NumFns.ofNat 0)

/-- along `picks` the keys never increase. -/
def nonIncr (keys : List α) : List Nat → Bool
  | a :: b :: rest => !decide (keyAt keys a < keyAt keys b) && nonIncr keys (b :: rest)
  | _ => true

/-- `picks` can be the first `n-1` entries of `temp[:, 2].argsort()[::-1]` for SOME tie-breaking
    of the (unstable) sort: distinct valid indices, keys non-increasing, every index left out has
    a key not above any picked one. -/
def orderOk (n : Nat) (keys : List α) (picks : List Nat) : Bool :=
  picks.length + 1 == n && picks.all (· < n) && nodupB picks && nonIncr keys picks &&
  (List.range n).all fun i =>
    picks.contains i || picks.all fun p => !decide (keyAt keys p < keyAt keys i)

/-- `left_ind, right_ind = tau_sorted[0, 0], tau_sorted[1, 0]`: the two largest keys in order. -/
def top2Ok (n : Nat) (keys : List α) (left right : Nat) : Bool :=
  left < n && right < n && left != right && !decide (keyAt keys left < keyAt keys right) &&
  (List.range n).all fun i =>
    i == left || i == right || !decide (keyAt keys right < keyAt keys i)

/-! ## CenterTree -/

/-- `CenterTree._build_first_tree`: edge `itr` is `Edge(itr, 0, ind, …)`. -/
def starFirst (picks : List Nat) : Tree := picks.map fun ind => mkEdge 0 ind

/-- `CenterTree._build_kth_tree` (`get_anchor()` is constantly 0). -/
def starKth (prev : Tree) (picks : List Nat) : Except Fail Tree :=
  picks.mapM fun r => childEdge prev 0 r

def centerFirst (n : Nat) (tau : Mat α) (picks : List Nat) : Except Fail (Tree × List α) :=
  if orderOk n (colKeys tau 0 n) picks then
    .ok (starFirst picks, picks.map fun ind => tau.get 0 ind)
  else .error (.rejected "center order")

def centerKth (n : Nat) (prev : Tree) (tau : Mat α) (picks : List Nat) :
    Except Fail (Tree × List α) :=
  if orderOk n (colKeys tau 0 n) picks then do
    let t ← starKth prev picks
    pure (t, picks.map fun r => (colVals tau 0 n).getD r (NumFns.ofNat 0))
  else .error (.rejected "center order")

/-! ## DirectTree -/

/-- `np.argmax` of a non-empty row (first maximal index; NaN-free rows). -/
def argmaxFrom : Nat → α → Nat → List α → Nat
  | best, _, _, [] => best
  | best, bv, idx, x :: xs =>
    if bv < x then argmaxFrom idx x (idx + 1) xs else argmaxFrom best bv (idx + 1) xs

def argmax (row : List α) : Nat :=
  match row with
  | [] => 0
  | x :: xs => argmaxFrom 0 x 1 xs

/-- the `for k in range(2, n_nodes - 1)` loop: state `(tau_matrix, T1, tau_T1)`. -/
def greedyLoop : Nat → Mat α → List Nat → List α → List Nat × List α
  | 0, _, T1, tT1 => (T1, tT1)
  | fuel + 1, m, T1, tT1 =>
    let rowL := m.getD (T1.headD 0) []
    let rowR := m.getD (T1.getLastD 0) []
    let left := argmax rowL
    let right := argmax rowR
    let valL := rowL.getD left (NumFns.ofNat 0)
    let valR := rowR.getD right (NumFns.ofNat 0)
    if valR < valL then greedyLoop fuel (m.setCol left m10) (left :: T1) (valL :: tT1)
    else greedyLoop fuel (m.setCol right m10) (T1 ++ [right]) (tT1 ++ [valR])

/-- `DirectTree._build_first_tree` up to the edge loop: the node sequence `T1` and `tau_T1`,
    given the first two rows of `tau_sorted`. -/
def greedyPath (n : Nat) (tau : Mat α) (left right : Nat) : List Nat × List α :=
  let vals := colVals tau 0 n
  let m := ((tau.setCol left m10).setCol 0 m10).setCol right m10
  greedyLoop (n - 3) m [left, 0, right]
    [vals.getD left (NumFns.ofNat 0), vals.getD right (NumFns.ofNat 0)]

/-- edges `sorted([T1[k], T1[k+1]])` along a node sequence. -/
def pathEdges : List Nat → Tree
  | a :: b :: rest => mkSorted a b :: pathEdges (b :: rest)
  | _ => []

def directFirst (n : Nat) (tau : Mat α) (left right : Nat) : Except Fail (Tree × List α) :=
  if top2Ok n (colKeys tau 0 n) left right then
    let (T1, tT1) := greedyPath n tau left right
    .ok ((pathEdges T1).take (n - 1), tT1.take (n - 1))
  else .error (.rejected "direct top-2")

/-- `DirectTree._build_kth_tree`: edge `k` joins `edges[k]` and `edges[k+1]`. -/
def pathKth (n : Nat) (prev : Tree) : Except Fail Tree :=
  (List.range (n - 1)).mapM fun k => childEdge prev k (k + 1)

def directKth (n : Nat) (prev : Tree) (tau : Mat α) : Except Fail (Tree × List α) := do
  let t ← pathKth n prev
  pure (t, (List.range (n - 1)).map fun k => tau.get k (k + 1))

/-! ## RegularTree -/

/-- `adj_set` of `_build_first_tree` for the current `X = vis`. -/
def candsFirst (n : Nat) (vis : List Nat) : List (Nat × Nat) :=
  vis.flatMap fun x => (List.range n).filterMap fun k =>
    if !vis.contains k && k != x then some (x, k) else none

/-- `adj_set` of `_build_kth_tree`. -/
def candsKth (level n : Nat) (prev : Tree) (vis : List Nat) : List (Nat × Nat) :=
  vis.flatMap fun x => (List.range n).filterMap fun k =>
    if !vis.contains k && k != x &&
        checkConstraint level (prev.getD x default) (prev.getD k default) then some (x, k)
    else none

/-- `neg_tau[e[0]][e[1]]` -/
def primKey (tau : Mat α) (q : Nat × Nat) : α := -(NumFns.abs (tau.get q.1 q.2))

/-- `q` can be `sorted(adj_set, key=…)[0]`: no candidate has a strictly smaller key. -/
def stepMinOk (tau : Mat α) (cands : List (Nat × Nat)) (q : Nat × Nat) : Bool :=
  cands.all fun c => !decide (primKey tau c < primKey tau q)

/-- one accepted step of Prim's loop in the first tree. -/
def primStepOk (n : Nat) (tau : Mat α) (vis : List Nat) (q : Nat × Nat) : Bool :=
  (candsFirst n vis).contains q && stepMinOk tau (candsFirst n vis) q

/-- one accepted step of the loop in the k-th tree. -/
def primStepKthOk (level n : Nat) (prev : Tree) (tau : Mat α) (vis : List Nat) (q : Nat × Nat) :
    Bool :=
  (candsKth level n prev vis).contains q && stepMinOk tau (candsKth level n prev vis) q

/-- `RegularTree._build_first_tree` following the supplied choices. -/
def primFirstGo (n : Nat) (tau : Mat α) : List Nat → List (Nat × Nat) → Except Fail (Tree × List α)
  | vis, [] => if vis.length == n then .ok ([], []) else .error (.rejected "too few steps")
  | vis, q :: qs =>
    if vis.length == n then .error (.rejected "too many steps")
    else if (candsFirst n vis).isEmpty then .error .indexError
    else if !primStepOk n tau vis q then .error (.rejected "prim step")
    else do
      let (es, ts) ← primFirstGo n tau (vis ++ [q.2]) qs
      pure (mkSorted q.1 q.2 :: es, tau.get q.1 q.2 :: ts)

def primFirst (n : Nat) (tau : Mat α) (choices : List (Nat × Nat)) : Except Fail (Tree × List α) :=
  primFirstGo n tau [0] choices

/-- `RegularTree._build_kth_tree` following the supplied choices. -/
def primKthGo (level n : Nat) (prev : Tree) (tau : Mat α) :
    List Nat → List (Nat × Nat) → Except Fail (Tree × List α)
  | vis, [] => if vis.length == n then .ok ([], []) else
      if (candsKth level n prev vis).isEmpty then .error .diverges
      else .error (.rejected "too few steps")
  | vis, q :: qs =>
    if vis.length == n then .error (.rejected "too many steps")
    else if (candsKth level n prev vis).isEmpty then .error .diverges
    else if !primStepKthOk level n prev tau vis q then .error (.rejected "prim step")
    else do
      let e ← childEdge prev q.1 q.2
      let (es, ts) ← primKthGo level n prev tau (vis ++ [q.2]) qs
      pure (e :: es, tau.get q.1 q.2 :: ts)

def primKth (level n : Nat) (prev : Tree) (tau : Mat α) (choices : List (Nat × Nat)) :
    Except Fail (Tree × List α) :=
  primKthGo level n prev tau [0] choices

/-! ## `Tree.fit` and `VineCopula.train_vine` -/

inductive VType where
  | center | direct | regular
  deriving DecidableEq, Repr, Inhabited

/-- what one `Tree.fit` call received (`tau`) and the tie-breaking it made (`picks`):
    center — the first `n-1` entries of the sort order; direct, first tree — `[left_ind,
    right_ind]`; direct, k-th tree — nothing; regular — the chosen pairs `(x, k)` flattened. -/
structure Choice (α : Type) where
  tau : Mat α
  picks : List Nat

def unflatten : List Nat → List (Nat × Nat)
  | a :: b :: rest => (a, b) :: unflatten rest
  | _ => []

/-- `Tree.fit(0, n, tau, u_matrix)` → `_build_first_tree`: edges and their `.tau`. -/
def buildFirst (vt : VType) (n : Nat) (c : Choice α) : Except Fail (Tree × List α) :=
  match vt with
  | .center => centerFirst n c.tau c.picks
  | .direct =>
    match c.picks with
    | [l, r] => directFirst n c.tau l r
    | _ => .error (.badInput "direct first tree needs [left, right]")
  | .regular => primFirst n c.tau (unflatten c.picks)

/-- `Tree.fit(k, n, tau, previous)` with `level = k + 1 ≥ 2` → `_build_kth_tree`. -/
def buildKth (vt : VType) (level n : Nat) (prev : Tree) (c : Choice α) :
    Except Fail (Tree × List α) :=
  match vt with
  | .center => centerKth n prev c.tau c.picks
  | .direct => directKth n prev c.tau
  | .regular => primKth level n prev c.tau (unflatten c.picks)

/-- the `for k in range(1, min(n_var - 1, truncated))` loop; `fuel` = iterations left. -/
def trainRest (vt : VType) (d : Nat) : Nat → Nat → Tree → List (Choice α) →
    Except Fail (List (Tree × List α))
  | 0, _, _, _ => .ok []
  | fuel + 1, k, prev, cs =>
    match cs with
    | [] => .error (.badInput "missing tree data")
    | c :: cs => do
      let r ← buildKth vt (k + 1) (d - k) prev c
      let rest ← trainRest vt d fuel (k + 1) r.1 cs
      pure (r :: rest)

/-- `VineCopula.train_vine` on `d = n_var` columns with `truncated = t`. -/
def trainVine (vt : VType) (d t : Nat) (cs : List (Choice α)) :
    Except Fail (List (Tree × List α)) :=
  match cs with
  | [] => .error (.badInput "missing tree data")
  | c :: cs => do
    let r ← buildFirst vt d c
    let rest ← trainRest vt d (min (d - 1) t - 1) 1 r.1 cs
    pure (r :: rest)

end

/-! ## the C16 structure, as a decidable checker over an extracted vine -/

/-- the two end points of edge `e` as a graph edge of its tree: variables in the first tree,
    indices of the parents afterwards. -/
def Edge.ends (first : Bool) (e : Edge) : Nat × Nat :=
  if first then (e.L, e.R) else e.parents.getD (0, 0)

/-- the edge list, IN ITS ORDER, grows a tree from the visited set: every edge joins a visited
    node to a new node `< n`. -/
def growsFrom (n : Nat) : List Nat → List (Nat × Nat) → Bool
  | _, [] => true
  | vis, (a, b) :: rest =>
    (vis.contains a && !vis.contains b && b < n && growsFrom n (b :: vis) rest) ||
    (vis.contains b && !vis.contains a && a < n && growsFrom n (a :: vis) rest)

/-- spanning tree on the nodes `0 … n-1`, witnessed by a growth order (the construction order). -/
def isSpanningTree (n : Nat) (pairs : List (Nat × Nat)) : Bool :=
  pairs.length + 1 == n &&
  match pairs with
  | [] => true
  | (a, b) :: _ => (a < n && growsFrom n [a] pairs) || (b < n && growsFrom n [b] pairs)

/-- two edges of a tree share a node. -/
def shareNode (first : Bool) (p q : Edge) : Bool :=
  let (a, b) := p.ends first
  let (c, e) := q.ends first
  a == c || a == e || b == c || b == e

/-- edge of the first tree: two distinct variables `< d`, nothing conditioned. -/
def firstEdgeOk (d : Nat) (e : Edge) : Bool :=
  e.parents == none && e.D == [] && e.L < e.R && e.R < d

/-- edge of tree `k ≥ 1` (0-based; `prev` is tree `k-1`): parents are two distinct edges of
    `prev` sharing a node (proximity); conditioned pair = symmetric difference, conditioning set =
    intersection of the parents' variable sets, of size `k`. -/
def kthEdgeOk (k : Nat) (prev : Tree) (e : Edge) : Bool :=
  match e.parents with
  | none => false
  | some (i, j) =>
    i < prev.length && j < prev.length && i != j &&
    shareNode (k == 1) (prev.getD i default) (prev.getD j default) &&
    e.L < e.R &&
    symDiff (prev.getD i default).vars (prev.getD j default).vars == [e.L, e.R] &&
    e.D == inter (prev.getD i default).vars (prev.getD j default).vars &&
    e.D.length == k

def treeOk (d k : Nat) (prev : Option Tree) (t : Tree) : Bool :=
  match prev with
  | none => t.all (firstEdgeOk d) && isSpanningTree d (t.map (Edge.ends true))
  | some p => t.all (kthEdgeOk k p) && isSpanningTree (d - k) (t.map (Edge.ends false))

def treesOk (d : Nat) : Nat → Option Tree → List Tree → Bool
  | _, _, [] => true
  | k, prev, t :: ts => treeOk d k prev t && treesOk d (k + 1) (some t) ts

/-- conditioned pairs of all edges of all trees. -/
def condPairs (trees : List Tree) : List (Nat × Nat) :=
  trees.flatMap fun t => t.map fun e => (e.L, e.R)

def pairsOnceB : List (Nat × Nat) → Bool
  | [] => true
  | p :: ps => !ps.contains p && pairsOnceB ps

/-- the structural part of C16 for a fitted vine on `d` columns with truncation `t`. -/
def isRegularVine (d t : Nat) (trees : List Tree) : Bool :=
  2 ≤ d && trees.length == max 1 (min (d - 1) t) && treesOk d 0 none trees &&
  pairsOnceB (condPairs trees)

/-- a star: some node is an end of every edge. -/
def isStar (pairs : List (Nat × Nat)) : Bool :=
  match pairs with
  | [] => true
  | (a, b) :: _ => pairs.all (fun p => p.1 == a || p.2 == a) || pairs.all (fun p => p.1 == b || p.2 == b)

/-- `pairs`, in order, walk along the node sequence `v :: …` without revisiting a node. -/
def walksFrom : Nat → List Nat → List (Nat × Nat) → Bool
  | _, _, [] => true
  | v, seen, (a, b) :: rest =>
    (a == v && !seen.contains b && walksFrom b (b :: seen) rest) ||
    (b == v && !seen.contains a && walksFrom a (a :: seen) rest)

/-- a path: the edges in order are consecutive edges of a simple path. -/
def isPath (pairs : List (Nat × Nat)) : Bool :=
  match pairs with
  | [] => true
  | (a, b) :: _ => a != b && (walksFrom a [a] pairs || walksFrom b [b] pairs)

def treePairs (trees : List Tree) : List (List (Nat × Nat)) :=
  trees.mapIdx fun k t => t.map (Edge.ends (k == 0))

/-- the type clause: a star (center) / a path (direct) in every tree. -/
def typeOk (vt : VType) (trees : List Tree) : Bool :=
  match vt with
  | .center => (treePairs trees).all isStar
  | .direct => (treePairs trees).all isPath
  | .regular => true

end CopVerif.Model.Vine
