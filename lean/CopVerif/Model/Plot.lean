import CopVerif.Base.Num
/-!
  Hand-written model (K) of the 2-D / 3-D figure builders of `copulas/visualization.py`
  (`scatter_2d`, `compare_2d`, `scatter_3d`, `compare_3d` and the two `_generate_scatter_*_plot`
  helpers): **label, concat, split by label**.

  A frame is a list of column names and a list of rows (lists of cells of an arbitrary type `α`;
  the driver uses opaque tokens, so no number ever crosses as decimal text).  `plotly.express`
  is an external symbol: `px.scatter(data, x=, y=, color='Data')` is modelled as "one trace per
  label in order of first appearance, holding the `(x, y)` cells of the rows with that label, in
  row order; a column name that is not a column of the frame is a `ValueError`" — this reading is
  validated against `Figure.data` on every run.

  Quirks of the code that are modelled as found: `if columns:` (an empty list means "default");
  the default is `data.columns` *after* the label column was added, so a default plot needs a frame
  with exactly 2 (resp. 3) columns; the arity test counts the label column.
  Precondition (generator of the harness): no input column is called `Data`, and requested column
  names are column names of both frames or of neither.
-/
namespace CopVerif.Model.Plot
open CopVerif

inductive Label where
  | real | synthetic
  deriving DecidableEq, Repr, Inhabited

def Label.toString : Label → String
  | .real => "Real"
  | .synthetic => "Synthetic"

structure Frame (α : Type) where
  cols : List String
  rows : List (List α)

/-- position of a column name (first occurrence) -/
def colIndex (cols : List String) (c : String) : Option Nat :=
  match cols with
  | [] => none
  | d :: ds => if d = c then some 0 else (colIndex ds c).map (· + 1)

section
variable {α : Type} [Inhabited α]

def cell (r : List α) (i : Nat) : α := r.getD i default

/-- `data['Data'] = <label>` on a copy: every row gets the label -/
def labelled (f : Frame α) (l : Label) : List (List α × Label) :=
  f.rows.map fun r => (r, l)

/-- a trace exists only for a label that has points -/
def traceOf {β : Type} (l : Label) (xs : List β) : List (Label × List β) :=
  if xs.isEmpty then [] else [(l, xs)]

/-- the points carrying label `l`, in row order -/
def pick {β : Type} (pts : List (β × Label)) (l : Label) : List β :=
  (pts.filter fun p => p.2 = l).map (·.1)

/-- `px.scatter(..., color='Data')`: one trace per label, in order of first appearance -/
def splitByLabel {β : Type} (pts : List (β × Label)) : List (Label × List β) :=
  match pts with
  | [] => []
  | p :: _ =>
    if p.2 = .real then traceOf .real (pick pts .real) ++ traceOf .synthetic (pick pts .synthetic)
    else traceOf .synthetic (pick pts .synthetic) ++ traceOf .real (pick pts .real)

/-- the column list used by `_generate_scatter_*_plot` (label column included) -/
def plotColumns (frameCols : List String) (columns : Option (List String)) : List String :=
  match columns with
  | some (c :: cs) => (c :: cs) ++ ["Data"]
  | _ => frameCols ++ ["Data"]

/-- `_generate_scatter_2d_plot` on the labelled rows of a frame with columns `frameCols` -/
def generate2d (frameCols : List String) (rows : List (List α × Label)) (columns : Option (List String)) :
    Except Err (List (Label × List (α × α))) :=
  match plotColumns frameCols columns with
  | [a, b, _] =>
    match colIndex frameCols a, colIndex frameCols b with
    | some i, some j => .ok (splitByLabel (rows.map fun r => ((cell r.1 i, cell r.1 j), r.2)))
    | _, _ => .error .valueError
  | _ => .error .valueError

def generate3d (frameCols : List String) (rows : List (List α × Label)) (columns : Option (List String)) :
    Except Err (List (Label × List (α × α × α))) :=
  match plotColumns frameCols columns with
  | [a, b, c, _] =>
    match colIndex frameCols a, colIndex frameCols b, colIndex frameCols c with
    | some i, some j, some k => .ok (splitByLabel (rows.map fun r => ((cell r.1 i, cell r.1 j, cell r.1 k), r.2)))
    | _, _, _ => .error .valueError
  | _ => .error .valueError

/-- The default title is built BEFORE the arity test and indexes `columns[0] … columns[dim-1]`: a
    non-empty request with fewer than `dim` names and no explicit title dies with an `IndexError`
    (canonical kind `other`), as found.  (With `columns` empty/None the frame's own columns are
    indexed instead; the harness only builds frames with at least two columns, for which that is safe.) -/
def titleStep (dim : Nat) (columns : Option (List String)) (titled : Bool) : Except Err Unit :=
  match columns with
  | some (c :: cs) => if !titled && (c :: cs).length < dim then .error .other else .ok ()
  | _ => .ok ()

def scatter2d (data : Frame α) (columns : Option (List String)) (titled : Bool := false) :=
  (titleStep 2 columns titled).bind fun _ => generate2d data.cols (labelled data .real) columns

def scatter3d (data : Frame α) (columns : Option (List String)) (titled : Bool := false) :=
  (titleStep 3 columns titled).bind fun _ => generate3d data.cols (labelled data .real) columns

/-- `pd.concat([real, synth], axis=0, ignore_index=True)` of two frames with the same columns -/
def compare2d (real synth : Frame α) (columns : Option (List String)) (titled : Bool := false) :=
  (titleStep 2 columns titled).bind fun _ =>
    generate2d real.cols (labelled real .real ++ labelled synth .synthetic) columns

def compare3d (real synth : Frame α) (columns : Option (List String)) (titled : Bool := false) :=
  (titleStep 3 columns titled).bind fun _ =>
    generate3d real.cols (labelled real .real ++ labelled synth .synthetic) columns

/-- the points of the trace(s) carrying label `l` -/
def pointsOf {β : Type} (ts : List (Label × List β)) (l : Label) : List β :=
  (ts.filter fun t => t.1 = l).flatMap (·.2)

end
end CopVerif.Model.Plot
