import CopVerif.Base.Num
/-!
# Model of marginal model choice (property C05)

Hand-written, Mathlib-free, executable model (K) of

* `copulas/univariate/selection.py: select_univariate` — the loop `best_ks = inf; for model in
  candidates: try: … ks = kstest(…) ; if ks < best_ks: … except Exception: pass` (`selectLoop`,
  `selectWith`, `selectUnivariate`), its refinement acceptor (`isMinimiser`, `accepts`) and
  `Univariate.fit` (`univariateFit`, with `get_instance(None)` failing as the error branch);
* `copulas/univariate/base.py: Univariate._select_candidates` — the recursion over
  `__subclasses__()` (`selectCandidatesTree`), its flat reading over the class table in traversal
  order (`traverse`, `selectCandidates`), and `Univariate.__init__`'s
  `candidates or self._select_candidates(…)` (`initCandidates`);
* `copulas/multivariate/gaussian.py: _get_distribution_for_column / _fit_column /
  _fit_with_fallback_distribution / _fit_columns` (`getDistributionForColumn`, `fitColumn`,
  `fitColumns`).

The comparison operator, the start value of `best_ks`, the class table and
`DEFAULT_DISTRIBUTION` are *data generated from the Python source* (`CopVerif.Gen.Select`), so
these functions take them as parameters.

External symbols (`get_instance`, `fit`, `kstest`) are parameters: a candidate's outcome on the
data is `none` (fit / kstest raised — the `except Exception: pass` branch) or `some ks` where
`ks : KS ρ` is the statistic as the code sees it, `KS.nan` or a value of an ordered type `ρ`
(`Float` in the driver, any linear order with top and bottom in the theorems; the order is
passed as an explicit dictionary `KSOrd ρ`).
-/
namespace CopVerif.Model

/-! ## 1. KS statistics and the comparison the code performs -/

/-- A KS statistic as `select_univariate` sees it: NaN, or a number (which may be `±inf`). -/
inductive KS (ρ : Type) where
  | nan : KS ρ
  | val (x : ρ) : KS ρ
  deriving DecidableEq, Repr

/-- The order the model is run with, as an explicit dictionary (so that the very same term runs
    at `Float` and is reasoned about over a Mathlib `LinearOrder`). -/
structure KSOrd (ρ : Type) where
  lt : ρ → ρ → Bool
  le : ρ → ρ → Bool
  posInf : ρ
  negInf : ρ

/-- binary64 order on non-NaN values. -/
def floatOrd : KSOrd Float where
  lt a b := decide (a < b)
  le a b := decide (a ≤ b)
  posInf := Float.inf
  negInf := -Float.inf

def KS.ofFloat (x : Float) : KS Float := if x.isNaN then .nan else .val x

/-- comparison operator found in `if ks <op> best_ks` (generated). -/
inductive Cmp where
  | lt | le | gt | ge
  deriving DecidableEq, Repr

/-- start value of `best_ks` (generated). -/
inductive Init where
  | posInf | negInf
  deriving DecidableEq, Repr

/-- `a <op> b` on Python floats: every comparison with NaN is `False`. -/
def Cmp.test (o : KSOrd ρ) : Cmp → KS ρ → KS ρ → Bool
  | .lt, .val x, .val y => o.lt x y
  | .le, .val x, .val y => o.le x y
  | .gt, .val x, .val y => o.lt y x
  | .ge, .val x, .val y => o.le y x
  | _, _, _ => false

def Init.toKS (o : KSOrd ρ) : Init → KS ρ
  | .posInf => .val o.posInf
  | .negInf => .val o.negInf

/-! ## 2. `select_univariate` -/

/-- The loop of `select_univariate` from candidate index `i` on, in state
    `(best_ks, best_model) = (bk, bm)`; returns the final state.  A candidate whose
    `get_instance / fit / kstest` raised is `none` and leaves the state unchanged. -/
def selectLoop (o : KSOrd ρ) (c : Cmp) : List (Option (KS ρ)) → Nat → KS ρ → Option Nat → KS ρ × Option Nat
  | [], _, bk, bm => (bk, bm)
  | none :: rest, i, bk, bm => selectLoop o c rest (i + 1) bk bm
  | some ks :: rest, i, bk, bm =>
    if c.test o ks bk then selectLoop o c rest (i + 1) ks (some i)
    else selectLoop o c rest (i + 1) bk bm

/-- `best_model` (as an index into `candidates`) after the loop, for a given comparison and start
    value. -/
def selectWith (o : KSOrd ρ) (c : Cmp) (init : Init) (ks : List (Option (KS ρ))) : Option Nat :=
  (selectLoop o c ks 0 (init.toKS o) none).2

/-- The selection as the code runs it today: start at `+inf`, strict `<`. -/
def selectUnivariate (o : KSOrd ρ) (ks : List (Option (KS ρ))) : Option Nat :=
  selectWith o .lt .posInf ks

/-- Acceptor used by the tie: candidate `i` was fitted, its statistic is a number, and no
    candidate's statistic is strictly smaller (NaN is never smaller).  Deliberately silent about
    which of several minimisers is chosen. -/
def isMinimiser (o : KSOrd ρ) (ks : List (Option (KS ρ))) (i : Nat) : Bool :=
  match ks[i]? with
  | some (some (.val x)) =>
    ks.all fun e => match e with
      | some y => !(Cmp.test o .lt y (.val x))
      | none => true
  | _ => false

/-- "No candidate could be selected" is acceptable iff no candidate has a statistic strictly
    below `+inf`. -/
def noneAcceptable (o : KSOrd ρ) (ks : List (Option (KS ρ))) : Bool :=
  ks.all fun e => match e with
    | some y => !(Cmp.test o .lt y (.val o.posInf))
    | none => true

def accepts (o : KSOrd ρ) (ks : List (Option (KS ρ))) : Option Nat → Bool
  | some i => isMinimiser o ks i
  | none => noneAcceptable o ks

/-- `Univariate.fit`: `self._instance = select_univariate(X, candidates)`; when no candidate was
    selected `get_instance(None)` raises (`AttributeError`) — the error branch. -/
def univariateFit (o : KSOrd ρ) (c : Cmp) (init : Init) (ks : List (Option (KS ρ))) : Except Err Nat :=
  match selectWith o c init ks with
  | some i => .ok i
  | none => .error .other

/-! ## 3. Candidate enumeration -/

inductive ParametricType where
  | nonParametric | parametric
  deriving DecidableEq, Repr

inductive BoundedType where
  | unbounded | semiBounded | bounded
  deriving DecidableEq, Repr

/-- One class of the `Univariate` hierarchy with its *resolved* (inherited) tags. -/
structure ClassRow where
  name : String
  bases : List String
  /-- `ABC in cls.__bases__` -/
  isABC : Bool
  parametric : ParametricType
  bounded : BoundedType
  deriving DecidableEq, Repr

/-- A class together with `cls.__subclasses__()` (in creation order), recursively. -/
inductive ClassTree where
  | node (row : ClassRow) (subs : List ClassTree)

def ClassTree.row : ClassTree → ClassRow
  | .node r _ => r

/-- the three `continue` tests of `_select_candidates`, in the code's order. -/
def passes (p : Option ParametricType) (b : Option BoundedType) (r : ClassRow) : Bool :=
  if r.isABC then false
  else if (match p with | some p => r.parametric != p | none => false) then false
  else if (match b with | some b => r.bounded != b | none => false) then false
  else true

mutual
/-- `cls._select_candidates(parametric, bounded)` for the class at the root of the tree. -/
def selectCandidatesTree (p : Option ParametricType) (b : Option BoundedType) : ClassTree → List ClassRow
  | .node _ subs => selectCandidatesSubs p b subs
/-- the body of the `for subclass in cls.__subclasses__()` loop. -/
def selectCandidatesSubs (p : Option ParametricType) (b : Option BoundedType) : List ClassTree → List ClassRow
  | [] => []
  | t :: ts =>
    (selectCandidatesTree p b t ++ (if passes p b t.row then [t.row] else []))
      ++ selectCandidatesSubs p b ts
end

mutual
/-- The classes below the root in the order `_select_candidates` reaches its tests for them
    (all descendants of a subclass, then the subclass itself). -/
def traverse : ClassTree → List ClassRow
  | .node _ subs => traverseSubs subs
def traverseSubs : List ClassTree → List ClassRow
  | [] => []
  | t :: ts => (traverse t ++ [t.row]) ++ traverseSubs ts
end

/-- `_select_candidates` read over the flat class table. -/
def selectCandidates (table : List ClassRow) (p : Option ParametricType) (b : Option BoundedType) :
    List ClassRow :=
  table.filter (passes p b)

/-- `self.candidates = candidates or self._select_candidates(parametric, bounded)`:
    an explicit list wins; `None` **and the empty list** (falsy) fall back to the filters. -/
def initCandidates (explicit : Option (List γ)) (filtered : List γ) : List γ :=
  match explicit with
  | some (c :: cs) => c :: cs
  | _ => filtered

/-! ## 4. `GaussianMultivariate`: per-column distribution and Gaussian fallback -/

/-- `GaussianMultivariate.distribution`: one distribution reference (class, fully qualified name
    or instance prototype — all opaque values of type `δ`) or a dict from column names. -/
inductive DistConfig (χ δ : Type) where
  | single (d : δ)
  | perColumn (m : List (χ × δ))

/-- `_get_distribution_for_column`; `dflt` is `DEFAULT_DISTRIBUTION`. -/
def getDistributionForColumn [BEq χ] (dflt : δ) (cfg : DistConfig χ δ) (col : χ) : δ :=
  match cfg with
  | .single d => d
  | .perColumn m => (m.lookup col).getD dflt

/-- `_fit_column`: `get_instance(distribution)` is outside the `try` (its failure propagates);
    a failing `fit` is replaced by `GaussianUnivariate().fit(column)` (whose own failure would
    propagate).  `μ` is whatever is observed of a fitted model. -/
def fitColumn (getInstance : δ → Except Err ι) (fit : ι → Except Err μ) (fitGaussian : Except Err μ)
    (d : δ) : Except Err μ :=
  match getInstance d with
  | .error e => .error e
  | .ok u =>
    match fit u with
    | .ok m => .ok m
    | .error _ => fitGaussian

/-- `_fit_columns`: every column in order, each with its own oracles (they depend on the data). -/
def fitColumns [BEq χ] (dflt : δ) (cfg : DistConfig χ δ)
    (cols : List (χ × (δ → Except Err ι) × (ι → Except Err μ) × Except Err μ)) :
    Except Err (List (χ × μ)) :=
  cols.mapM fun (col, getInstance, fit, fitGaussian) =>
    (fitColumn getInstance fit fitGaussian (getDistributionForColumn dflt cfg col)).map fun m => (col, m)

/-! ## 5. Fit histories: the configuration is not part of what `fit` changes -/

/-- The part of a `GaussianMultivariate` object that `fit` reads and writes: `fit` reads
    `distribution` and overwrites `columns` / `univariates`; it never assigns `distribution`
    (nor writes into the dict it holds). -/
structure GMState (χ δ μ : Type) where
  distribution : DistConfig χ δ
  fitted : Option (List (χ × μ))

/-- one data frame as the model sees it: its columns, each with the oracles for that data. -/
abbrev Frame (χ δ ι μ : Type) := List (χ × (δ → Except Err ι) × (ι → Except Err μ) × Except Err μ)

/-- `GaussianMultivariate.fit` on a frame (the `_fit_columns` part): a failing fit raises and
    leaves the object as it was. -/
def gmFit [BEq χ] (dflt : δ) (s : GMState χ δ μ) (frame : Frame χ δ ι μ) : Except Err (GMState χ δ μ) :=
  match fitColumns dflt s.distribution frame with
  | .ok ms => .ok { s with fitted := some ms }
  | .error e => .error e

/-- a history of fits of the same object, each on its own frame; per fit the outcome, and the
    final state (a failed fit does not stop the history: the caller may catch and re-fit). -/
def gmFitHistory [BEq χ] (dflt : δ) :
    GMState χ δ μ → List (Frame χ δ ι μ) → List (Except Err (List (χ × μ))) × GMState χ δ μ
  | s, [] => ([], s)
  | s, f :: fs =>
    match gmFit dflt s f with
    | .ok s' =>
      let (rs, sFinal) := gmFitHistory dflt s' fs
      ((match s'.fitted with | some ms => .ok ms | none => .ok []) :: rs, sFinal)
    | .error e =>
      let (rs, sFinal) := gmFitHistory dflt s fs
      (.error e :: rs, sFinal)

end CopVerif.Model
