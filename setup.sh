#!/bin/bash
# setup_cmd: regenerate Gen/ from /repo and build all Lean modules once (offline).
set -e
cd "$(dirname "$0")"
exec /venv/bin/python tools/check.py --setup
