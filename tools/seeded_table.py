"""Write seeded/README.md: one row per stored seeded change (what it is, what it needs, which check catches it)."""
import glob
import json
import os

V = os.path.dirname(os.path.dirname(os.path.abspath(__file__)))
rows = []
harmless = []
for d in sorted(glob.glob(os.path.join(V, 'seeded', '*'))):
    mp = os.path.join(d, 'meta.json')
    if not os.path.exists(mp):
        continue
    m = json.load(open(mp))
    ch = m.get('our_checks') or {}
    if m.get('harmless'):
        res = []
        for p, c in ch.items():
            res.append(f"{p}: " + ('silent' if c['exit'] == 0 else ('FALSE ALARM (failing input reported): ' + ', '.join(map(str, c['classes'][:3])) if c['with_failing_input'] else 'proof obligation / correspondence broken, reported with no-failing-input-found')))
        harmless.append((os.path.basename(d), m.get('breaks_property'), (m.get('summary') or '').replace('\n', ' ')[:260], ' / '.join(res)))
        continue
    det = []
    for p, c in ch.items():
        if c['exit'] == 1:
            kind = 'failing input' if c['with_failing_input'] else 'broken obligation only (no-failing-input-found)'
            det.append(f"{p}: {kind}; " + ', '.join(str(x) for x in c['classes'][:3]))
        else:
            det.append(f'{p}: NOT detected')
    rows.append((os.path.basename(d), m.get('breaks_property'), (m.get('summary') or '').replace('\n', ' ')[:230],
                 (m.get('needs_to_manifest') or '').replace('\n', ' ')[:200], ' / '.join(det)))
with open(os.path.join(V, 'seeded', 'README.md'), 'w') as f:
    f.write('# Seeded changes (written by independent sub-agents from the property text only; confirmed by us)\n\n')
    f.write('Each directory holds `patch.diff` (apply with `git -C /repo apply`), `demo.py` (exits 0 on the unchanged tree, 1 with '
            'the patch) and `meta.json` (what it breaks, what it needs to manifest, what we ran, what our checks reported). '
            'Re-run one with `tools/seedtest.py <Cxx> seeded/<id>/patch.diff seeded/<id>/demo.py` (isolated copies of /repo and /verif).\n\n')
    f.write('| id | property | change | needs | our check |\n|---|---|---|---|---|\n')
    for r in rows:
        f.write('| ' + ' | '.join(str(x).replace('|', '\\|') for x in r) + ' |\n')
    n = len(rows)
    hit = sum(1 for r in rows if 'NOT detected' not in r[4])
    fi = sum(1 for r in rows if 'failing input;' in r[4])
    f.write(f'\n{n} changes stored; {hit} detected by the property\'s own check, {fi} of them with a concrete failing input.\n')
    if harmless:
        f.write('\n## Behaviour-preserving rewrites (the property still holds; the demo passes on both trees)\n\n'
                'Expected: the check stays silent, or a proof obligation / correspondence breaks and, no failing input '
                'existing, the VIOLATION line ends with `no-failing-input-found`.  A reported failing input would be a false alarm.\n\n')
        f.write('| id | property | rewrite | our check |\n|---|---|---|---|\n')
        for r in harmless:
            f.write('| ' + ' | '.join(str(x).replace('|', '\\|') for x in r) + ' |\n')
        sil = sum(1 for r in harmless if r[3].endswith('silent') and 'FALSE' not in r[3] and 'broken' not in r[3])
        fa = sum(1 for r in harmless if 'FALSE ALARM' in r[3])
        f.write(f'\n{len(harmless)} rewrites stored; {sil} silent, {len(harmless) - sil - fa} broken-obligation only, {fa} false alarms.\n')
print(len(rows), 'rows', len(harmless), 'harmless')
