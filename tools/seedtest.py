#!/venv/bin/python
"""Confirm a seeded change and run our checks against it.

usage: tools/seedtest.py <PID> <patch.diff> <demo.py> [--tier quick|thorough] [--props C06,C07]
 1. demo on the unchanged /repo must exit 0
 2. git -C /repo apply patch; demo must exit != 0
 3. run ./check for the property (and any extra props) -> record VIOLATION lines
 4. git -C /repo checkout -- .   (always)
Prints a JSON summary."""
import json
import os
import subprocess
import sys

V = os.path.dirname(os.path.dirname(os.path.abspath(__file__)))


def sh(cmd, **k):
    return subprocess.run(cmd, shell=True, capture_output=True, text=True, **k)


def main():
    pid, patch, demo = sys.argv[1:4]
    tier = 'quick'
    props = [pid]
    for i, a in enumerate(sys.argv):
        if a == '--tier':
            tier = sys.argv[i + 1]
        if a == '--props':
            props = sys.argv[i + 1].split(',')
    out = {'property': pid, 'patch': patch}
    assert sh('git -C /repo status --short').stdout.strip() == '', '/repo not clean'
    env = dict(os.environ, PYTHONPATH='/repo')
    r0 = sh(f'cd /repo && /venv/bin/python {demo}', env=env, timeout=600)
    out['demo_unchanged_exit'] = r0.returncode
    ap = sh(f'git -C /repo apply {patch}')
    if ap.returncode != 0:
        out['apply_error'] = ap.stderr[-300:]
        print(json.dumps(out, indent=1))
        return
    try:
        r1 = sh(f'cd /repo && /venv/bin/python {demo}', env=env, timeout=600)
        out['demo_changed_exit'] = r1.returncode
        out['demo_changed_tail'] = (r1.stdout + r1.stderr)[-300:]
        out['checks'] = {}
        for p in props:
            c = sh(f'cd {V} && ./check {p} --tier {tier}', timeout=3600)
            lines = [l for l in c.stdout.split('\n') if l.startswith(('VIOLATION', 'KNOWN-FINDING', p + ' ['))]
            out['checks'][p] = {'exit': c.returncode, 'lines': lines[:6],
                                'broken': [l.strip() for l in c.stdout.split('\n') if l.strip().startswith('broken:')][:4]}
    finally:
        sh('git -C /repo checkout -- .')
        sh('git -C /repo clean -fdq -- copulas')
    out['repo_clean_after'] = sh('git -C /repo status --short').stdout.strip() == ''
    print(json.dumps(out, indent=1))


if __name__ == '__main__':
    main()
