#!/venv/bin/python
"""Confirm a seeded change and run our checks against it, in an ISOLATED copy of /repo and /verif
(so that neither the real /repo nor concurrently running checks are disturbed).

usage: tools/seedtest.py <PID> <patch.diff> <demo.py> [--tier quick|thorough] [--props C06,C07] [--store <id>] [--harmless]
 1. copy /repo -> /scratch/seedrun_<n>/repo and /verif (with .lake) -> /scratch/seedrun_<n>/verif
 2. demo on the unchanged copy must exit 0
 3. git apply patch in the copy; demo must exit != 0
 4. run the copy's ./check for the property (and extra props) with COPULAS_REPO/PYTHONPATH pointing at the copy
 5. delete the copies.  With --store <id>: write /verif/seeded/<id>/{patch.diff, demo.py, meta.json}
Prints a JSON summary."""
import json
import os
import shutil
import subprocess
import sys

V = os.path.dirname(os.path.dirname(os.path.abspath(__file__)))


def sh(cmd, **k):
    return subprocess.run(cmd, shell=True, capture_output=True, text=True, **k)


def main():
    pid, patch, demo = sys.argv[1:4]
    tier, props, store, meta_in = 'quick', [pid], None, None
    harmless = '--harmless' in sys.argv
    for i, a in enumerate(sys.argv):
        if a == '--tier':
            tier = sys.argv[i + 1]
        if a == '--props':
            props = sys.argv[i + 1].split(',')
        if a == '--store':
            store = sys.argv[i + 1]
        if a == '--meta':
            meta_in = sys.argv[i + 1]
    root = f'/scratch/seedrun_{os.getpid()}'
    repo, verif = f'{root}/repo', f'{root}/verif'
    os.makedirs(root, exist_ok=True)
    out = {'property': pid, 'patch': os.path.basename(patch)}
    try:
        sh(f'git -C /repo worktree list >/dev/null; cp -r /repo {repo}; rm -rf {repo}/.git/worktrees')
        sh(f'rsync -a --exclude replays --exclude evidence {V}/ {verif}/')
        env = dict(os.environ, PYTHONPATH=repo, COPULAS_REPO=repo)
        if harmless:
            # behaviour-preserving rewrite: the demo records reference outputs on the unchanged copy and must pass,
            # with the outputs unchanged, on both trees
            ref = f'{root}/ref.json'
            rr = sh(f'cd {repo} && /venv/bin/python {demo} --record {ref}', env=env, timeout=900)
            out['demo_record_exit'] = rr.returncode
            demo_cmd = f'{demo} --ref {ref}'
        else:
            demo_cmd = demo
        r0 = sh(f'cd {repo} && /venv/bin/python {demo_cmd}', env=env, timeout=900)
        out['demo_unchanged_exit'] = r0.returncode
        ap = sh(f'cd {repo} && git apply {patch}')
        if ap.returncode != 0:
            out['apply_error'] = ap.stderr[-300:]
            print(json.dumps(out, indent=1))
            return
        r1 = sh(f'cd {repo} && /venv/bin/python {demo_cmd}', env=env, timeout=900)
        out['demo_changed_exit'] = r1.returncode
        out['demo_changed_tail'] = (r1.stdout + r1.stderr)[-300:]
        out['checks'] = {}
        for p in props:
            c = sh(f'cd {verif} && ./check {p} --tier {tier}', env=env, timeout=3600)
            lines = [l for l in c.stdout.split('\n') if l.startswith(('VIOLATION', 'KNOWN-FINDING', p + ' ['))]
            classes = []
            for l in lines:
                if l.startswith('VIOLATION') and 'replay=' in l:
                    rp = l.split('replay=')[1].split()[0]
                    try:
                        pl = json.load(open(os.path.join(verif, rp)))
                        classes.append(pl.get('class') or pl.get('kind'))
                    except Exception:  # noqa
                        pass
            out['checks'][p] = {
                'exit': c.returncode,
                'violation_lines': sum(1 for l in lines if l.startswith('VIOLATION')),
                'with_failing_input': sum(1 for l in lines if l.startswith('VIOLATION') and 'no-failing-input-found' not in l),
                'classes': classes[:8],
                'summary': [l for l in lines if l.startswith(p + ' [')][:1],
                'broken': [l.strip()[:220] for l in c.stdout.split('\n') if l.strip().startswith('broken:')][:4]}
    finally:
        shutil.rmtree(root, ignore_errors=True)
    if store:
        d = os.path.join(V, 'seeded', store)
        os.makedirs(d, exist_ok=True)
        for src, name in ((patch, 'patch.diff'), (demo, 'demo.py')):
            if os.path.abspath(src) != os.path.join(d, name):
                shutil.copy(src, os.path.join(d, name))
        meta = {'breaks_property': pid}
        old = os.path.join(d, 'meta.json')
        if not meta_in and os.path.exists(old):  # re-run of a stored change: keep the author's description
            try:
                o = json.load(open(old))
                for k in ('summary', 'needs_to_manifest', 'author_tests_run'):
                    meta[k] = o.get(k)
            except Exception:  # noqa
                pass
        if meta_in and os.path.exists(meta_in):
            try:
                m = json.load(open(meta_in))
                meta['summary'] = m.get('summary')
                meta['needs_to_manifest'] = m.get('needs')
                meta['author_tests_run'] = m.get('tests_run')
            except Exception:  # noqa
                pass
        meta['confirmed_by_us'] = {
            'how': 'isolated copy of /repo: demo exit code on the unchanged tree and with the patch applied; then our checks',
            'demo_exit_unchanged': out.get('demo_unchanged_exit'), 'demo_exit_changed': out.get('demo_changed_exit'),
            'repo_head': sh('git -C /repo rev-parse --short HEAD').stdout.strip()}
        meta['our_checks'] = out.get('checks')
        meta['detected'] = any(c['exit'] == 1 for c in out.get('checks', {}).values())
        if harmless:
            # a behaviour-preserving rewrite: the property still holds, so a failing input would be a FALSE ALARM;
            # a broken proof obligation / correspondence reported as `no-failing-input-found` is the expected worst case
            meta['harmless'] = True
            meta['false_alarm'] = any(c['with_failing_input'] > 0 for c in out.get('checks', {}).values())
            meta['silent'] = not meta['detected']
        with open(os.path.join(d, 'meta.json'), 'w') as f:
            json.dump(meta, f, indent=1)
    print(json.dumps(out, indent=1))


if __name__ == '__main__':
    main()
