"""Translator target 'RngScope' -> lean/CopVerif/Gen/RngScope.lean (property C15, tie (T), DESIGN 2.2).

Reads the AST of /repo/copulas/utils.py and of every module of copulas/univariate, copulas/bivariate,
copulas/multivariate (nothing is imported) and emits, in namespace `CopVerif.Gen.RngScope`:

    -- translated statement by statement (control flow and data flow are read off the source)
    set_random_state A random_state set_model_random_state withBody
                                 the context manager `utils.set_random_state`: a function of the `with` body;
                                 `yield` = run that body; `try/finally` = `tryFin`
    random_state_wrapper A self self_set_random_state function
                                 the function `wrapper` returned by the decorator `utils.random_state`
    validate_random_state A random_state
                                 `utils.validate_random_state` (None / isinstance dispatch / raise)
    <Class>_set_random_state A self random_state
                                 the method `set_random_state` of every class that defines one and is the
                                 effective definer for a sampler class (Univariate, Bivariate, Multivariate)
    -- tables (read off the class statements, in-package C3 MRO)
    samplerRows                  for every concrete sampler class: the class that defines its effective `sample`,
                                 the decorator list of that `sample`, the class that defines its effective
                                 `set_random_state`, whether that `sample` only delegates to `self._instance.sample`,
                                 whether its effective `__init__` stores `validate_random_state(random_state)`
    setterOwners, setRandomStateOf   the distinct definers and the dispatch on their names
    -- skeleton (fixed text of the translator; assembles the above into the model's vocabulary)
    rowOf, sampleOf, genConfig, sampleM, setStateM, step, stepW, runW, runLog, outputs, maskedOutputs

Every Python statement becomes one or more `let t ← <primitive>` lines of a `do` block of the monad
`CopVerif.Model.RngStep.M` in A-normal form (Python's left-to-right evaluation order is the order of the lines).

THE TABLE OF NUMPY / PYTHON MEANINGS (trusted; defined in `CopVerif/Model/RngStep.lean`):
    np.random.get_state()                    -> npGetState
    np.random.set_state(s)                   -> npSetState s
    x.get_state() / x.set_state(s)           -> rsGetState x / rsSetState x s
    np.random.RandomState()                  -> newRandomState          (fresh object, arbitrary state)
    np.random.RandomState(seed=v) / (v)      -> newRandomStateSeeded A v
    e is None / e is not None                -> isNone e / !isNone e
    isinstance(e, int)                       -> isInt e
    isinstance(e, np.random.RandomState)     -> isRandomState e         (a tuple of types: `||` of the tests)
    self.random_state  /  self.random_state = v   -> self.getRandomState / self.assignRandomState v
    self.set_random_state (as a value)       -> the parameter `self_set_random_state` (the bound method; which
                                                class's method it is comes from `samplerRows`)
    f(v) for a parameter f                   -> f v                      (callback: any computation)
    function(self, *args, **kwargs)          -> function                 (the wrapped method with its own arguments)
    with set_random_state(a, b): body        -> set_random_state A a b (do body)
    yield                                    -> let y <- withBody        (and the generator's result is `y`)
    try: S finally: F                        -> tryFin (do S) (do F)
    raise E(...)                             -> raiseExc (excOfName "E")
    return e / falling off the end           -> pure e / pure Val.none

PINNED (anything else raises `pyast2lean.Untranslatable` with file:line): `import numpy as np`; the parameter lists
of the three functions and of `wrapper(self, *args, **kwargs)`; `set_random_state` is decorated with
`contextlib.contextmanager` and contains exactly one `yield` (a bare statement, not in a loop); the decorator is
`def wrapper…` + `return wrapper`; `try/finally` without `except`/`else` and `with` are the last statement of their
block; a `return` ends its block; only the statement and expression forms listed above.  Every local name may be
renamed freely (Lean binders), expressions may be split into temporaries or inlined.
"""
import ast
import os
import re

from pyast2lean import Untranslatable, strip_doc

TARGET = 'RngScope'
UTILS = 'copulas/utils.py'
PACKAGES = ('copulas/univariate', 'copulas/bivariate', 'copulas/multivariate')
ROOTS = ('Univariate', 'Bivariate', 'Multivariate')
EXTERNAL_BASES = {'object', 'ABC', 'abc.ABC', 'Enum', 'enum.Enum'}

LEAN_RESERVED = {'at', 'from', 'with', 'end', 'open', 'in', 'do', 'then', 'else', 'if', 'let', 'have', 'show', 'fun',
                 'match', 'def', 'theorem', 'where', 'for', 'return', 'pure', 'Type', 'Prop', 'Sort', 'A', 'G', 'y',
                 'withBody', 'instance', 'structure', 'class', 'namespace', 'section', 'variable', 'import', 'by',
                 'mut', 'try', 'catch', 'finally', 'unless', 'break', 'continue', 'this', 'self_set_random_state',
                 'Val', 'M', 'none', 'some', 'true', 'false', 'not', 'and', 'or', 'local', 'private', 'protected',
                 'macro', 'syntax', 'notation', 'deriving', 'extends', 'using', 'calc', 'nomatch', 'nofun', 'rec'}


def _bad(rel, node, what):
    raise Untranslatable(f'{rel}:{getattr(node, "lineno", "?")}', what)


def _src(node, n=70):
    s = ast.unparse(node).replace('\n', ' ')
    return s if len(s) <= n else s[:n] + '…'


def _dotted(e):
    """`a.b.c` -> 'a.b.c' (None if not a pure attribute chain on a Name)."""
    parts = []
    while isinstance(e, ast.Attribute):
        parts.append(e.attr)
        e = e.value
    if isinstance(e, ast.Name):
        parts.append(e.id)
        return '.'.join(reversed(parts))
    return None


def _terminates(stmts):
    """every path through the statement list ends in `return` / `raise`."""
    if not stmts:
        return False
    s = stmts[-1]
    if isinstance(s, (ast.Return, ast.Raise)):
        return True
    if isinstance(s, ast.If):
        return _terminates(s.body) and _terminates(s.orelse)
    if isinstance(s, ast.With):
        return _terminates(s.body)
    if isinstance(s, ast.Try):
        return _terminates(s.body) or _terminates(s.finalbody)
    return False


class FnTx:
    """one Python function -> lines of a Lean `do` block."""

    def __init__(self, rel, fn, mode, kinds, module_funcs):
        self.rel, self.fn, self.mode = rel, fn, mode
        self.kinds = dict(kinds)           # python name -> 'val' | 'callback' | 'function' | 'self' | 'result'
        self.names = {}                    # python name -> lean identifier
        for p in kinds:
            self.names[p] = self.lean_name(p)
        self.module_funcs = module_funcs   # names of translated module-level functions callable from here
        self.ntemp = 0
        self.uses_bound_setter = False
        self.nyield = 0

    # ------------------------------------------------------------------ names
    def lean_name(self, py):
        if py in LEAN_RESERVED or re.fullmatch(r't\d+', py) or not re.fullmatch(r'[A-Za-z_][A-Za-z0-9_]*', py) \
                or py.startswith('__'):
            return 'v_' + re.sub(r'[^A-Za-z0-9_]', '_', py) + '_'
        return py

    def temp(self):
        self.ntemp += 1
        return f't{self.ntemp}'

    def bad(self, node, what):
        _bad(self.rel, node, f'{self.fn.name}: {what}')

    # ------------------------------------------------------------------ expressions (A-normal form)
    def atom(self, e, out):
        """translate `e`; effectful sub-expressions are bound to temporaries appended to `out`;
        returns (lean atom, kind)."""
        if isinstance(e, ast.Constant) and e.value is None:
            return 'Val.none', 'val'
        if isinstance(e, ast.Name):
            if e.id in self.names:
                return self.names[e.id], self.kinds[e.id]
            self.bad(e, f'name `{e.id}` is not a parameter or a local assigned before')
        if isinstance(e, ast.Attribute):
            base = e.value
            if isinstance(base, ast.Name) and self.kinds.get(base.id) == 'self':
                if e.attr == 'random_state':
                    t = self.temp()
                    out.append(f'let {t} ← {self.names[base.id]}.getRandomState')
                    return t, 'val'
                if e.attr == 'set_random_state':
                    self.uses_bound_setter = True
                    return 'self_set_random_state', 'callback'
            self.bad(e, f'attribute `{_src(e)}` is outside the table of meanings')
        if isinstance(e, ast.Call):
            return self.call(e, out)
        self.bad(e, f'expression `{_src(e)}` ({type(e).__name__}) is outside the whitelist')

    def val(self, e, out):
        a, k = self.atom(e, out)
        if k != 'val':
            self.bad(e, f'`{_src(e)}` is used as a value but is a {k}')
        return a

    def call(self, e, out):
        name = _dotted(e.func)
        args, kws = e.args, e.keywords
        if any(isinstance(a, ast.Starred) for a in args) or any(k.arg is None for k in kws):
            if not (isinstance(e.func, ast.Name) and self.kinds.get(e.func.id) == 'function'):
                self.bad(e, f'star arguments in `{_src(e)}`')

        def bind(term, kind='val'):
            t = self.temp()
            out.append(f'let {t} ← {term}')
            return t, kind

        if name == 'np.random.get_state':
            if args or kws:
                self.bad(e, 'np.random.get_state takes no arguments here')
            return bind('npGetState')
        if name == 'np.random.set_state':
            if len(args) != 1 or kws:
                self.bad(e, f'expected np.random.set_state(<state>), found `{_src(e)}`')
            return bind(f'npSetState {self.val(args[0], out)}')
        if name == 'np.random.RandomState':
            if not args and not kws:
                return bind('newRandomState')
            if len(args) == 1 and not kws:
                return bind(f'newRandomStateSeeded A {self.val(args[0], out)}')
            if not args and len(kws) == 1 and kws[0].arg == 'seed':
                return bind(f'newRandomStateSeeded A {self.val(kws[0].value, out)}')
            self.bad(e, f'unsupported RandomState construction `{_src(e)}`')
        if isinstance(e.func, ast.Name):
            f = e.func.id
            k = self.kinds.get(f)
            if k == 'callback':
                if len(args) != 1 or kws:
                    self.bad(e, f'a callback is called with exactly one positional argument, found `{_src(e)}`')
                return bind(f'{self.names[f]} {self.val(args[0], out)}')
            if k == 'function':
                self.check_forwarding(e)
                return bind(self.names[f], 'result')
            if k is None and f in self.module_funcs and f not in self.names:
                params = self.module_funcs[f]
                if len(args) == len(params) and not kws:
                    actual = [self.val(a, out) for a in args]
                elif not args and sorted(kw.arg for kw in kws) == sorted(params):
                    by = {kw.arg: kw.value for kw in kws}
                    # keyword arguments are evaluated in source order
                    ev = {kw.arg: self.val(kw.value, out) for kw in kws}
                    actual = [ev[p] for p in params]
                    del by
                else:
                    self.bad(e, f'call `{_src(e)}` does not match the parameters {params} of `{f}`')
                return bind(f'{f} A ' + ' '.join(actual))
            self.bad(e, f'call of `{f}` is outside the table of meanings')
        if isinstance(e.func, ast.Attribute) and e.func.attr in ('get_state', 'set_state'):
            recv = self.val(e.func.value, out)
            if e.func.attr == 'get_state':
                if args or kws:
                    self.bad(e, f'get_state with arguments: `{_src(e)}`')
                return bind(f'rsGetState {recv}')
            if len(args) != 1 or kws:
                self.bad(e, f'expected <obj>.set_state(<state>), found `{_src(e)}`')
            return bind(f'rsSetState {recv} {self.val(args[0], out)}')
        self.bad(e, f'call `{_src(e)}` is outside the table of meanings')

    def check_forwarding(self, e):
        """`function(self, *args, **kwargs)` with exactly the wrapper's own parameters."""
        a = self.fn.args
        want = [x.arg for x in a.args]
        ok = (len(e.args) == len(want) + (1 if a.vararg else 0)
              and all(isinstance(x, ast.Name) and x.id == w for x, w in zip(e.args, want))
              and (not a.vararg or (isinstance(e.args[-1], ast.Starred) and isinstance(e.args[-1].value, ast.Name)
                                    and e.args[-1].value.id == a.vararg.arg))
              and len(e.keywords) == (1 if a.kwarg else 0)
              and (not a.kwarg or (e.keywords[0].arg is None and isinstance(e.keywords[0].value, ast.Name)
                                   and e.keywords[0].value.id == a.kwarg.arg)))
        if not ok:
            self.bad(e, f'the wrapped function must be called with the wrapper\'s own arguments, found `{_src(e)}`')

    # ------------------------------------------------------------------ conditions
    def cond(self, e, out):
        if isinstance(e, ast.UnaryOp) and isinstance(e.op, ast.Not):
            return f'!({self.cond(e.operand, out)})'
        if isinstance(e, ast.BoolOp):
            parts = []
            for i, v in enumerate(e.values):
                sub = []
                parts.append(self.cond(v, sub))
                if sub and i > 0:
                    self.bad(v, 'an effectful operand after the first one of and/or (short-circuit evaluation)')
                out.extend(sub)
            op = ' && ' if isinstance(e.op, ast.And) else ' || '
            return '(' + op.join(parts) + ')'
        if isinstance(e, ast.Compare) and len(e.ops) == 1 and isinstance(e.ops[0], (ast.Is, ast.IsNot)) \
                and isinstance(e.comparators[0], ast.Constant) and e.comparators[0].value is None:
            a = self.val(e.left, out)
            return f'isNone {a}' if isinstance(e.ops[0], ast.Is) else f'!(isNone {a})'
        if isinstance(e, ast.Call) and isinstance(e.func, ast.Name) and e.func.id == 'isinstance' \
                and len(e.args) == 2 and not e.keywords and 'isinstance' not in self.names:
            a = self.val(e.args[0], out)
            tys = e.args[1].elts if isinstance(e.args[1], ast.Tuple) else [e.args[1]]
            tests = []
            for ty in tys:
                n = _dotted(ty)
                if n == 'int' and 'int' not in self.names:
                    tests.append(f'isInt {a}')
                elif n == 'np.random.RandomState':
                    tests.append(f'isRandomState {a}')
                else:
                    self.bad(ty, f'isinstance against `{_src(ty)}` is outside the table of meanings')
            return tests[0] if len(tests) == 1 else '(' + ' || '.join(tests) + ')'
        self.bad(e, f'condition `{_src(e)}` is outside the whitelist')

    # ------------------------------------------------------------------ statements
    def end(self, node, yvar):
        """falling off the end of the function."""
        if self.mode == 'plain':
            return ['pure Val.none']
        if self.mode == 'generator':
            if yvar is None:
                self.bad(node, 'a path through the context manager ends without reaching `yield`')
            return [f'pure {yvar}']
        self.bad(node, 'a path through the wrapper ends without returning the wrapped function\'s result')

    def block(self, stmts, yvar, tail_node, mode=None):
        """translate a statement list that is in tail position of the function."""
        mode = mode or self.mode
        if not stmts:
            saved, self.mode = self.mode, mode
            try:
                return self.end(tail_node, yvar)
            finally:
                self.mode = saved
        saved, self.mode = self.mode, mode
        try:
            return self._block(stmts, yvar, tail_node)
        finally:
            self.mode = saved

    def _block(self, stmts, yvar, tail_node):
        s, rest = stmts[0], stmts[1:]
        out = []
        if isinstance(s, ast.Pass):
            return self.block(rest, yvar, s)
        if isinstance(s, ast.Expr) and isinstance(s.value, ast.Constant) and isinstance(s.value.value, str):
            return self.block(rest, yvar, s)
        if isinstance(s, ast.Expr) and isinstance(s.value, ast.Yield):
            if self.mode != 'generator' or s.value.value is not None:
                self.bad(s, f'`{_src(s)}`: only a bare `yield` inside the context manager is translated')
            if yvar is not None:
                self.bad(s, 'a second `yield` on the same path')
            out.append('let y ← withBody')
            return out + self.block(rest, 'y', s)
        if isinstance(s, ast.Expr):
            a, _ = self.atom(s.value, out)
            if not out:
                self.bad(s, f'expression statement `{_src(s)}` has no effect the table knows')
            return out + self.block(rest, yvar, s)
        if isinstance(s, ast.Assign) and len(s.targets) == 1:
            tgt = s.targets[0]
            if isinstance(tgt, ast.Name):
                a, k = self.atom(s.value, out)
                if k not in ('val', 'result', 'callback'):
                    self.bad(s, f'`{_src(s)}` binds a {k} to a local')
                ln = self.lean_name(tgt.id)
                self.names[tgt.id], self.kinds[tgt.id] = ln, k
                out.append(f'let {ln} := {a}')
                return out + self.block(rest, yvar, s)
            if isinstance(tgt, ast.Attribute) and isinstance(tgt.value, ast.Name) \
                    and self.kinds.get(tgt.value.id) == 'self' and tgt.attr == 'random_state':
                a = self.val(s.value, out)
                out.append(f'let {self.temp()} ← {self.names[tgt.value.id]}.assignRandomState {a}')
                return out + self.block(rest, yvar, s)
            self.bad(s, f'assignment target `{_src(tgt)}` is outside the whitelist')
        if isinstance(s, ast.Return):
            if rest:
                self.bad(rest[0], 'statements after `return`')
            if self.mode == 'generator':
                self.bad(s, '`return` inside the context manager')
            if s.value is None:
                return self.end(s, yvar)
            a, k = self.atom(s.value, out)
            want = 'result' if self.mode == 'wrapper' else 'val'
            if k != want:
                self.bad(s, f'`{_src(s)}` returns a {k}; this function must return ' +
                         ('the wrapped function\'s result' if want == 'result' else 'a value'))
            return out + [f'pure {a}']
        if isinstance(s, ast.Raise):
            if s.exc is None or s.cause is not None:
                self.bad(s, 'bare `raise` / `raise … from …`')
            exc = s.exc.func if isinstance(s.exc, ast.Call) else s.exc
            n = _dotted(exc)
            if n is None:
                self.bad(s, f'raise of `{_src(s.exc)}`')
            return [f'raiseExc (excOfName "{n.split(".")[-1]}")']
        if isinstance(s, ast.If):
            c = self.cond(s.test, out)
            snap = (dict(self.names), dict(self.kinds))
            thn = self.block(list(s.body) + ([] if _terminates(s.body) else rest), yvar, s)
            self.names, self.kinds = dict(snap[0]), dict(snap[1])
            els = self.block(list(s.orelse) + ([] if _terminates(s.orelse) else rest), yvar, s)
            self.names, self.kinds = snap
            return out + [f'if {c} then'] + ['  ' + x for x in thn] + ['else'] + ['  ' + x for x in els]
        if isinstance(s, ast.Try):
            if s.handlers or s.orelse or not s.finalbody:
                self.bad(s, 'only `try: … finally: …` (no except / else) is translated')
            if rest:
                self.bad(rest[0], 'statements after a try/finally (it must end its block)')
            if any(isinstance(n, (ast.Return, ast.Yield)) for f in s.finalbody for n in ast.walk(f)):
                self.bad(s, '`return` / `yield` inside a `finally` block')
            body = self.block(list(s.body), yvar, s)
            fin = self.block(list(s.finalbody), None, s, mode='plain')
            return out + ['tryFin (do'] + ['    ' + x for x in body[:-1]] + ['    ' + body[-1] + ')'] + \
                ['  (do'] + ['    ' + x for x in fin[:-1]] + ['    ' + fin[-1] + ')']
        if isinstance(s, ast.With):
            if rest:
                self.bad(rest[0], 'statements after a `with` block (it must end its block)')
            if len(s.items) != 1 or s.items[0].optional_vars is not None:
                self.bad(s, 'only `with <context manager call>:` is translated')
            ce = s.items[0].context_expr
            if not (isinstance(ce, ast.Call) and isinstance(ce.func, ast.Name) and ce.func.id in self.module_funcs
                    and self.module_funcs[ce.func.id] == '<contextmanager>' and ce.func.id not in self.names):
                self.bad(s, f'`with {_src(ce)}`: not a call of the translated context manager')
            if len(ce.args) != 2 or ce.keywords:
                self.bad(s, f'expected `with set_random_state(<random state>, <setter>)`, found `{_src(ce)}`')
            a = self.val(ce.args[0], out)
            cb, k = self.atom(ce.args[1], out)
            if k != 'callback':
                self.bad(ce.args[1], f'`{_src(ce.args[1])}` is not a callback')
            body = self.block(list(s.body), yvar, s)
            return out + [f'{ce.func.id} A {a} {cb} (do'] + ['  ' + x for x in body[:-1]] + ['  ' + body[-1] + ')']
        self.bad(s, f'statement `{_src(s)}` ({type(s).__name__}) is outside the whitelist')


def _emit(doc, sig, lines):
    return f'/-- {doc} -/\n{sig} := do\n' + '\n'.join('  ' + x for x in lines) + '\n'


def _plain_params(rel, fn, names):
    a = fn.args
    got = [x.arg for x in a.args]
    if a.vararg or a.kwarg or a.kwonlyargs or a.posonlyargs or a.defaults or len(got) != len(names):
        _bad(rel, fn, f'{fn.name}: expected exactly {len(names)} plain parameters, found ({ast.unparse(a)})')
    return got


def _decorator_names(fn):
    return [_dotted(d.func if isinstance(d, ast.Call) else d) or ast.unparse(d) for d in fn.decorator_list]


def gen_utils(repo, report):
    path = os.path.join(repo, UTILS)
    with open(path) as fh:
        tree = ast.parse(fh.read(), filename=path)
    if not any(isinstance(n, ast.Import) and any(a.name == 'numpy' and a.asname == 'np' for a in n.names)
               for n in tree.body):
        raise Untranslatable(UTILS, '`import numpy as np` not found at module level')
    funcs = {}
    for name in ('set_random_state', 'random_state', 'validate_random_state'):
        defs = [n for n in tree.body if isinstance(n, ast.FunctionDef) and n.name == name]
        binds = [n for n in ast.walk(tree) if isinstance(n, ast.Name) and n.id == name and isinstance(n.ctx, ast.Store)]
        if len(defs) != 1 or binds:
            raise Untranslatable(UTILS, f'`{name}` is defined {len(defs)} times / re-bound {len(binds)} times')
        funcs[name] = defs[0]
    for name in ('np', 'isinstance', 'int'):
        if any(isinstance(n, ast.Name) and n.id == name and isinstance(n.ctx, ast.Store) for n in ast.walk(tree)):
            raise Untranslatable(UTILS, f'`{name}` is re-bound in the module')
    out = []

    # validate_random_state --------------------------------------------------------------------
    fn = funcs['validate_random_state']
    if fn.decorator_list:
        _bad(UTILS, fn, 'validate_random_state is decorated')
    (p,) = _plain_params(UTILS, fn, ['random_state'])
    tx = FnTx(UTILS, fn, 'plain', {p: 'val'}, {})
    lines = tx.block(strip_doc(fn.body), None, fn)
    out.append(_emit(f'`utils.validate_random_state` ({UTILS}:{fn.lineno}-{fn.end_lineno})',
                     f'def validate_random_state (A : GenAlg G Draw Out) ({tx.names[p]} : Val G) : M G (Val G)', lines))
    report.append((UTILS, fn.name, fn.lineno, fn.end_lineno))
    module_funcs = {'validate_random_state': [p]}

    # set_random_state (context manager) -------------------------------------------------------
    fn = funcs['set_random_state']
    if _decorator_names(fn) not in (['contextlib.contextmanager'], ['contextmanager']):
        _bad(UTILS, fn, f'set_random_state must be decorated with contextlib.contextmanager only, found {_decorator_names(fn)}')
    p_rs, p_cb = _plain_params(UTILS, fn, ['random_state', 'set_model_random_state'])
    yields = [n for n in ast.walk(fn) if isinstance(n, (ast.Yield, ast.YieldFrom))]
    loops = [n for n in ast.walk(fn) if isinstance(n, (ast.For, ast.While, ast.AsyncFor))]
    if len(yields) != 1 or loops:
        _bad(UTILS, fn, f'set_random_state: expected exactly one `yield` and no loop, found {len(yields)} yields, {len(loops)} loops')
    tx = FnTx(UTILS, fn, 'generator', {p_rs: 'val', p_cb: 'callback'}, module_funcs)
    lines = tx.block(strip_doc(fn.body), None, fn)
    out.append(_emit(f'`utils.set_random_state` ({UTILS}:{fn.lineno}-{fn.end_lineno}), as a function of the `with` body',
                     f'def set_random_state (A : GenAlg G Draw Out) ({tx.names[p_rs]} : Val G)\n'
                     f'    ({tx.names[p_cb]} : Val G → M G (Val G)) (withBody : M G α) : M G α', lines))
    report.append((UTILS, fn.name, fn.lineno, fn.end_lineno))
    module_funcs['set_random_state'] = '<contextmanager>'

    # random_state (decorator) -----------------------------------------------------------------
    fn = funcs['random_state']
    if fn.decorator_list:
        _bad(UTILS, fn, 'the decorator random_state is itself decorated')
    (p_fn,) = _plain_params(UTILS, fn, ['function'])
    body = strip_doc(fn.body)
    if not (len(body) == 2 and isinstance(body[0], ast.FunctionDef) and isinstance(body[1], ast.Return)
            and isinstance(body[1].value, ast.Name) and body[1].value.id == body[0].name):
        _bad(UTILS, fn, 'random_state: expected `def wrapper(…): …` followed by `return wrapper`')
    w = body[0]
    decs = w.decorator_list
    if not (len(decs) == 1 and isinstance(decs[0], ast.Call) and _dotted(decs[0].func) in ('wraps', 'functools.wraps')
            and len(decs[0].args) == 1 and isinstance(decs[0].args[0], ast.Name) and decs[0].args[0].id == p_fn
            and not decs[0].keywords):
        _bad(UTILS, w, f'the wrapper must be decorated with `@wraps({p_fn})` only')
    a = w.args
    if not (len(a.args) == 1 and a.vararg and a.kwarg and not a.kwonlyargs and not a.posonlyargs and not a.defaults):
        _bad(UTILS, w, f'expected `def {w.name}(self, *args, **kwargs)`, found ({ast.unparse(a)})')
    p_self = a.args[0].arg
    tx = FnTx(UTILS, w, 'wrapper', {p_self: 'self', p_fn: 'function'}, module_funcs)
    lines = tx.block(strip_doc(w.body), None, w)
    out.append(_emit(f'the `wrapper` returned by the decorator `utils.random_state` ({UTILS}:{fn.lineno}-{fn.end_lineno}); '
                     '`self_set_random_state` is the bound method `self.set_random_state`',
                     f'def random_state_wrapper (A : GenAlg G Draw Out) ({tx.names[p_self]} : SelfRef G)\n'
                     f'    (self_set_random_state : Val G → M G (Val G)) ({tx.names[p_fn]} : M G α) : M G α', lines))
    report.append((UTILS, fn.name, fn.lineno, fn.end_lineno))
    return out, module_funcs


# ------------------------------------------------------------------------------------------ classes
def collect_classes(repo):
    classes, order = {}, []
    for pkg in PACKAGES:
        d = os.path.join(repo, pkg)
        for fname in sorted(os.listdir(d)):
            if not fname.endswith('.py'):
                continue
            rel = f'{pkg}/{fname}'
            with open(os.path.join(repo, rel)) as fh:
                tree = ast.parse(fh.read(), filename=rel)
            imports_vrs = any(isinstance(n, ast.ImportFrom) and n.module == 'copulas.utils'
                              and any(al.name == 'validate_random_state' and al.asname is None for al in n.names)
                              for n in tree.body)
            imports_rs = any(isinstance(n, ast.ImportFrom) and n.module == 'copulas.utils'
                             and any(al.name == 'random_state' and al.asname is None for al in n.names)
                             for n in tree.body)
            rebinds = {n.id for n in ast.walk(tree) if isinstance(n, ast.Name) and isinstance(n.ctx, ast.Store)}
            rebinds |= {n.name for n in tree.body if isinstance(n, (ast.FunctionDef, ast.ClassDef))}
            for node in tree.body:
                if not isinstance(node, ast.ClassDef):
                    continue
                if node.name in classes:
                    raise Untranslatable(f'{rel}:{node.lineno}', f'class name `{node.name}` is defined twice in the packages')
                bases = [_dotted(b) or ast.unparse(b) for b in node.bases]
                classes[node.name] = {
                    'rel': rel, 'node': node, 'bases': bases,
                    'methods': {n.name: n for n in node.body if isinstance(n, ast.FunctionDef)},
                    'vrs_ok': imports_vrs and 'validate_random_state' not in rebinds,
                    'rs_ok': imports_rs and 'random_state' not in rebinds,
                }
                order.append(node.name)
    return classes, order


def mro(classes, name, seen=()):
    """C3 linearisation restricted to the classes of the three packages."""
    if name in seen:
        raise Untranslatable(classes[name]['rel'], f'inheritance cycle through `{name}`')
    bases = [b.split('.')[-1] for b in classes[name]['bases']]
    inpkg = [b for b in bases if b in classes]
    for b in bases:
        if b not in classes and b not in EXTERNAL_BASES and classes[name]['bases'][bases.index(b)] not in EXTERNAL_BASES:
            raise Untranslatable(f'{classes[name]["rel"]}:{classes[name]["node"].lineno}',
                                 f'class `{name}` has a base `{b}` outside the three packages')
    seqs = [mro(classes, b, seen + (name,)) for b in inpkg] + [list(inpkg)]
    res = [name]
    seqs = [list(s) for s in seqs if s]
    while seqs:
        for s in seqs:
            h = s[0]
            if not any(h in t[1:] for t in seqs):
                break
        else:
            raise Untranslatable(classes[name]['rel'], f'no consistent MRO for `{name}`')
        res.append(h)
        seqs = [[x for x in s if x != h] for s in seqs]
        seqs = [s for s in seqs if s]
    return res


def effective(classes, lin, meth):
    for c in lin:
        if meth in classes[c]['methods']:
            return c, classes[c]['methods'][meth]
    return None, None


def _is_abstract(fn):
    body = strip_doc(fn.body)
    if len(body) == 1 and isinstance(body[0], ast.Raise) and body[0].exc is not None:
        e = body[0].exc
        return _dotted(e.func if isinstance(e, ast.Call) else e) == 'NotImplementedError'
    return False


def _delegates(fn):
    """the last statement is `return self._instance.sample(...)` (only `self.check_fit()` may precede it)."""
    body = strip_doc(fn.body)
    if not body or not isinstance(body[-1], ast.Return) or body[-1].value is None:
        return False
    v = body[-1].value
    selfname = fn.args.args[0].arg if fn.args.args else 'self'
    if not (isinstance(v, ast.Call) and _dotted(v.func) == f'{selfname}._instance.sample'):
        return False
    for s in body[:-1]:
        if not (isinstance(s, ast.Expr) and isinstance(s.value, ast.Call)
                and _dotted(s.value.func) == f'{selfname}.check_fit'):
            return False
    return True


def _ctor_validates(fn):
    """`self.random_state = validate_random_state(random_state)` is a top-level statement of __init__ and the
    only store into `self.random_state`."""
    if fn is None:
        return False
    selfname = fn.args.args[0].arg if fn.args.args else 'self'
    params = [a.arg for a in fn.args.args] + [a.arg for a in fn.args.kwonlyargs]
    stores = [n for n in ast.walk(fn) if isinstance(n, ast.Attribute) and isinstance(n.ctx, ast.Store)
              and n.attr == 'random_state' and isinstance(n.value, ast.Name) and n.value.id == selfname]
    hits = [s for s in strip_doc(fn.body) if isinstance(s, ast.Assign) and len(s.targets) == 1
            and s.targets[0] in stores and isinstance(s.value, ast.Call) and _dotted(s.value.func) == 'validate_random_state'
            and len(s.value.args) == 1 and not s.value.keywords and isinstance(s.value.args[0], ast.Name)
            and s.value.args[0].id == 'random_state' and 'random_state' in params]
    return len(stores) == 1 and len(hits) == 1


def gen_classes(repo, report, module_funcs):
    classes, order = collect_classes(repo)
    for r in ROOTS:
        if r not in classes:
            raise Untranslatable('copulas', f'base class `{r}` not found')
    rows, setters = [], {}
    for name in order:
        c = classes[name]
        if any(b in ('Enum', 'enum.Enum') for b in c['bases']):
            continue
        lin = mro(classes, name)
        if not any(r in lin for r in ROOTS):
            continue
        if any(b in ('ABC', 'abc.ABC') for b in c['bases']):
            continue                                   # abstract intermediate (ScipyModel)
        owner, fn = effective(classes, lin, 'sample')
        if fn is None or _is_abstract(fn):
            continue                                   # Multivariate itself, Tree and its subclasses
        where = f'{classes[owner]["rel"]}:{fn.lineno}'
        decs = []
        for d in fn.decorator_list:
            dn = _dotted(d)
            if dn is None:
                raise Untranslatable(where, f'decorator `{ast.unparse(d)}` on {owner}.sample is not a plain name')
            if dn == 'random_state' and not classes[owner]['rs_ok']:
                raise Untranslatable(where, '`random_state` is not (only) `from copulas.utils import random_state` in this module')
            decs.append(dn)
        sowner, sfn = effective(classes, lin, 'set_random_state')
        if sfn is None:
            raise Untranslatable(where, f'class `{name}` has no set_random_state method in the packages')
        if sowner not in setters:
            srel = classes[sowner]['rel']
            if sfn.decorator_list:
                _bad(srel, sfn, f'{sowner}.set_random_state is decorated')
            if not classes[sowner]['vrs_ok'] and any(isinstance(n, ast.Name) and n.id == 'validate_random_state'
                                                     for n in ast.walk(sfn)):
                _bad(srel, sfn, '`validate_random_state` is not (only) `from copulas.utils import validate_random_state` here')
            p_self, p_rs = _plain_params(srel, sfn, ['self', 'random_state'])
            tx = FnTx(srel, sfn, 'plain', {p_self: 'self', p_rs: 'val'}, module_funcs)
            lines = tx.block(strip_doc(sfn.body), None, sfn)
            setters[sowner] = _emit(
                f'`{sowner}.set_random_state` ({srel}:{sfn.lineno}-{sfn.end_lineno})',
                f'def {sowner}_set_random_state (A : GenAlg G Draw Out) ({tx.names[p_self]} : SelfRef G) '
                f'({tx.names[p_rs]} : Val G) : M G (Val G)', lines)
            report.append((srel, f'{sowner}.set_random_state', sfn.lineno, sfn.end_lineno))
        iowner, ifn = effective(classes, lin, '__init__')
        rows.append({'cls': name, 'sampleOwner': owner, 'decorators': decs, 'setterOwner': sowner,
                     'delegates': _delegates(fn), 'ctor': _ctor_validates(ifn) and classes[iowner]['vrs_ok']})
        span = (classes[owner]['rel'], f'{owner}.sample (decorators, delegation)', fn.lineno - len(fn.decorator_list),
                fn.lineno)
        if span not in report:
            report.append(span)
    if not rows:
        raise Untranslatable('copulas', 'no sampler class found')
    return rows, setters


HEADER = '''import CopVerif.Model.RngStep
/-! GENERATED by tools/regen.py (tools/gen_rngscope.py) from the AST of /repo/copulas/utils.py and the class
    statements of copulas/univariate, copulas/bivariate, copulas/multivariate on every run - do not edit.
    Everything between `-- ==== translated` and `-- ==== skeleton` is read off the Python source, statement by
    statement, into `do` blocks of the monad `Model.RngStep.M` (A-normal form: one line per evaluation step, in
    Python's evaluation order); the primitives are the fixed table of meanings of `CopVerif/Model/RngStep.lean`.
    The skeleton (fixed text of the translator) assembles them into the vocabulary of `CopVerif/Model/Rng.lean`. -/
set_option linter.unusedVariables false
namespace CopVerif.Gen.RngScope
open CopVerif.Model.Rng CopVerif.Model.RngStep

section
variable {G Draw Out : Type} {α : Type}

-- ==== translated
'''

SKELETON = '''
-- ==== skeleton
/-- the row of a class (classes outside the table: none). -/
def rowOf (cls : String) : Option SamplerRow := samplerRows.find? fun r => r.cls == cls

/-- is the effective `sample` of the row wrapped by `@random_state`? -/
def SamplerRow.decorated (r : SamplerRow) : Bool := r.decorators.contains "random_state"

/-- `m.sample(...)` for a model of class `cls` whose undecorated body is `body`: the wrapper of
    `self._instance.sample` (an object whose `random_state` is `None`) when the method only delegates, inside
    the wrapper of `self` when the method is decorated; the bound `self.set_random_state` is the method of the
    class the table names. -/
def sampleOf (A : GenAlg G Draw Out) (cls : String) (m : Nat) (body : M G α) : M G α :=
  match rowOf cls with
  | none => body
  | some r =>
    let inner := if r.delegates
      then random_state_wrapper A unseededInstance unseededInstance.assignRandomState body else body
    if r.decorated then random_state_wrapper A (attrOf m) (setRandomStateOf A r.setterOwner (attrOf m)) inner
    else inner

/-- the configuration of `Model.Rng` that the tables describe. -/
def genConfig (clsOf : Nat → String) : Config where
  kind m := match rowOf (clsOf m) with
    | some r => if r.delegates then .delegating else .direct
    | none => .direct
  decorated m := match rowOf (clsOf m) with
    | some r => r.decorated
    | none => false

/-- `m.sample(...)` whose body performs the draws of `c` on the global stream and then returns / raises. -/
def sampleM (A : GenAlg G Draw Out) (clsOf : Nat → String) (m : Nat) (c : Call Draw) : M G (List Out) :=
  sampleOf A (clsOf m) m (liftBody (drawGlobal A c))

/-- `m.set_random_state(seed)` (also the constructors: `ctorValidates`). -/
def setStateM (A : GenAlg G Draw Out) (clsOf : Nat → String) (m : Nat) (seed : Val G) : M G (Val G) :=
  match rowOf (clsOf m) with
  | some r => setRandomStateOf A r.setterOwner (attrOf m) seed
  | none => raiseExc .attributeError

/-- one operation of a client program (`Model.Rng.Op`) executed by the generated functions.  A caller can
    only pass a `RandomState` object that exists (`r < w.next`).  The dataset generators, the caller's own
    objects and `np.random.seed` are not part of the translated source: the model's clauses. -/
def step (A : GenAlg G Draw Out) (clsOf : Nat → String) (w : World G) : Op Draw → World G × Option (Result Out)
  | .sample m c => let r := lowerBody (sampleM A clsOf m c) w; (r.1, some r.2)
  | .setState m (.obj r) => (if r < w.next then effect (setStateM A clsOf m (.rs r)) w else w, none)
  | .setState m s => (effect (setStateM A clsOf m (seedVal s)) w, none)
  | op => Model.Rng.step A (genConfig clsOf) w op

def stepW (A : GenAlg G Draw Out) (clsOf : Nat → String) (w : World G) (op : Op Draw) : World G :=
  (step A clsOf w op).1

def runW (A : GenAlg G Draw Out) (clsOf : Nat → String) : World G → List (Op Draw) → World G
  | w, [] => w
  | w, op :: h => runW A clsOf (stepW A clsOf w op) h

def runLog (A : GenAlg G Draw Out) (clsOf : Nat → String) :
    World G → List (Op Draw) → List (World G × Option (Result Out))
  | _, [] => []
  | w, op :: h => let r := step A clsOf w op; r :: runLog A clsOf r.1 h

/-- what the successive `m.sample` calls of a history returned. -/
def outputs (A : GenAlg G Draw Out) (clsOf : Nat → String) (m : Nat) : World G → List (Op Draw) → List (Result Out)
  | _, [] => []
  | w, .sample m' c :: h =>
    (if m' = m then [(lowerBody (sampleM A clsOf m' c) w).2] else []) ++
      outputs A clsOf m (stepW A clsOf w (.sample m' c)) h
  | w, op :: h => outputs A clsOf m (stepW A clsOf w op) h

/-- the same, with a call made while `m.random_state is None` masked out. -/
def maskedOutputs (A : GenAlg G Draw Out) (clsOf : Nat → String) (m : Nat) :
    World G → List (Op Draw) → List (Option (Result Out))
  | _, [] => []
  | w, .sample m' c :: h =>
    (if m' = m then [if (w.rs m).isSome then some (lowerBody (sampleM A clsOf m' c) w).2 else none] else []) ++
      maskedOutputs A clsOf m (stepW A clsOf w (.sample m' c)) h
  | w, op :: h => maskedOutputs A clsOf m (stepW A clsOf w op) h

end
end CopVerif.Gen.RngScope
'''


def _lean_str_list(xs):
    return '[' + ', '.join(f'"{x}"' for x in xs) + ']'


def generate(repo):
    report = []
    defs, module_funcs = gen_utils(repo, report)
    rows, setters = gen_classes(repo, report, module_funcs)
    text = HEADER + '\n'.join(defs) + '\n' + '\n'.join(setters[k] for k in setters) + '\n'
    text += 'end\n\n'
    text += ('/-- one concrete sampler class: who defines its effective `sample`, the decorators of that method, who\n'
             '    defines its effective `set_random_state`, whether `sample` only delegates to `self._instance.sample`,\n'
             '    whether its effective `__init__` stores `validate_random_state(random_state)`. -/\n'
             'structure SamplerRow where\n  cls : String\n  sampleOwner : String\n  decorators : List String\n'
             '  setterOwner : String\n  delegates : Bool\n  ctorValidates : Bool\n  deriving DecidableEq, Repr\n\n')
    text += 'def samplerRows : List SamplerRow := [\n' + ',\n'.join(
        f'  ⟨"{r["cls"]}", "{r["sampleOwner"]}", {_lean_str_list(r["decorators"])}, "{r["setterOwner"]}", '
        f'{str(r["delegates"]).lower()}, {str(r["ctor"]).lower()}⟩' for r in rows) + ']\n\n'
    text += '/-- the classes that define an effective `set_random_state` of a sampler class. -/\n'
    text += f'def setterOwners : List String := {_lean_str_list(list(setters))}\n\n'
    text += 'section\nvariable {G Draw Out : Type} {α : Type}\n\n'
    text += ('/-- the method `set_random_state` of the class named `owner`. -/\n'
             'def setRandomStateOf (A : GenAlg G Draw Out) (owner : String) (self : SelfRef G) (v : Val G) : M G (Val G) :=\n')
    for i, k in enumerate(setters):
        text += f'  {"if" if i == 0 else "else if"} owner == "{k}" then {k}_set_random_state A self v\n'
    text += '  else raiseExc .attributeError\n'
    text += SKELETON
    return text, report


if __name__ == '__main__':
    import sys
    t, rep = generate(sys.argv[1] if len(sys.argv) > 1 else os.environ.get('COPULAS_REPO', '/repo'))
    print(t)
    print(rep, file=sys.stderr)
