"""Translator target 'Lifecycle' -> lean/CopVerif/Gen/Lifecycle.lean (tie (T) of property C19).

Table-like facts about the model life cycle, read off the AST of /repo (never by importing copulas):

* for every class of copulas/univariate/*.py, copulas/multivariate/*.py, copulas/bivariate/*.py
  (Enum classes excluded): its bases, whether it defines `__init__`, whether the *effective*
  `__init__` (first one along the in-package MRO) is decorated with `@store_args`, that
  constructor's parameter names / required parameters, the instance attributes its fit path
  (`_fit`, `_fit_constant`, `_get_model`) assigns besides `_params`/`_model`, the decorators of the
  effective `fit`, whether that `fit` assigns `self.fitted = True` exactly once and as its very last
  statement, and for each query/sample/serialise method the *guard* = what the method does first:
  `self.check_fit()`, delegation to another method of `self`, `raise NotImplementedError`, or
  anything else (`unguarded`);
* the attributes `_replace_constant_methods` writes on the instance;
* the sequence of tests of the decorator `utils.check_valid_values` (each must raise `ValueError`);
* the shape of `utils.get_instance` (the four prototype forms) and of `utils.store_args`.

Whitelist: a construct outside the patterns below raises `Untranslatable`.
"""
import ast
import os

from pyast2lean import Untranslatable

TARGET = 'Lifecycle'

PACKAGES = ('copulas/univariate', 'copulas/multivariate', 'copulas/bivariate')
SKIP_FILES = {'__init__.py', 'utils.py', 'selection.py'}
QUERIES = ('probability_density', 'log_probability_density', 'pdf', 'cumulative_distribution', 'cdf',
           'percent_point', 'ppf', 'partial_derivative', 'partial_derivative_scalar', 'generator',
           'sample', 'get_likelihood', 'to_dict')
KNOWN_DECORATORS = {'store_args', 'random_state', 'check_valid_values', 'classmethod', 'staticmethod',
                    'vectorize', 'scalarize'}
PURE_WRAPPERS = {'np.log', 'np.exp', 'np.sum', 'np.array', 'np.asarray'}
FIT_PATH = ('_fit', '_fit_constant', '_get_model')
NOT_STATE = {'_params', '_model'}
UTILS = 'copulas/utils.py'


def _parse(repo, rel):
    path = os.path.join(repo, rel)
    with open(path) as f:
        return ast.parse(f.read(), filename=path)


def _strip_doc(body):
    if body and isinstance(body[0], ast.Expr) and isinstance(body[0].value, ast.Constant) \
            and isinstance(body[0].value.value, str):
        return body[1:]
    return body


def _is_self_attr(node, attr=None):
    return isinstance(node, ast.Attribute) and isinstance(node.value, ast.Name) and node.value.id == 'self' \
        and (attr is None or node.attr == attr)


def _decorators(fn, where):
    out = []
    for d in fn.decorator_list:
        name = ast.unparse(d)
        if name not in KNOWN_DECORATORS:
            raise Untranslatable(where, f'unknown decorator @{name} on {fn.name}')
        out.append(name)
    return out


def _methods(cls):
    return {n.name: n for n in cls.body if isinstance(n, ast.FunctionDef)}


def _guard(fn, where):
    """what the method does first."""
    body = _strip_doc(fn.body)
    if not body:
        return ('unguarded', None)
    st = body[0]
    if isinstance(st, ast.Expr) and isinstance(st.value, ast.Call) and _is_self_attr(st.value.func, 'check_fit') \
            and not st.value.args and not st.value.keywords:
        return ('checkFit', None)
    if isinstance(st, ast.Raise):
        e = st.exc
        name = ast.unparse(e.func if isinstance(e, ast.Call) else e) if e is not None else ''
        if name == 'NotImplementedError':
            return ('abstract', None)
        return ('unguarded', None)
    if isinstance(st, ast.Return) and st.value is not None:
        calls = [n for n in ast.walk(st.value) if isinstance(n, ast.Call)]
        selfcalls = [c for c in calls if _is_self_attr(c.func)]
        others = [c for c in calls if not _is_self_attr(c.func)]
        if len(selfcalls) == 1 and all(ast.unparse(c.func) in PURE_WRAPPERS for c in others):
            c = selfcalls[0]
            # the delegate's arguments must be evaluated without any other effect: names / constants only
            simple = all(isinstance(a, (ast.Name, ast.Constant)) for a in c.args) and \
                all(isinstance(k.value, (ast.Name, ast.Constant)) for k in c.keywords)
            # ... and every wrapper around it must take the delegate's result as its (first) argument
            if simple:
                return ('delegate', c.func.attr)
    return ('unguarded', None)


def _init_info(fn, where):
    a = fn.args
    if a.vararg or a.kwarg or a.kwonlyargs or a.posonlyargs:
        raise Untranslatable(where, '__init__ with *args/**kwargs/keyword-only/positional-only parameters')
    names = [x.arg for x in a.args]
    if not names or names[0] != 'self':
        raise Untranslatable(where, '__init__ first parameter is not self')
    names = names[1:]
    nreq = len(names) - len(a.defaults)
    return names, names[:nreq]


def _self_stores(fn):
    out = []
    for n in ast.walk(fn):
        if isinstance(n, ast.Attribute) and isinstance(n.ctx, ast.Store) and _is_self_attr(n):
            if n.attr not in out:
                out.append(n.attr)
    return out


def _fitted_last(fn):
    """`self.fitted = True` is assigned exactly once in `fit`, as the last top-level statement."""
    stores = [n for n in ast.walk(fn) if isinstance(n, ast.Attribute) and isinstance(n.ctx, ast.Store)
              and _is_self_attr(n, 'fitted')]
    body = _strip_doc(fn.body)
    # trailing logging calls are not state
    while body and isinstance(body[-1], ast.Expr) and isinstance(body[-1].value, ast.Call) \
            and ast.unparse(body[-1].value.func).startswith('LOGGER.'):
        body = body[:-1]
    if len(stores) != 1 or not body:
        return False
    last = body[-1]
    return isinstance(last, ast.Assign) and len(last.targets) == 1 and last.targets[0] is stores[0] \
        and isinstance(last.value, ast.Constant) and last.value.value is True


def _collect_classes(repo, report):
    classes = {}
    order = []
    for pkg in PACKAGES:
        d = os.path.join(repo, pkg)
        for fn in sorted(os.listdir(d)):
            if not fn.endswith('.py') or fn in SKIP_FILES:
                continue
            rel = f'{pkg}/{fn}'
            tree = _parse(repo, rel)
            for node in tree.body:
                if not isinstance(node, ast.ClassDef):
                    continue
                bases = [ast.unparse(b) for b in node.bases]
                if 'Enum' in bases:
                    continue
                if node.name in classes:
                    raise Untranslatable(rel, f'class name {node.name} defined twice in the scanned packages')
                classes[node.name] = {'node': node, 'file': rel, 'bases': bases or ['object'],
                                      'module': rel[:-3].replace('/', '.')}
                order.append(node.name)
                report.append((rel, node.name, node.lineno, node.end_lineno))
    return classes, order


def _mro(classes, name, where):
    """in-package linearisation; only single in-package inheritance is accepted."""
    out = []
    cur = name
    while cur in classes:
        out.append(cur)
        known = [b for b in classes[cur]['bases'] if b in classes]
        if len(known) > 1:
            raise Untranslatable(where, f'class {cur} has several in-package bases {known}')
        for b in classes[cur]['bases']:
            if b not in classes and b not in ('object', 'ABC'):
                raise Untranslatable(where, f'class {cur} has an unknown base {b}')
        cur = known[0] if known else None
    return out


def _lookup(classes, mro, meth):
    for c in mro:
        m = _methods(classes[c]['node']).get(meth)
        if m is not None:
            return c, m
    return None, None


def _lstr(s):
    return '"' + s.replace('\\', '\\\\').replace('"', '\\"') + '"'


def _llist(xs):
    return '[' + ', '.join(xs) + ']'


def _guard_term(g):
    kind, m = g
    if kind == 'delegate':
        return f'.delegate {_lstr(m)}'
    return '.' + kind


def _override_attrs(classes, report):
    node = classes.get('Univariate')
    if node is None:
        raise Untranslatable('copulas/univariate/base.py', 'class Univariate not found')
    fn = _methods(node['node']).get('_replace_constant_methods')
    if fn is None:
        raise Untranslatable(node['file'], 'Univariate._replace_constant_methods not found')
    attrs = []
    for st in _strip_doc(fn.body):
        ok = isinstance(st, ast.Assign) and len(st.targets) == 1 and _is_self_attr(st.targets[0]) \
            and _is_self_attr(st.value) and st.value.attr.startswith('_constant_')
        if not ok:
            raise Untranslatable(f'{node["file"]}:{st.lineno}',
                                 f'_replace_constant_methods statement is not `self.m = self._constant_m`: '
                                 f'{ast.unparse(st)[:70]}')
        attrs.append(st.targets[0].attr)
    report.append((node['file'], '_replace_constant_methods', fn.lineno, fn.end_lineno))
    return attrs


def _validation_checks(repo, report):
    """utils.check_valid_values: the `if <test>: raise ValueError(...)` statements before the call."""
    tree = _parse(repo, UTILS)
    outer = [n for n in tree.body if isinstance(n, ast.FunctionDef) and n.name == 'check_valid_values']
    if len(outer) != 1:
        raise Untranslatable(UTILS, 'check_valid_values not found exactly once')
    inner = [n for n in outer[0].body if isinstance(n, ast.FunctionDef)]
    if len(inner) != 1:
        raise Untranslatable(UTILS, 'check_valid_values: expected exactly one inner function')
    fn = inner[0]
    params = [a.arg for a in fn.args.args]
    if params[:2] != ['self', 'X']:
        raise Untranslatable(UTILS, f'check_valid_values wrapper parameters {params}')
    checks = []
    body = _strip_doc(fn.body)
    seen_return = False
    for st in body:
        if isinstance(st, ast.If) and isinstance(st.test, ast.Call) and ast.unparse(st.test.func) == 'isinstance':
            # W = X.to_numpy() / W = X   (unwrapping of a DataFrame)
            continue
        if isinstance(st, ast.If):
            if seen_return:
                raise Untranslatable(f'{UTILS}:{st.lineno}', 'test after the wrapped call')
            if st.orelse or len(st.body) != 1 or not isinstance(st.body[0], ast.Raise):
                raise Untranslatable(f'{UTILS}:{st.lineno}', 'validation test is not `if <test>: raise ...`')
            exc = st.body[0].exc
            ename = ast.unparse(exc.func if isinstance(exc, ast.Call) else exc)
            if ename != 'ValueError':
                raise Untranslatable(f'{UTILS}:{st.lineno}', f'validation test raises {ename}, not ValueError')
            t = ast.unparse(st.test).replace(' ', '')
            if t == 'notlen(W)':
                checks.append('empty')
            elif t == 'not(np.issubdtype(W.dtype,np.floating)ornp.issubdtype(W.dtype,np.integer))':
                checks.append('nonNumeric')
            elif t in ('np.isnan(W).any().any()', 'np.isnan(W).any()'):
                checks.append('nan')
            else:
                raise Untranslatable(f'{UTILS}:{st.lineno}', f'unknown validation test {ast.unparse(st.test)[:80]}')
            continue
        if isinstance(st, ast.Return):
            v = st.value
            ok = isinstance(v, ast.Call) and isinstance(v.func, ast.Name) and v.func.id == 'function' \
                and ast.unparse(v).replace(' ', '') == 'function(self,X,*args,**kwargs)'
            if not ok:
                raise Untranslatable(f'{UTILS}:{st.lineno}', f'wrapper return is {ast.unparse(st)[:70]}')
            seen_return = True
            continue
        raise Untranslatable(f'{UTILS}:{st.lineno}', f'unexpected statement in check_valid_values: '
                             f'{ast.unparse(st)[:70]}')
    if not seen_return:
        raise Untranslatable(UTILS, 'check_valid_values never calls the wrapped function')
    report.append((UTILS, 'check_valid_values', outer[0].lineno, outer[0].end_lineno))
    return checks


def _get_instance_shape(repo, report):
    """utils.get_instance: str -> import + call(**kwargs); type -> obj(**kwargs); instance ->
    obj.__class__(**kwargs) if kwargs else obj.__class__(*__args__, **__kwargs__).  Emits which of
    the expected constructor calls are present (a clone made any other way is `other`)."""
    tree = _parse(repo, UTILS)
    fns = [n for n in tree.body if isinstance(n, ast.FunctionDef) and n.name == 'get_instance']
    if len(fns) != 1:
        raise Untranslatable(UTILS, 'get_instance not found exactly once')
    fn = fns[0]
    assigns = [n for n in ast.walk(fn) if isinstance(n, ast.Assign) and len(n.targets) == 1
               and isinstance(n.targets[0], ast.Name) and n.targets[0].id == 'instance'
               and not (isinstance(n.value, ast.Constant) and n.value.value is None)]
    forms = []
    for a in assigns:
        t = ast.unparse(a.value).replace(' ', '')
        if t == 'getattr(importlib.import_module(package),name)(**kwargs)':
            forms.append('byName')
        elif t == 'obj(**kwargs)':
            forms.append('byClass')
        elif t == 'obj.__class__(**kwargs)':
            forms.append('byInstanceKwargs')
        elif t == 'obj.__class__(*args,**kwargs)':
            forms.append('byInstanceStored')
        else:
            forms.append('other')
    stored = [ast.unparse(n).replace(' ', '') for n in ast.walk(fn) if isinstance(n, ast.Call)
              and ast.unparse(n.func) == 'getattr']
    reads_stored = "getattr(obj,'__args__',())" in stored and "getattr(obj,'__kwargs__',{})" in stored
    report.append((UTILS, 'get_instance', fn.lineno, fn.end_lineno))
    # store_args
    sfn = [n for n in tree.body if isinstance(n, ast.FunctionDef) and n.name == 'store_args']
    if len(sfn) != 1:
        raise Untranslatable(UTILS, 'store_args not found exactly once')
    inner = [n for n in sfn[0].body if isinstance(n, ast.FunctionDef)]
    if len(inner) != 1:
        raise Untranslatable(UTILS, 'store_args: expected exactly one inner function')
    stmts = [ast.unparse(s).replace(' ', '') for s in _strip_doc(inner[0].body)]
    snap = {}
    for i, s in enumerate(stmts):
        for var in ('args', 'kwargs'):
            if s.endswith(f'=deepcopy({var})'):
                snap[var] = (s.split('=')[0], i)
    call_at = [i for i, s in enumerate(stmts) if s == '__init__(self,*args,**kwargs)']
    deep = (len(call_at) == 1 and 'args' in snap and 'kwargs' in snap
            and snap['args'][1] < call_at[0] and snap['kwargs'][1] < call_at[0]
            and f'self.__args__={snap["args"][0]}' in stmts and f'self.__kwargs__={snap["kwargs"][0]}' in stmts)
    report.append((UTILS, 'store_args', sfn[0].lineno, sfn[0].end_lineno))
    return forms, reads_stored, deep


def generate(repo):
    report = []
    classes, order = _collect_classes(repo, report)
    rows = []
    for name in order:
        c = classes[name]
        where = f'{c["file"]}:{name}'
        mro = _mro(classes, name, where)
        own = _methods(c['node'])
        owner, init = _lookup(classes, mro, '__init__')
        if init is not None:
            decs = _decorators(init, where)
            params, required = _init_info(init, where)
            store = 'store_args' in decs
        else:
            owner, params, required, store = 'object', [], [], False
        writes = []
        for m in FIT_PATH:
            o, fn = _lookup(classes, mro, m)
            if fn is not None:
                for a in _self_stores(fn):
                    if a not in NOT_STATE and a not in writes:
                        writes.append(a)
        fo, fit = _lookup(classes, mro, 'fit')
        fit_decs = _decorators(fit, where) if fit is not None else []
        fitted_last = _fitted_last(fit) if fit is not None else False
        guards = []
        for q in QUERIES:
            o, fn = _lookup(classes, mro, q)
            if fn is None:
                continue
            _decorators(fn, where)
            guards.append((q, _guard(fn, where)))
        rows.append(f'''  {{ name := {_lstr(name)}, module := {_lstr(c["module"])}, package := {_lstr(c["module"].split(".")[1])},
    qualname := {_lstr(c["module"] + "." + name)}, bases := {_llist(_lstr(b) for b in c["bases"])},
    ownInit := {"true" if "__init__" in own else "false"}, initOwner := {_lstr(owner)}, storeArgs := {"true" if store else "false"},
    params := {_llist(_lstr(p) for p in params)}, required := {_llist(_lstr(p) for p in required)},
    fitWrites := {_llist(_lstr(w) for w in writes)}, fitDecorators := {_llist(_lstr(d) for d in fit_decs)},
    fittedLast := {"true" if fitted_last else "false"},
    guards := {_llist(f"({_lstr(q)}, {_guard_term(g)})" for q, g in guards)} }}''')
    override_attrs = _override_attrs(classes, report)
    checks = _validation_checks(repo, report)
    forms, reads_stored, deep = _get_instance_shape(repo, report)
    text = f'''import CopVerif.Model.Lifecycle
/-! GENERATED by tools/regen.py (tools/gen_lifecycle.py) from the AST of /repo/copulas/univariate/*.py,
    multivariate/*.py, bivariate/*.py and utils.py on every run - do not edit. -/
namespace CopVerif.Gen.Lifecycle
open CopVerif.Model.Lifecycle

/-- one row per class: constructor (`@store_args`?, parameters), what the fit path writes on the
    instance, decorators of `fit`, and what each query method does first (resolved through the MRO). -/
def classes : List ClassInfo := [
{(",\n").join(rows)}
]

/-- instance attributes written by `Univariate._replace_constant_methods`. -/
def overrideAttrs : List String := {_llist(_lstr(a) for a in override_attrs)}

/-- the tests of `utils.check_valid_values`, in order; each raises `ValueError` before the wrapped
    `fit` body runs. -/
def validationChecks : List Check := {_llist("." + c for c in checks)}

/-- constructor calls present in `utils.get_instance`, in source order. -/
def getInstanceForms : List String := {_llist(_lstr(f) for f in forms)}
/-- the instance branch reads `__args__` / `__kwargs__` with `()` / `{{}}` defaults. -/
def getInstanceReadsStored : Bool := {"true" if reads_stored else "false"}
/-- `store_args` snapshots `deepcopy(args)`, `deepcopy(kwargs)` before calling `__init__`. -/
def storeArgsDeepCopies : Bool := {"true" if deep else "false"}

end CopVerif.Gen.Lifecycle
'''
    return text, report


if __name__ == '__main__':
    import sys
    t, rep = generate(sys.argv[1] if len(sys.argv) > 1 else '/repo')
    print(t)
    print(rep, file=sys.stderr)
