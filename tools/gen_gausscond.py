"""Translator target 'GaussCond' -> lean/CopVerif/Gen/GaussCond.lean (property C12, tie (T), DESIGN 2.2; the
unconditional path `sample(n)` = `Gen.GaussCond.sample … none` is also property C01's translator tie: Props/C01b.lean,
Lemmas/GaussSampleGen.lean, obligation tv:GaussCond of tools/props/c01.py).

Reads the AST of /repo/copulas/multivariate/gaussian.py (nothing is imported) and emits, in namespace
`CopVerif.Gen.GaussCond`, a symbolic translation of the conditional-sampling path of `GaussianMultivariate`:

    -- translated (every expression is read off the source by a small typed symbolic evaluator; locals are
    -- substituted away, so renaming a local or naming a sub-expression gives the SAME generated text)
    gcdRet0 / gcdRet1 / gcdRet2            the three components of the tuple `_get_conditional_distribution` returns
    getConditionalDistribution             the tuple
    conditionalArg                         the argument handed to `self._get_conditional_distribution(...)`
    samplerArgs                            `_get_normal_samples` up to the RNG call: branch on `conditions is None`,
                                           which (mean, cov) go into `np.random.multivariate_normal`, which labels
                                           the frame of draws gets
    getNormalSamples                       `_get_normal_samples`
    sampleColumn                           the body of the loop of `sample` for one (column_name, univariate)
    sample                                 `sample`

THE TABLE OF numpy / pandas MEANINGS (trusted; fixed text `TABLE` below; validated against the real library by
tools/props/c12.py on every run: the driver answers the same requests from these generated definitions):
    self.correlation                      -> S : Corr ι α        .columns / .index -> S.labels     self.columns -> S.labels
    <corr>.loc[R, C].to_numpy() / .values -> S.loc R C  (rows R, columns C BY LABEL)   <corr>.to_numpy() -> S.data
    a.difference(b)                       -> indexDifference le a b   (pandas SORTS the result)
    <series>.index                        -> labels of the Series, in its order;  a Series in arithmetic -> its values
    len(x) -> x.length     np.zeros(n) -> npZeros n     np.linalg.inv(A) -> inv A (parameter)
    A @ B, np.dot, np.matmul, A.dot(B)    -> matMul m k n A B  /  matVec m k A x     (shapes are inferred and checked)
    A + B, A - B -> matAdd / matSub / vecAdd / vecSub      A.T, np.transpose(A) -> transposeM
    pd.Series(conditions)                 -> the items of the caller's object, caller's order
    self._transform_to_normal(s)[0]       -> transformRow: walk the TRAINING columns, keep those present, score each with
                                             its own marginal (Model.walkedScores; property C13 ties that function)
    [x for x in A if x in B]              -> A.filter (· ∈ B)
    pd.Series(values, index=labels)       -> seriesOf labels values   (ValueError on a length mismatch)
    np.random.multivariate_normal(m, C, size=n) -> rng m C n; ValueError when m is empty (numpy reshape error)
    pd.DataFrame(draws, columns=labels)   -> the frame (labels, draws);   frame[label] -> drawCol labels draws label
    x is None / is not None, `x` as a truth value, k in conditions, conditions[k], and / or / not (short-circuit)
                                          -> optIsNone / optIsSome / optTruth / optContains / optGetItem / andE / orE / notE
    np.full(n, x) -> List.replicate n x    stats.norm.cdf(v) -> v.map phi    univariate.percent_point(v) -> v.map (ppf col)
    out = {}; for k, u in zip(self.columns, self.univariates): out[k] = e; pd.DataFrame(data=out)
                                          -> dictLoop (fun k => e) S.labels   (columns in insertion order)

PINNED (anything else raises `pyast2lean.Untranslatable`): the three methods exist with 1 / 2 / 2 positional parameters
after `self` (names free); `self.check_fit()` is the first statement of `sample`; the loop of `sample` iterates
`zip(self.columns, self.univariates)` and stores exactly one value under the loop's column name on every path; the
draws are used only as the data of the returned frame.  Statements: assignments (also tuple unpacking), `if`/`else`,
`return`.  Every local may be renamed, temporaries may be introduced or removed, independent statements reordered.
"""
import ast
import os

from pyast2lean import Untranslatable, find_class, find_method, strip_doc

TARGET = 'GaussCond'
REL = 'copulas/multivariate/gaussian.py'

TABLE = '''-- ==== table (fixed text of the translator: meanings of the numpy / pandas operations)
section table
variable {ι α : Type} [DecidableEq ι] [Add α] [Sub α] [Mul α] [NumFns α]

/-- `np.zeros(n)` -/
def npZeros (n : Nat) : List α := List.replicate n (ofNat 0)
/-- `x + y`, 1-d of length `n` -/
def vecAdd (n : Nat) (x y : List α) : List α :=
  (List.range n).map fun i => x.getD i (ofNat 0) + y.getD i (ofNat 0)
/-- `x - y`, 1-d of length `n` -/
def vecSub (n : Nat) (x y : List α) : List α :=
  (List.range n).map fun i => x.getD i (ofNat 0) - y.getD i (ofNat 0)
/-- `A @ x` for `A : m × k`, `x` of length `k` -/
def matVec (m k : Nat) (A : List (List α)) (x : List α) : List α :=
  (List.range m).map fun i => sumRange k fun l => entry A i l * x.getD l (ofNat 0)
/-- `A + B` for `m × n` matrices -/
def matAdd (m n : Nat) (A B : List (List α)) : List (List α) :=
  table m n fun i j => entry A i j + entry B i j
/-- `A.T` for `A : m × n` -/
def transposeM (m n : Nat) (A : List (List α)) : List (List α) :=
  table n m fun i j => entry A j i
/-- `a.difference(b)` on a pandas `Index`: the labels of `a` not in `b`, SORTED -/
def indexDifference (le : ι → ι → Bool) (a b : List ι) : List ι :=
  (a.filter fun c => decide (c ∉ b)).mergeSort le
/-- `pd.Series(values, index=index)` -/
def seriesOf (index : List ι) (values : List α) : Except Err (List (ι × α)) :=
  if values.length = index.length then .ok (index.zip values) else .error .valueError
/-- `self._transform_to_normal(<Series with these items>)[0]`; `np.column_stack([])` raises -/
def transformRow (cols : List ι) (score : ι → α → α) (items : List (ι × α)) : Except Err (List α) :=
  if (walkedScores cols score items).isEmpty then .error .valueError
  else .ok ((walkedScores cols score items).map Prod.snd)
/-- the arguments of `np.random.multivariate_normal(mean, cov, size=…)` and the labels the frame of draws gets;
    numpy raises `ValueError` for an empty `mean` -/
def mvnArgs (mean : List α) (cov : List (List α)) (columns : List ι) : Except Err (CondDist ι α) :=
  if mean.isEmpty then .error .valueError else .ok { mean := mean, cov := cov, columns := columns }
/-- `pd.Series(conditions)` -/
def optItems : Option (Conditions ι α) → List (ι × α)
  | none => []
  | some c => c.items
def optIsNone (o : Option (Conditions ι α)) : Bool := o.isNone
def optIsSome (o : Option (Conditions ι α)) : Bool := o.isSome
/-- `bool(conditions)`: a `dict` is true when non-empty, a `pandas.Series` raises -/
def optTruth : Option (Conditions ι α) → Except Err Bool
  | none => .ok false
  | some c => match c.kind with
    | .dict => .ok (!c.items.isEmpty)
    | .series => .error .valueError
/-- `label in conditions` (keys of a dict / index of a Series) -/
def optContains : Option (Conditions ι α) → ι → Except Err Bool
  | none, _ => .error .typeError
  | some c, l => .ok (decide (l ∈ c.keys))
/-- `conditions[label]` -/
def optGetItem : Option (Conditions ι α) → ι → Except Err α
  | none, _ => .error .typeError
  | some c, l => match c.items.lookup l with
    | some x => .ok x
    | none => .error .other
/-- `a and b` / `a or b` / `not a` (short-circuit; either side may raise) -/
def andE (a b : Except Err Bool) : Except Err Bool :=
  match a with
  | .error e => .error e
  | .ok t => if t then b else .ok false
def orE (a b : Except Err Bool) : Except Err Bool :=
  match a with
  | .error e => .error e
  | .ok t => if t then .ok true else b
def notE (a : Except Err Bool) : Except Err Bool :=
  match a with
  | .error e => .error e
  | .ok t => .ok (!t)
/-- `out = {}; for k in ks: out[k] = body k; pd.DataFrame(data=out)`: columns in insertion order; the first error aborts -/
def dictLoop (body : ι → Except Err (List α)) : List ι → Except Err (List (ι × List α))
  | [] => .ok []
  | k :: rest =>
    match body k with
    | .error e => .error e
    | .ok x =>
      match dictLoop body rest with
      | .error e => .error e
      | .ok xs => .ok ((k, x) :: xs)
end table
'''


def _w(node):
    return f'{REL}:{getattr(node, "lineno", "?")}'


def _bad(node, what):
    raise Untranslatable(_w(node), what)


def _src(node, n=90):
    return ' '.join(ast.unparse(node).split())[:n]


class V:
    """a symbolic value: Lean term + type.  Types: ('labels',) ('vec', dim) ('mat', r, c) ('dfmat', r, c) ('series',)
    ('corr',) ('nat',) ('scalar',) ('opt',) ('frame',) ('tuple', [V]) ('dict', [(key, V)]) ('ttn', items) ('label',)
    ('univ', labelterm) ('loc',) ('draws', payload)"""

    def __init__(self, term, *ty):
        self.term, self.ty = term, ty

    @property
    def kind(self):
        return self.ty[0]


def labels_dim(v):
    return f'{v.term}.length'


def series_labels(v):
    return V(f'({v.term}.map Prod.fst)', 'labels')


def series_values(v):
    return V(f'({v.term}.map Prod.snd)', 'vec', f'({v.term}.map Prod.fst).length')


# tree nodes
class Leaf:
    def __init__(self, v):
        self.v = v


class Bind:
    def __init__(self, var, term, rest):
        self.var, self.term, self.rest = var, term, rest


class IfE:
    def __init__(self, cond, a, b):
        self.cond, self.a, self.b = cond, a, b


class OptSplit:
    def __init__(self, name, none, some):
        self.name, self.none, self.some = name, none, some


class Ctx:
    """per-function translation state"""

    def __init__(self, gen):
        self.gen = gen
        self.nvar = 0
        self.nlam = 0
        self.events = []       # (kind, payload, binds-so-far)

    def fresh(self):
        self.nvar += 1
        return f'v{self.nvar - 1}'

    def lam(self):
        self.nlam += 1
        return f'x{self.nlam - 1}'


class Interp:
    def __init__(self, gen, ctx):
        self.gen, self.ctx = gen, ctx
        self.hist = []         # effectful bindings made so far on the current path

    # ------------------------------------------------------------------ expressions
    def ev(self, e, env, pend):
        m = getattr(self, 'ev_' + type(e).__name__, None)
        if m is None:
            _bad(e, f'expression {type(e).__name__}: {_src(e)}')
        return m(e, env, pend)

    def ev_Name(self, e, env, pend):
        if e.id not in env:
            _bad(e, f'name `{e.id}` is not a parameter and not assigned before this use')
        return env[e.id]

    def ev_Constant(self, e, env, pend):
        if e.value is None:
            return V('none', 'nonelit')
        if isinstance(e.value, int) and not isinstance(e.value, bool):
            return V(str(e.value), 'intlit', e.value)
        _bad(e, f'constant {e.value!r}')

    def ev_Tuple(self, e, env, pend):
        return V(None, 'tuple', [self.ev(x, env, pend) for x in e.elts])

    def ev_Attribute(self, e, env, pend):
        if isinstance(e.value, ast.Name) and e.value.id == 'self' and 'self' not in env:
            if e.attr == 'correlation':
                return V('S', 'corr')
            if e.attr == 'columns':
                return V('S.labels', 'labels')
            if e.attr == 'univariates':
                return V(None, 'univs')
            _bad(e, f'attribute self.{e.attr}')
        if isinstance(e.value, ast.Name) and e.value.id in ('np', 'pd', 'stats') and e.value.id not in env:
            _bad(e, f'module attribute {_src(e)} outside a call')
        v = self.ev(e.value, env, pend)
        if e.attr in ('columns', 'index') and v.kind == 'corr':
            return V('S.labels', 'labels')
        if e.attr == 'index' and v.kind == 'series':
            return series_labels(v)
        if e.attr == 'columns' and v.kind == 'frame':
            return V(f'{v.term}.1', 'labels')
        if e.attr == 'loc' and v.kind == 'corr':
            return V(v.term, 'loc')
        if e.attr == 'values':
            return self.to_numpy(e, v)
        if e.attr == 'T':
            return self.transpose(e, v)
        _bad(e, f'attribute .{e.attr} of a {v.kind}: {_src(e)}')

    def to_numpy(self, node, v):
        if v.kind == 'dfmat':
            return V(v.term, 'mat', v.ty[1], v.ty[2])
        if v.kind == 'corr':
            return V('S.data', 'mat', 'S.labels.length', 'S.labels.length')
        if v.kind == 'series':
            return series_values(v)
        if v.kind in ('mat', 'vec'):
            return v
        _bad(node, f'.to_numpy() / .values of a {v.kind}')

    def transpose(self, node, v):
        if v.kind == 'mat':
            return V(f'(transposeM {v.ty[1]} {v.ty[2]} {v.term})', 'mat', v.ty[2], v.ty[1])
        if v.kind == 'vec':
            return v
        _bad(node, f'transpose of a {v.kind}')

    def as_vec(self, v):
        if v.kind == 'series':
            return series_values(v)
        return v

    def arith(self, node, op, a, b):
        a, b = self.as_vec(a), self.as_vec(b)
        name = {'+': 'Add', '-': 'Sub'}[op]
        if a.kind == 'mat' and b.kind == 'mat':
            if a.ty[1:] != b.ty[1:]:
                _bad(node, f'shapes differ in `{_src(node)}`: {a.ty[1:]} vs {b.ty[1:]}')
            return V(f'(mat{name} {a.ty[1]} {a.ty[2]} {a.term} {b.term})', 'mat', a.ty[1], a.ty[2])
        if a.kind == 'vec' and b.kind == 'vec':
            if a.ty[1] != b.ty[1]:
                _bad(node, f'lengths differ in `{_src(node)}`: {a.ty[1]} vs {b.ty[1]}')
            return V(f'(vec{name} {a.ty[1]} {a.term} {b.term})', 'vec', a.ty[1])
        _bad(node, f'`{op}` between a {a.kind} and a {b.kind}: {_src(node)}')

    def matmul(self, node, a, b):
        b = self.as_vec(b)
        if a.kind == 'mat' and b.kind == 'mat':
            if a.ty[2] != b.ty[1]:
                _bad(node, f'inner dimensions differ in `{_src(node)}`: {a.ty[2]} vs {b.ty[1]}')
            return V(f'(matMul {a.ty[1]} {a.ty[2]} {b.ty[2]} {a.term} {b.term})', 'mat', a.ty[1], b.ty[2])
        if a.kind == 'mat' and b.kind == 'vec':
            if a.ty[2] != b.ty[1]:
                _bad(node, f'inner dimensions differ in `{_src(node)}`: {a.ty[2]} vs {b.ty[1]}')
            return V(f'(matVec {a.ty[1]} {a.ty[2]} {a.term} {b.term})', 'vec', a.ty[1])
        _bad(node, f'matrix product of a {a.kind} and a {b.kind}: {_src(node)}')

    def ev_BinOp(self, e, env, pend):
        a, b = self.ev(e.left, env, pend), self.ev(e.right, env, pend)
        if isinstance(e.op, ast.MatMult):
            return self.matmul(e, a, b)
        if isinstance(e.op, ast.Add):
            return self.arith(e, '+', a, b)
        if isinstance(e.op, ast.Sub):
            return self.arith(e, '-', a, b)
        _bad(e, f'operator {type(e.op).__name__} in {_src(e)}')

    def ev_Subscript(self, e, env, pend):
        base = self.ev(e.value, env, pend)
        if base.kind == 'loc':
            if not (isinstance(e.slice, ast.Tuple) and len(e.slice.elts) == 2):
                _bad(e, f'.loc with other than [rows, columns]: {_src(e)}')
            r, c = (self.ev(x, env, pend) for x in e.slice.elts)
            if r.kind != 'labels' or c.kind != 'labels':
                _bad(e, f'.loc[{r.kind}, {c.kind}]: both selectors must be label lists')
            return V(f'(S.loc {r.term} {c.term})', 'dfmat', labels_dim(r), labels_dim(c))
        if base.kind == 'ttn':
            if not (isinstance(e.slice, ast.Constant) and e.slice.value == 0):
                _bad(e, f'row {_src(e.slice)} of _transform_to_normal(<one row>)')
            var = self.ctx.fresh()
            pend.append((var, f'transformRow S.labels score {base.ty[1]}'))
            return V(var, 'vec', f'{var}.length')
        idx = self.ev(e.slice, env, pend)
        if base.kind == 'frame' and idx.kind == 'label':
            return V(f'(drawCol {base.term}.1 {base.term}.2 {idx.term})', 'vec', f'{base.term}.2.length')
        if base.kind == 'opt' and idx.kind == 'label':
            var = self.ctx.fresh()
            pend.append((var, f'optGetItem {base.term} {idx.term}'))
            return V(var, 'scalar')
        _bad(e, f'subscript of a {base.kind} by a {idx.kind}: {_src(e)}')

    def ev_ListComp(self, e, env, pend):
        if len(e.generators) != 1 or e.generators[0].is_async or not isinstance(e.generators[0].target, ast.Name):
            _bad(e, f'comprehension {_src(e)}')
        g = e.generators[0]
        if not (isinstance(e.elt, ast.Name) and e.elt.id == g.target.id):
            _bad(e, f'comprehension element is not the loop variable: {_src(e)}')
        it = self.ev(g.iter, env, pend)
        if it.kind != 'labels':
            _bad(e, f'comprehension over a {it.kind}')
        x = self.ctx.lam()
        env2 = dict(env)
        env2[g.target.id] = V(x, 'label')
        term = it.term
        for c in g.ifs:
            ok = isinstance(c, ast.Compare) and len(c.ops) == 1 and isinstance(c.ops[0], (ast.In, ast.NotIn)) \
                and isinstance(c.left, ast.Name) and c.left.id == g.target.id
            if not ok:
                _bad(c, f'comprehension filter {_src(c)}')
            coll = self.ev(c.comparators[0], env2, pend)
            if coll.kind == 'series':
                coll = series_labels(coll)
            if coll.kind != 'labels':
                _bad(c, f'membership in a {coll.kind}')
            rel = '∈' if isinstance(c.ops[0], ast.In) else '∉'
            term = f'({term}.filter fun {x} => decide ({x} {rel} {coll.term}))'
        return V(term, 'labels')

    def kw(self, e, names):
        out = {}
        for k in e.keywords:
            if k.arg not in names:
                _bad(e, f'keyword {k.arg}= in {_src(e)}')
            out[k.arg] = k.value
        return out

    def ev_Call(self, e, env, pend):
        f = e.func
        fs = _src(f)
        # --- module functions
        if fs == 'len' and len(e.args) == 1 and not e.keywords:
            v = self.ev(e.args[0], env, pend)
            if v.kind == 'series':
                v = series_labels(v)
            if v.kind != 'labels':
                _bad(e, f'len of a {v.kind}')
            return V(labels_dim(v), 'nat')
        if fs == 'np.zeros' and len(e.args) == 1 and not e.keywords:
            n = self.ev(e.args[0], env, pend)
            if n.kind != 'nat':
                _bad(e, f'np.zeros of a {n.kind}')
            return V(f'(npZeros {n.term})', 'vec', n.term)
        if fs == 'np.linalg.inv' and len(e.args) == 1 and not e.keywords:
            a = self.ev(e.args[0], env, pend)
            if a.kind != 'mat' or a.ty[1] != a.ty[2]:
                _bad(e, f'np.linalg.inv of a {a.kind} {a.ty[1:]}')
            return V(f'(inv {a.term})', 'mat', a.ty[1], a.ty[2])
        if fs in ('np.dot', 'np.matmul') and len(e.args) == 2 and not e.keywords:
            return self.matmul(e, self.ev(e.args[0], env, pend), self.ev(e.args[1], env, pend))
        if fs in ('np.add', 'np.subtract') and len(e.args) == 2 and not e.keywords:
            return self.arith(e, '+' if fs == 'np.add' else '-', self.ev(e.args[0], env, pend), self.ev(e.args[1], env, pend))
        if fs == 'np.transpose' and len(e.args) == 1 and not e.keywords:
            return self.transpose(e, self.ev(e.args[0], env, pend))
        if fs in ('np.asarray', 'np.array') and len(e.args) == 1 and not e.keywords:
            return self.to_numpy(e, self.ev(e.args[0], env, pend))
        if fs == 'np.full' and len(e.args) == 2 and not e.keywords:
            n, x = self.ev(e.args[0], env, pend), self.ev(e.args[1], env, pend)
            if n.kind != 'nat' or x.kind != 'scalar':
                _bad(e, f'np.full({n.kind}, {x.kind})')
            return V(f'(List.replicate {n.term} {x.term})', 'vec', n.term)
        if fs == 'stats.norm.cdf' and len(e.args) == 1 and not e.keywords:
            x = self.ev(e.args[0], env, pend)
            if x.kind != 'vec':
                _bad(e, f'stats.norm.cdf of a {x.kind}')
            return V(f'({x.term}.map phi)', 'vec', x.ty[1])
        if fs == 'pd.Series':
            kws = self.kw(e, ('data', 'index'))
            args = list(e.args)
            data = args[0] if args else kws.get('data')
            index = args[1] if len(args) > 1 else kws.get('index')
            if data is None or len(args) > 2:
                _bad(e, f'pd.Series call {_src(e)}')
            d = self.ev(data, env, pend)
            if index is None:
                if d.kind == 'opt':
                    if d.term == '(some c)':
                        return V('c.items', 'series')
                    return V(f'(optItems {d.term})', 'series')
                if d.kind == 'series':
                    return d
                _bad(e, f'pd.Series of a {d.kind}')
            i = self.ev(index, env, pend)
            if i.kind == 'series':
                i = series_labels(i)
            d = self.as_vec(d)
            if d.kind != 'vec' or i.kind != 'labels':
                _bad(e, f'pd.Series({d.kind}, index={i.kind})')
            var = self.ctx.fresh()
            pend.append((var, f'seriesOf {i.term} {d.term}'))
            return V(var, 'series')
        if fs == 'pd.DataFrame':
            kws = self.kw(e, ('data', 'columns'))
            args = list(e.args)
            data = args[0] if args else kws.get('data')
            cols = kws.get('columns')
            if data is None or len(args) > 1:
                _bad(e, f'pd.DataFrame call {_src(e)}')
            d = self.ev(data, env, pend)
            if d.kind == 'dict' and cols is None:
                return d
            if d.kind == 'draws' and cols is not None:
                c = self.ev(cols, env, pend)
                if c.kind != 'labels':
                    _bad(e, f'pd.DataFrame(columns={c.kind})')
                return V(None, 'drawframe', d.ty[1], c)
            _bad(e, f'pd.DataFrame({d.kind}{", columns=…" if cols is not None else ""})')
        if fs == 'np.random.multivariate_normal':
            kws = self.kw(e, ('mean', 'cov', 'size'))
            args = list(e.args)
            mean = args[0] if args else kws.get('mean')
            cov = args[1] if len(args) > 1 else kws.get('cov')
            size = args[2] if len(args) > 2 else kws.get('size')
            if mean is None or cov is None or size is None or len(args) > 3:
                _bad(e, f'np.random.multivariate_normal call {_src(e)}')
            m, c, n = self.ev(mean, env, pend), self.to_numpy(e, self.ev(cov, env, pend)), self.ev(size, env, pend)
            if m.kind != 'vec' or c.kind != 'mat' or n.kind != 'nat':
                _bad(e, f'np.random.multivariate_normal({m.kind}, {c.kind}, size={n.kind})')
            if None not in (m.ty[1], c.ty[1], c.ty[2]) and not (m.ty[1] == c.ty[1] == c.ty[2]):
                _bad(e, f'shapes of mean and cov differ: {m.ty[1]} vs {c.ty[1:]}')
            if n.term != 'n':
                _bad(e, f'size={_src(size)} is not the number of rows asked for')
            return V(None, 'draws', (m, c, None))
        # --- methods of self
        if isinstance(f, ast.Attribute) and isinstance(f.value, ast.Name) and f.value.id == 'self':
            if e.keywords:
                _bad(e, f'keyword arguments in {_src(e)}')
            if f.attr == '_transform_to_normal' and len(e.args) == 1:
                x = self.ev(e.args[0], env, pend)
                if x.kind != 'series':
                    _bad(e, f'_transform_to_normal of a {x.kind}')
                return V(None, 'ttn', x.term)
            if f.attr == '_get_conditional_distribution' and len(e.args) == 1:
                x = self.ev(e.args[0], env, pend)
                if x.kind != 'series':
                    _bad(e, f'_get_conditional_distribution of a {x.kind}')
                self.ctx.events.append(('gcd-arg', x.term, list(self.hist) + list(pend)))
                call = f'(getConditionalDistribution inv le S {x.term})'
                tys = self.gen.gcd_types
                proj = ['.1', '.2.1', '.2.2'] if len(tys) == 3 else None
                if proj is None:
                    _bad(e, 'internal: tuple arity')
                comps = []
                for p, t in zip(proj, tys):
                    if t == 'labels':
                        comps.append(V(f'{call}{p}', 'labels'))
                    elif t == 'vec':
                        comps.append(V(f'{call}{p}', 'vec', None))
                    else:
                        comps.append(V(f'{call}{p}', 'mat', None, None))
                return V(None, 'tuple', comps)
            if f.attr == '_get_normal_samples' and len(e.args) == 2:
                n, c = self.ev(e.args[0], env, pend), self.ev(e.args[1], env, pend)
                if n.kind != 'nat' or c.kind != 'opt':
                    _bad(e, f'_get_normal_samples({n.kind}, {c.kind})')
                var = self.ctx.fresh()
                pend.append((var, f'getNormalSamples inv le score rng S {n.term} {c.term}'))
                return V(var, 'frame')
            _bad(e, f'call self.{f.attr}')
        # --- methods of values
        if isinstance(f, ast.Attribute):
            recv = self.ev(f.value, env, pend)
            if f.attr == 'to_numpy' and not e.args and not e.keywords:
                return self.to_numpy(e, recv)
            if f.attr == 'difference' and len(e.args) == 1 and not e.keywords:
                o = self.ev(e.args[0], env, pend)
                if o.kind == 'series':
                    o = series_labels(o)
                if recv.kind != 'labels' or o.kind != 'labels':
                    _bad(e, f'{recv.kind}.difference({o.kind})')
                return V(f'(indexDifference le {recv.term} {o.term})', 'labels')
            if f.attr == 'dot' and len(e.args) == 1 and not e.keywords:
                return self.matmul(e, recv, self.ev(e.args[0], env, pend))
            if f.attr == 'transpose' and not e.args and not e.keywords:
                return self.transpose(e, recv)
            if f.attr == 'percent_point' and len(e.args) == 1 and not e.keywords and recv.kind == 'univ':
                x = self.ev(e.args[0], env, pend)
                if x.kind != 'vec':
                    _bad(e, f'percent_point of a {x.kind}')
                return V(f'({x.term}.map (ppf {recv.ty[1]}))', 'vec', x.ty[1])
            _bad(e, f'method .{f.attr} of a {recv.kind}: {_src(e)}')
        _bad(e, f'call {_src(e)}')

    # ------------------------------------------------------------------ conditions -> Lean `Except Err Bool`
    def cond(self, c, env, pend):
        if isinstance(c, ast.BoolOp):
            terms = [self.cond(v, env, pend) for v in c.values]
            fn = 'andE' if isinstance(c.op, ast.And) else 'orE'
            t = terms[-1]
            for x in reversed(terms[:-1]):
                t = f'({fn} {x} {t})'
            return t
        if isinstance(c, ast.UnaryOp) and isinstance(c.op, ast.Not):
            return f'(notE {self.cond(c.operand, env, pend)})'
        if isinstance(c, ast.Compare) and len(c.ops) == 1:
            op = c.ops[0]
            a, b = self.ev(c.left, env, pend), self.ev(c.comparators[0], env, pend)
            if isinstance(op, (ast.Is, ast.IsNot)) and b.kind == 'nonelit' and a.kind == 'opt':
                return f'(.ok ({"optIsNone" if isinstance(op, ast.Is) else "optIsSome"} {a.term}))'
            if isinstance(op, (ast.In, ast.NotIn)) and a.kind == 'label' and b.kind == 'opt':
                t = f'(optContains {b.term} {a.term})'
                return t if isinstance(op, ast.In) else f'(notE {t})'
            _bad(c, f'comparison {_src(c)} ({a.kind} {type(op).__name__} {b.kind})')
        v = self.ev(c, env, pend)
        if v.kind == 'opt':
            return f'(optTruth {v.term})'
        _bad(c, f'truth value of a {v.kind}: {_src(c)}')

    # ------------------------------------------------------------------ statements
    def block(self, stmts, env, final):
        if not stmts:
            return final(env)
        s, rest = stmts[0], stmts[1:]
        if isinstance(s, ast.Expr) and isinstance(s.value, ast.Constant) and isinstance(s.value.value, str):
            return self.block(rest, env, final)
        if isinstance(s, ast.Expr) and _src(s.value) == 'self.check_fit()':
            return self.block(rest, env, final)
        if isinstance(s, ast.Assign) and len(s.targets) == 1:
            t = s.targets[0]
            pend = []
            if isinstance(t, ast.Name):
                if isinstance(s.value, ast.Dict) and not s.value.keys:
                    v = V(None, 'dict', [])
                else:
                    v = self.ev(s.value, env, pend)
                env2 = dict(env)
                env2[t.id] = v
                return self.then(pend, lambda: self.block(rest, env2, final))
            if isinstance(t, ast.Tuple) and all(isinstance(x, ast.Name) for x in t.elts):
                v = self.ev(s.value, env, pend)
                if v.kind != 'tuple' or len(v.ty[1]) != len(t.elts):
                    _bad(s, f'unpacking a {v.kind} into {len(t.elts)} names')
                env2 = dict(env)
                for x, comp in zip(t.elts, v.ty[1]):
                    env2[x.id] = comp
                return self.then(pend, lambda: self.block(rest, env2, final))
            if isinstance(t, ast.Subscript) and isinstance(t.value, ast.Name) and t.value.id in env \
                    and env[t.value.id].kind == 'dict':
                key = self.ev(t.slice, env, pend)
                val = self.ev(s.value, env, pend)
                if key.kind != 'label':
                    _bad(s, f'dict key is a {key.kind}')
                env2 = dict(env)
                env2[t.value.id] = V(None, 'dict', env[t.value.id].ty[1] + [(key.term, val)])
                return self.then(pend, lambda: self.block(rest, env2, final))
            _bad(s, f'assignment target {_src(t)}')
        if isinstance(s, ast.If):
            c = s.test
            # `if <param> is None:` on the caller's optional object: split on the option
            if isinstance(c, ast.Compare) and len(c.ops) == 1 and isinstance(c.ops[0], (ast.Is, ast.IsNot)) \
                    and isinstance(c.left, ast.Name) and c.left.id in env and env[c.left.id].kind == 'opt' \
                    and env[c.left.id].term == 'conditions' \
                    and isinstance(c.comparators[0], ast.Constant) and c.comparators[0].value is None:
                none_b, some_b = (s.body, s.orelse) if isinstance(c.ops[0], ast.Is) else (s.orelse, s.body)
                env_none = dict(env)
                env_none[c.left.id] = V('(none : Option (Conditions ι α))', 'opt')
                env_some = dict(env)
                env_some[c.left.id] = V('(some c)', 'opt')
                return OptSplit('conditions', self.block(list(none_b) + rest, env_none, final),
                                self.block(list(some_b) + rest, env_some, final))
            pend = []
            ct = self.cond(c, env, pend)
            return self.then(pend, lambda: IfE(ct, self.block(list(s.body) + rest, env, final),
                                               self.block(list(s.orelse) + rest, env, final)))
        if isinstance(s, ast.Return):
            if rest:
                _bad(rest[0], 'statement after return')
            pend = []
            v = self.ev(s.value, env, pend) if s.value is not None else V(None, 'nonelit')
            return self.then(pend, lambda: Leaf(v))
        if isinstance(s, ast.For):
            return self.loop(s, rest, env, final)
        _bad(s, f'statement {type(s).__name__}: {_src(s)}')

    def then(self, pend, k):
        """the bindings `pend`, then the tree `k()` (translated with them in the path history)"""
        n = len(self.hist)
        self.hist.extend(pend)
        tree = k()
        del self.hist[n:]
        for var, term in reversed(pend):
            tree = Bind(var, term, tree)
        return tree

    def loop(self, s, rest, env, final):
        _bad(s, 'a `for` loop here')


# ---------------------------------------------------------------------------------------- rendering
def render(tree, leaf, ind):
    p = '  ' * ind
    if isinstance(tree, Leaf):
        return p + leaf(tree.v)
    if isinstance(tree, Bind):
        return (f'{p}match {tree.term} with\n{p}| .error e => .error e\n{p}| .ok {tree.var} =>\n'
                + render(tree.rest, leaf, ind))
    if isinstance(tree, IfE):
        return (f'{p}match {tree.cond} with\n{p}| .error e => .error e\n{p}| .ok t =>\n{p}  if t then (\n'
                + render(tree.a, leaf, ind + 2) + f'\n{p}  ) else (\n' + render(tree.b, leaf, ind + 2) + f'\n{p}  )')
    if isinstance(tree, OptSplit):
        return (f'{p}match {tree.name} with\n{p}| none => (\n' + render(tree.none, leaf, ind + 1)
                + f'\n{p}  )\n{p}| some c => (\n' + render(tree.some, leaf, ind + 1) + f'\n{p}  )')
    raise AssertionError(tree)


def lean_type(v):
    return {'labels': 'List ι', 'vec': 'List α', 'mat': 'List (List α)'}[v.kind]


class Gen:
    def __init__(self, repo):
        path = os.path.join(repo, REL)
        with open(path) as f:
            self.tree = ast.parse(f.read(), filename=path)
        self.cls = find_class(self.tree, 'GaussianMultivariate')
        self.report = []
        self.gcd_types = None

    def method(self, name, nparams, decorators=()):
        try:
            fn = find_method(self.cls, name)
        except KeyError:
            raise Untranslatable(f'{REL}:{self.cls.lineno}', f'GaussianMultivariate has no method {name}')
        a = fn.args
        if a.vararg or a.kwarg or a.kwonlyargs or a.posonlyargs or len(a.args) != nparams + 1 or a.args[0].arg != 'self':
            _bad(fn, f'{name}: expected (self + {nparams} positional parameters)')
        decs = tuple(_src(d) for d in fn.decorator_list)
        if decs != tuple(decorators):
            _bad(fn, f'{name}: decorators {decs}, expected {tuple(decorators)}')
        self.report.append((REL, name, fn.lineno, fn.end_lineno))
        return fn, [x.arg for x in a.args[1:]], strip_doc(fn.body)

    # ---- _get_conditional_distribution
    def gcd(self):
        fn, (pc,), body = self.method('_get_conditional_distribution', 1)
        ctx = Ctx(self)
        it = Interp(self, ctx)
        tree = it.block(body, {pc: V('conditions', 'series')}, lambda env: _bad(fn, 'falls off the end without return'))
        if not isinstance(tree, Leaf) or tree.v.kind != 'tuple' or len(tree.v.ty[1]) != 3:
            _bad(fn, '_get_conditional_distribution is not straight-line code returning a 3-tuple')
        comps = tree.v.ty[1]
        for c in comps:
            if c.kind not in ('labels', 'vec', 'mat'):
                _bad(fn, f'a returned component is a {c.kind}')
        self.gcd_types = [c.kind for c in comps]
        out = []
        sig = '(inv : List (List α) → List (List α)) (le : ι → ι → Bool) (S : Corr ι α) (conditions : List (ι × α))'
        for i, c in enumerate(comps):
            what = {'labels': 'labels', 'vec': f'vector of length `{c.ty[1] if c.kind == "vec" else ""}`',
                    'mat': 'matrix'}[c.kind]
            out.append(f'/-- `_get_conditional_distribution` ({REL}:{fn.lineno}): component {i} of the returned tuple '
                       f'({c.kind}). -/\ndef gcdRet{i} {sig} :\n    {lean_type(c)} :=\n  {c.term}\n')
        tys = ' × '.join(lean_type(c) for c in comps)
        out.append(f'/-- `_get_conditional_distribution(conditions)`; `conditions` is a Series of (label, score). -/\n'
                   f'def getConditionalDistribution {sig} :\n    {tys} :=\n  ('
                   + ', '.join(f'gcdRet{i} inv le S conditions' for i in range(3)) + ')\n')
        return '\n'.join(out)

    # ---- _get_normal_samples
    def gns(self):
        fn, (pn, pc), body = self.method('_get_normal_samples', 2)
        ctx = Ctx(self)
        it = Interp(self, ctx)
        env = {pn: V('n', 'nat'), pc: V('conditions', 'opt')}
        tree = it.block(body, env, lambda env: _bad(fn, 'falls off the end without return'))

        def leaf(v):
            if v.kind != 'drawframe':
                _bad(fn, f'_get_normal_samples returns a {v.kind}, not pd.DataFrame(<the draws>, columns=…)')
            m, c, _ = v.ty[1]
            return f'mvnArgs {m.term} {c.term} {v.ty[2].term}'
        sig = ('(inv : List (List α) → List (List α)) (le : ι → ι → Bool) (score : ι → α → α) (S : Corr ι α)\n'
               '    (conditions : Option (Conditions ι α))')
        text = (f'/-- `_get_normal_samples` ({REL}:{fn.lineno}) up to the call of `np.random.multivariate_normal`: which mean\n'
                f'    and covariance are handed to the sampler and which labels the frame of draws gets. -/\n'
                f'def samplerArgs {sig} :\n    Except Err (CondDist ι α) :=\n' + render(tree, leaf, 1) + '\n')
        args = [ev for ev in ctx.events if ev[0] == 'gcd-arg']
        if len(args) > 2:
            _bad(fn, f'{len(args)} calls of _get_conditional_distribution')
        # the argument of the call, under the binds made before it (all in the `some` arm)
        if args:
            _, term, pend = args[0]
            t = Leaf(V(term, 'series'))
            for var, tm in reversed(pend):
                t = Bind(var, tm, t)
            body_txt = render(t, lambda v: f'.ok {v.term}', 1)
        else:
            body_txt = '  .error .other'
        text += ('\n/-- the Series handed to `self._get_conditional_distribution(…)` when `conditions` is the object `c`. -/\n'
                 'def conditionalArg (score : ι → α → α) (S : Corr ι α) (c : Conditions ι α) :\n'
                 '    Except Err (List (ι × α)) :=\n' + body_txt + '\n')
        text += (f'\n/-- `_get_normal_samples(num_rows, conditions)` ({REL}:{fn.lineno}-{fn.end_lineno}): the frame\n'
                 '    `pd.DataFrame(np.random.multivariate_normal(mean, cov, size=num_rows), columns=columns)` as (labels, rows). -/\n'
                 'def getNormalSamples (inv : List (List α) → List (List α)) (le : ι → ι → Bool) (score : ι → α → α)\n'
                 '    (rng : List α → List (List α) → Nat → List (List α)) (S : Corr ι α) (n : Nat)\n'
                 '    (conditions : Option (Conditions ι α)) : Except Err (List ι × List (List α)) :=\n'
                 '  match samplerArgs inv le score S conditions with\n  | .error e => .error e\n'
                 '  | .ok d => .ok (d.columns, rng d.mean d.cov n)\n')
        return text

    # ---- sample
    def sample(self):
        fn, (pn, pc), body = self.method('sample', 2, decorators=('random_state',))
        defaults = [_src(d) for d in fn.args.defaults]
        if defaults != ['1', 'None']:
            _bad(fn, f'sample: defaults {defaults}, expected num_rows=1, conditions=None')
        if not body or _src(body[0]) != 'self.check_fit()':
            _bad(fn, 'sample: the first statement is not `self.check_fit()`')
        gen = self
        ctx = Ctx(self)

        class SampleInterp(Interp):
            def loop(self, s, rest, env, final):
                if s.orelse or _src(s.iter) != 'zip(self.columns, self.univariates)':
                    _bad(s, f'loop source `{_src(s.iter)}` is not zip(self.columns, self.univariates)')
                if not (isinstance(s.target, ast.Tuple) and len(s.target.elts) == 2
                        and all(isinstance(x, ast.Name) for x in s.target.elts)):
                    _bad(s, f'loop target {_src(s.target)}')
                col, uni = (x.id for x in s.target.elts)
                dicts = [k for k, v in env.items() if v.kind == 'dict']
                if len(dicts) != 1 or env[dicts[0]].ty[1]:
                    _bad(s, 'expected exactly one empty dict (the output) before the loop')
                dname = dicts[0]
                bctx = Ctx(gen)
                bi = Interp(gen, bctx)
                benv = {k: v for k, v in env.items()}
                benv[col] = V('col', 'label')
                benv[uni] = V(None, 'univ', 'col')
                # outer values the body may use, by their role
                for k, v in list(benv.items()):
                    if v.kind == 'frame':
                        benv[k] = V('samples', 'frame')

                def bfinal(e2):
                    stored = e2[dname].ty[1]
                    if len(stored) != 1 or stored[0][0] != 'col':
                        _bad(s, f'a path through the loop body stores {len(stored)} values / not under the loop\'s column name')
                    return Leaf(stored[0][1])
                btree = bi.block(list(s.body), benv, bfinal)

                def bleaf(v):
                    if v.kind != 'vec':
                        _bad(s, f'a column of the output is a {v.kind}')
                    return f'.ok {v.term}'
                gen.body_text = (
                    f'/-- body of the loop of `sample` ({REL}:{s.lineno}-{s.end_lineno}) for the training column `col` (and its own\n'
                    '    univariate): the value stored under `col`. -/\n'
                    'def sampleColumn (n : Nat) (ppf : ι → α → α) (phi : α → α) (conditions : Option (Conditions ι α))\n'
                    '    (samples : List ι × List (List α)) (col : ι) : Except Err (List α) :=\n'
                    + render(btree, bleaf, 1) + '\n')
                frames = [v for v in env.values() if v.kind == 'frame']
                if len(frames) != 1:
                    _bad(s, 'expected exactly one frame of draws before the loop')
                env2 = dict(env)
                env2[dname] = V(f'dictLoop (fun col => sampleColumn n ppf phi conditions {frames[0].term} col) S.labels', 'dict', None)
                return self.block(rest, env2, final)

        it = SampleInterp(self, ctx)
        env = {pn: V('n', 'nat'), pc: V('conditions', 'opt')}
        self.body_text = None
        tree = it.block(body, env, lambda env: _bad(fn, 'falls off the end without return'))
        if self.body_text is None:
            _bad(fn, 'sample: no loop over zip(self.columns, self.univariates)')

        def leaf(v):
            if v.kind != 'dict' or v.ty[1] is not None:
                _bad(fn, 'sample does not return pd.DataFrame(data=<the dict filled by the loop>)')
            return v.term
        text = self.body_text + (
            f'\n/-- `sample(num_rows, conditions)` ({REL}:{fn.lineno}-{fn.end_lineno}); `none` = `conditions=None`. -/\n'
            'def sample (inv : List (List α) → List (List α)) (le : ι → ι → Bool) (score ppf : ι → α → α) (phi : α → α)\n'
            '    (rng : List α → List (List α) → Nat → List (List α)) (S : Corr ι α) (n : Nat)\n'
            '    (conditions : Option (Conditions ι α)) : Except Err (List (ι × List α)) :=\n' + render(tree, leaf, 1) + '\n')
        return text


def generate(repo):
    g = Gen(repo)
    gcd = g.gcd()
    gns = g.gns()
    smp = g.sample()
    text = f'''import CopVerif.Model.GaussCond
/-! GENERATED by tools/regen.py (tools/gen_gausscond.py) from the AST of /repo/{REL} on every run - do not edit.
    Symbolic translation of `GaussianMultivariate._get_conditional_distribution`, `_get_normal_samples`, `sample`.
    Section `table` is fixed text of the translator (the trusted meanings of the numpy / pandas operations, over the
    list-of-rows matrices and label lists of `CopVerif/Model/GaussCond.lean`); everything after `-- ==== translated`
    is read off the Python source (locals substituted away). -/
set_option linter.unusedVariables false
namespace CopVerif.Gen.GaussCond
open CopVerif NumFns
open CopVerif.Model.GaussCond

{TABLE}
-- ==== translated
section translated
variable {{ι α : Type}} [DecidableEq ι] [Add α] [Sub α] [Mul α] [NumFns α]

{gcd}
{gns}
{smp}
end translated
end CopVerif.Gen.GaussCond
'''
    return text, g.report


if __name__ == '__main__':
    import sys
    t, rep = generate(sys.argv[1] if len(sys.argv) > 1 else '/repo')
    print(t)
    print(rep, file=sys.stderr)
