#!/venv/bin/python
"""./check <Cxx> [--tier quick|thorough] [--replay file]   |   ./check --setup

Obligation life-cycle (DESIGN 2.3): regenerate the translated model from /repo, build the property's
theorems, audit axioms, run translation validation / correspondence against the real code, replay
known findings; if any obligation is broken run the failing-input search on the real code and
print `VIOLATION property=<id> replay=<path>[ no-failing-input-found]`.
Exit 0 = held, 1 = violation, 2 = infrastructure failure.
"""
import argparse
import importlib
import json
import os
import sys
import time
import traceback
import warnings

sys.path.insert(0, os.path.dirname(os.path.abspath(__file__)))
import vcommon as vc  # noqa: E402
import regen  # noqa: E402
import pins  # noqa: E402

warnings.filterwarnings('ignore')



def all_modules():
    mods = []
    for root, _, files in os.walk(os.path.join(vc.LEAN, 'CopVerif')):
        for fn in sorted(files):
            if fn.endswith('.lean'):
                rel = os.path.relpath(os.path.join(root, fn), vc.LEAN)[:-5]
                mods.append(rel.replace(os.sep, '.'))
    return sorted(mods)


def setup():
    """Regenerate Gen/ and build every Lean module the claimed checks need (Props + drivers)."""
    t0 = time.time()
    res = regen.regen_all(vc.REPO)
    for r in res:
        print(f'regen {r["target"]}: {"ok" if r["ok"] else "FAILED " + r["detail"]}')
    manifest = json.load(open(os.path.join(vc.VERIF, 'MANIFEST.json')))
    targets = []
    for c in manifest.get('checks', []):
        pid = c['property_id']
        targets += [f'CopVerif.Props.{m}' for m in vc.props_modules(pid)] or [f'CopVerif.Props.{pid}']
        try:
            mod = importlib.import_module(f'props.{pid.lower()}')
            targets += list(getattr(mod, 'DRIVER_TARGETS', []))
        except Exception as e:  # noqa
            print(f'setup: cannot import props.{pid.lower()}: {e}')
    targets = sorted(set(targets))
    ok, broken, dt, out = vc.lake_build(targets, timeout=7200)
    print(out[-3000:])
    print(f'setup: lake build of {len(targets)} targets {"ok" if ok else "FAILED"} in {dt:.0f}s (total {time.time() - t0:.0f}s)')
    return 0 if ok else 2


def finalize(ctx, mod):
    known = vc.load_known()
    kf = [k for k in known.get('findings', []) if k['property'] == ctx.prop]
    known_classes = {k['class']: k for k in kf}
    new_fail = [f for f in ctx.failing if f['class'] not in known_classes]
    hit_classes = sorted({f['class'] for f in ctx.failing if f['class'] in known_classes})
    broken = ctx.broken()
    lines = []
    violations = 0
    for c in hit_classes:
        lines.append(f'KNOWN-FINDING: property={ctx.prop} {known_classes[c]["what"]}')
    # de-duplicate new failures by class, one replay per class
    seen = set()
    for f in new_fail:
        if f['class'] in seen:
            continue
        seen.add(f['class'])
        payload = {'property': ctx.prop, 'kind': 'failing-input', 'entry_point': f['entry_point'],
                   'class': f['class'], 'input': vc.jsonable(f['input']), 'observed': vc.jsonable(f['observed']),
                   'required': f['required'], 'seed': ctx.seed, 'tier': ctx.tier, 'repo_head': vc.repo_head(),
                   'broken_obligations': [o['name'] for o in broken]}
        path = vc.write_replay(ctx.prop, payload)
        lines.append(f'VIOLATION property={ctx.prop} replay={path}')
        violations += 1
    if broken and not new_fail:
        payload = {'property': ctx.prop, 'kind': 'broken-obligation',
                   'obligations': broken, 'seed': ctx.seed, 'tier': ctx.tier, 'repo_head': vc.repo_head(),
                   'search': ctx.support, 'note': 'the property is no longer shown to hold: these theorems / '
                   'bridges / correspondences no longer check, and the failing-input search on the real code '
                   'found no concrete counter-example'}
        path = vc.write_replay(ctx.prop, payload)
        lines.append(f'VIOLATION property={ctx.prop} replay={path} no-failing-input-found')
        violations += 1
    # evidence
    proof_obs = [o for o in ctx.obligations]
    ev = {
        'property_id': ctx.prop, 'tier': ctx.tier, 'seed': ctx.seed, 'level': 'proof',
        'coverage': {
            'obligations': len(proof_obs), 'discharged': sum(1 for o in proof_obs if o['ok']),
            'checker_cmd': ' ; '.join(ctx.checker_cmds) or 'lake build',
            'trusted_base': vc.TRUSTED_BASE + getattr(mod, 'TRUSTED_EXTRA', []),
            'evaluations': ctx.evaluations, 'distinct_nontrivial': len(ctx.nontrivial),
            'rule': getattr(mod, 'RULE', ''), 'samples': ctx.samples[:8],
            'obligation_list': [{'name': o['name'], 'kind': o['kind'], 'ok': o['ok']} for o in proof_obs],
            'branch_histogram': ctx.hist, 'partial_theorems': getattr(mod, 'PARTIAL', []),
            'known_findings_reproduced': hit_classes, 'known_findings_not_reproduced': ctx.known_absent,
            'support_search': ctx.support, 'notes': ctx.notes,
        },
        'assumptions': getattr(mod, 'ASSUMPTIONS', []),
        'wall_s': round(time.time() - ctx.t0, 2), 'violations': violations,
    }
    # a run against a scratch copy of the repository (COPULAS_REPO) must not overwrite the evidence of /repo itself
    evid_dir = vc.EVID if os.path.realpath(vc.REPO) == '/repo' else os.path.join(vc.EVID, 'scratch-runs')
    os.makedirs(evid_dir, exist_ok=True)
    with open(os.path.join(evid_dir, f'{ctx.prop}.json'), 'w') as f:
        json.dump(vc.jsonable(ev), f, indent=1)
    for ln in lines:
        print(ln)
    nb = len(broken)
    print(f'{ctx.prop} [{ctx.tier}] obligations {len(proof_obs) - nb}/{len(proof_obs)} discharged, '
          f'{ctx.evaluations} evaluations, {len(ctx.nontrivial)} distinct non-trivial, '
          f'{len(hit_classes)} known findings, {violations} violations, {time.time() - ctx.t0:.0f}s')
    if broken:
        for o in broken[:12]:
            print(f'  broken: {o["kind"]}:{o["name"]}: {o["detail"][:200]}')
    return 1 if violations else 0


def run_check(prop, tier, seed, replay=None):
    ctx = vc.Ctx(prop, tier, seed)
    mod = importlib.import_module(f'props.{prop.lower()}')
    if replay:
        return run_replay(ctx, mod, replay)
    # 0. source pins: has the code this property is anchored in changed since the models were written?
    try:
        anchors = set()
        for line in open(os.path.join(vc.VERIF, 'properties.jsonl')):
            pr = json.loads(line)
            if pr['id'] == prop:
                anchors = set(pr['anchors']['files'])
        moved = pins.changed(vc.REPO, anchors)
    except Exception:  # noqa
        moved = []
    if moved:
        ctx.notes.append('source units changed since pins.json: ' + ', '.join(moved[:12]) +
                         ' -> correspondence at thorough scale and deep search (not a violation by itself)')
        ctx.scale = max(ctx.scale, 6)
        ctx.pins_moved = moved
    # 1. regenerate translated model from the working tree
    only = None
    if os.path.realpath(vc.REPO) != '/repo' and os.path.realpath(vc.VERIF) == '/verif':
        # a run of the shared /verif against a scratch copy of the repository (mutation experiments): regenerate
        # only this property's targets, so that generated files other running checks depend on are left alone
        only = set(getattr(mod, 'GEN_TARGETS', ()))
    for r in regen.regen_all(vc.REPO, only):
        if r['target'] in getattr(mod, 'GEN_TARGETS', ()):
            ctx.ob(f'translate:{r["target"]}', r['ok'], 'translate', r['detail'])
    # 2. build theorems
    targets = [f'CopVerif.Props.{m}' for m in vc.props_modules(prop)] or [f'CopVerif.Props.{prop}']
    ok, broken, dt, out = vc.lake_build(targets)
    ctx.checker_cmds.append(f'cd lean && lake build {" ".join(targets)}')
    pairs = vc.props_theorems(prop)
    names = [n for _, n in pairs]
    props_files = {f'CopVerif/Props/{m}.lean' for m in vc.props_modules(prop)}
    bad_decls = {}
    for b in broken:
        bad_decls.setdefault((b['file'], b['decl']), b)
    upstream_broken = [b for b in broken if b['file'] not in props_files or b['decl'] not in names]
    for b in {(b['file'], b['decl']): b for b in upstream_broken}.values():
        ctx.ob(f'{b["file"]}:{b["decl"]}', False, 'lean', f'line {b["line"]}: {b["message"]}')
    for n in names:
        bad = [b for b in broken if b['file'] in props_files and b['decl'] == n]
        if bad:
            ctx.ob(n, False, 'theorem', f'line {bad[0]["line"]}: {bad[0]["message"]}')
        elif not ok:
            why = ('an upstream module failed: ' + '; '.join(f'{b["file"]}:{b["decl"]}' for b in upstream_broken[:4])) \
                if upstream_broken else 'another theorem of this file failed, so the module was not produced and this ' \
                'theorem could not be audited'
            ctx.ob(n, False, 'theorem', 'not built: ' + why)
    # 3. audit
    axioms = {}
    if ok:
        axioms, problems = vc.audit(prop)
        ctx.checker_cmds.append(f'lake env lean Audit{prop}.lean (#print axioms on {len(names)} theorems)')
        for n in names:
            bad = [p for p in problems if f'theorem {n} ' in p]
            ctx.ob(n, not bad, 'theorem', '; '.join(bad) if bad else 'axioms: ' + ', '.join(axioms.get(n, [])))
        other = [p for p in problems if not any(f'theorem {n} ' in p for n in names)]
        ctx.ob('audit:forbidden-tokens', not other, 'audit', '; '.join(other[:5]))
    # 4. tie: driver
    lean = None
    dtargets = getattr(mod, 'DRIVER_TARGETS', [])
    dok, dbroken = True, []
    if dtargets:
        dok, dbroken, _, dout = vc.lake_build(dtargets)
    if not dtargets:
        pass
    elif dok:
        try:
            lean = vc.LeanDriver(mod.DRIVER_MAIN)
        except Exception as e:
            ctx.ob('driver:start', False, 'tie', str(e))
    else:
        ctx.ob('driver:build', False, 'tie', '; '.join(f'{b["file"]}:{b["line"]} {b["message"]}' for b in dbroken[:4]))
    try:
        try:
            mod.run(ctx, lean)
        except Exception:
            # the correspondence harness itself crashed on this tree (a changed code shape can do that): a broken
            # obligation, and the failing-input search below still runs on the real code
            ctx.ob('harness:exception', False, 'tie', traceback.format_exc()[-900:])
        # 5. failing-input search: always in thorough; in quick when something is broken
        if ctx.broken() or tier == 'thorough' or getattr(mod, 'ALWAYS_SEARCH', False) or getattr(ctx, 'pins_moved', None):
            deep = bool(ctx.broken()) or tier == 'thorough' or bool(getattr(ctx, 'pins_moved', None))
            try:
                mod.search(ctx, deep)
            except Exception:
                ctx.ob('harness:search-exception', False, 'tie', traceback.format_exc()[-900:])
    finally:
        if lean is not None:
            lean.close()
    if tier == 'thorough' and ok:
        try:
            import subprocess
            t0 = time.time()
            p = subprocess.run(['lake', 'env', 'leanchecker'] + targets, cwd=vc.LEAN,
                               capture_output=True, text=True, timeout=3000)
            ctx.checker_cmds.append(f'lake env leanchecker CopVerif.Props.{prop}')
            ctx.ob('leanchecker', p.returncode == 0, 'audit', (p.stdout + p.stderr)[-300:])
        except Exception as e:
            ctx.notes.append(f'leanchecker not run: {e}')
    return finalize(ctx, mod)


def run_replay(ctx, mod, path):
    payload = json.load(open(path if os.path.isabs(path) else os.path.join(vc.VERIF, path)))
    if payload.get('kind') == 'failing-input' and hasattr(mod, 'replay'):
        still = mod.replay(ctx, payload)
        if still:
            print(f'VIOLATION property={ctx.prop} replay={path}')
            return 1
        print(f'replay {path}: the recorded input no longer fails')
        return 0
    # broken-obligation replay: re-run the whole check
    return run_check(ctx.prop, ctx.tier, ctx.seed)


def main():
    ap = argparse.ArgumentParser()
    ap.add_argument('prop', nargs='?')
    ap.add_argument('--tier', default=os.environ.get('VERIF_TIER', 'quick'))
    ap.add_argument('--replay')
    ap.add_argument('--setup', action='store_true')
    a = ap.parse_args()
    os.chdir(vc.VERIF)
    if a.setup:
        sys.exit(setup())
    seed = int(os.environ.get('VERIF_SEED', '0') or 0)
    try:
        sys.exit(run_check(a.prop, a.tier if a.tier in ('quick', 'thorough') else 'quick', seed, a.replay))
    except SystemExit:
        raise
    except Exception:
        traceback.print_exc()
        sys.exit(2)


if __name__ == '__main__':
    main()
