"""Regenerate lean/CopVerif/Gen/Effects.lean: the **write-effect IR** (C20, DESIGN 5 "C20") of every
public entry point of `copulas` and of every function of `copulas` reachable from one.

Abstraction (flow-insensitive, field-based may-alias analysis; call-site sensitive for small helpers):

* every Python local gets SSA versions (`x#0`, `x#1`, ...); joins of branches and loop back-edges are
  extra `alias` edges; names captured by nested functions or assigned under `try` are single cells;
* every value travels on two channels: the variable `x` (the object itself) and its *content* variable
  `x°` (everything reachable INSIDE the object: list elements, dict values, attributes).  Storing `v` into
  a container `c` adds `c° := v, v°` (NOT `c := v`: appending to a list that holds a parameter is not a
  write to the parameter); loading an element / iterating / a view gives `e := c, c°`.  The content
  variables of the entry point's parameters are caller-owned too (deep ownership);
* `alias x y`  - assignment of a name / attribute / basic index or slice / `.T` / `.to_numpy()` /
  `np.asarray` / `pd.DataFrame(x)` / tuple unpacking / element of an iterable;
* `fresh x`    - `.copy()`, arithmetic, fancy or boolean indexing, `np.array(..)`, shallow-copy
  constructors (`list(x)`, `sorted(x)`: new container, same contents), constructor calls, results of
  whitelisted pure externals, container displays;
* `write x`    - subscript or attribute store into `x`, augmented assignment on `x` (unless `x` is a
  known immutable scalar), mutating methods (`append/insert/add/update/remove/sort/pop/extend/clear/
  fill/...`), `inplace=True`, `out=`, every argument of an *unknown* external function;
* `call f args rets` - callee inside `copulas`: resolved statically where the receiver is known
  (`self`, `super()`, a class name, a local built by a constructor, an attribute under which only known
  callables/classes were ever stored) and by *method name over all classes* otherwise; callables that
  are STORED somewhere (bound methods kept in attributes or lists, closures handed to `copulas` code) are
  possible targets of every call whose callee cannot be resolved; callables handed directly to external
  solvers (`brentq(f, ..)`, `sorted(key=..)`) are called back on values aliasing the other arguments;
* `self.<attr>` (any `<obj>.<attr>` where `<attr>` is an attribute defined in `copulas`) is ONE global
  variable `@attr`: storing into it is not a write to a caller-owned object, but aliasing a parameter
  into it and writing through it later (even in another public call: see the session check) is caught;
* decorators of `copulas.utils` are instantiated per decorated function (the wrapper body with
  `function` bound to the wrapped function, perfect forwarding of `*args/**kwargs`);
* after translation every call to a small non-recursive closure-free function gets a private clone of
  the callee (`inline_small`), so that e.g. the views returned by `split_matrix(X)` to different
  callers are not merged.

Anything that cannot be classified raises `pyast2lean.Untranslatable` (=> broken obligation).
The program is shipped to Lean as text (`Model.Effects.decodeModule`); variable 0 is "nothing".

Assumptions recorded for the harness (ASSUMPTIONS): parameters whose default is an int/float/str/bool
literal are immutable scalars; callables supplied by the caller (the `f` of the root finders) do not
mutate their arguments (their result may alias them); `a + b` / `a * b` is arithmetic unless an operand
is a list display or `list(..)`; the tables below state the effect of numpy/scipy/pandas/plotly calls.
"""
import ast
import os
import re

from pyast2lean import Untranslatable

PKG = 'copulas'

# --------------------------------------------------------------------------------------------
# Public entry points (C20: fit, pdf/cdf/percent_point/partial_derivative, sample, select_copula,
# the root finders, the dataset generators, the visualisation helpers)
MODEL_METHODS = ['fit', 'probability_density', 'pdf', 'log_probability_density', 'cumulative_distribution',
                 'cdf', 'percent_point', 'ppf', 'partial_derivative', 'sample', 'generator',
                 'check_marginal', 'partial_derivative_scalar',
                 # constructor arguments stay caller-owned for the whole life of the model: the harness checks
                 # `__init__` together with every other entry point of the class (one statement set)
                 '__init__']
ENTRY_CLASSES = [
    ('copulas.bivariate.clayton', 'Clayton'), ('copulas.bivariate.frank', 'Frank'),
    ('copulas.bivariate.gumbel', 'Gumbel'), ('copulas.bivariate.independence', 'Independence'),
    ('copulas.bivariate.base', 'Bivariate'),
    ('copulas.univariate.base', 'Univariate'), ('copulas.univariate.gaussian', 'GaussianUnivariate'),
    ('copulas.univariate.beta', 'BetaUnivariate'), ('copulas.univariate.gamma', 'GammaUnivariate'),
    ('copulas.univariate.gaussian_kde', 'GaussianKDE'),
    ('copulas.univariate.truncated_gaussian', 'TruncatedGaussian'),
    ('copulas.univariate.student_t', 'StudentTUnivariate'), ('copulas.univariate.uniform', 'UniformUnivariate'),
    ('copulas.univariate.log_laplace', 'LogLaplace'),
    ('copulas.multivariate.gaussian', 'GaussianMultivariate'), ('copulas.multivariate.vine', 'VineCopula'),
    ('copulas.multivariate.tree', 'Tree'),
]
ENTRY_EXTRA_METHODS = {'Bivariate': ['select_copula'], 'Tree': []}
ENTRY_ONLY = {'Tree': ['fit']}                     # helper class exported by copulas.multivariate
ENTRY_FUNCTIONS = [
    ('copulas.optimize', 'bisect'), ('copulas.optimize', 'chandrupatla'),
    ('copulas.bivariate', 'select_copula'), ('copulas.bivariate', '_compute_empirical'),
    ('copulas.bivariate', '_compute_tail'), ('copulas.bivariate', '_compute_candidates'),
    ('copulas.bivariate.utils', 'split_matrix'),
    ('copulas.visualization', 'dist_1d'), ('copulas.visualization', 'compare_1d'),
    ('copulas.visualization', 'scatter_2d'), ('copulas.visualization', 'compare_2d'),
    ('copulas.visualization', 'scatter_3d'), ('copulas.visualization', 'compare_3d'),
] + [('copulas.datasets', n) for n in (
    'sample_bivariate_age_income', 'sample_trivariate_xyz', 'sample_univariate_bernoulli',
    'sample_univariate_bimodal', 'sample_univariate_uniform', 'sample_univariate_normal',
    'sample_univariate_degenerate', 'sample_univariate_exponential', 'sample_univariate_beta',
    'sample_univariates')]

# --------------------------------------------------------------------------------------------
# Effect tables for everything outside `copulas`
# kind: 'fresh'  result is a new object, arguments untouched
#       'alias'  result may share memory with / hold its arguments, arguments untouched
#       'cb'     like 'fresh', and callable arguments are invoked on values aliasing the other arguments
#       'w0'     writes its first argument
EXTERNAL = [
    (r'numpy\.(array|zeros|ones|empty|full|arange|linspace|identity|eye|zeros_like|ones_like|empty_like|full_like)$', 'fresh'),
    (r'numpy\.(log|exp|sqrt|power|abs|absolute|sign|sum|mean|std|var|min|max|amin|amax|argmax|argmin|argsort|sort|unique|'
     r'isnan|isfinite|isinf|logical_and|logical_or|logical_not|where|nonzero|any|all|clip|minimum|maximum|choose|'
     r'column_stack|concatenate|stack|vstack|hstack|append|cumsum|diff|dot|matmul|outer|shape|size|ndim|issubdtype|finfo|'
     r'iinfo|dtype|nan_to_num|copy|round|floor|ceil|isclose|allclose|array_equal|percentile|quantile|median|cov|'
     r'corrcoef|tile|repeat|searchsorted|histogram|prod|log1p|expm1|tanh|float64|int64|float32|bool_|isscalar)$', 'fresh'),
    (r'numpy\.linalg\.(inv|cond|cholesky|eigh|eigvalsh|det|norm|solve|pinv)$', 'fresh'),
    (r'numpy\.(asarray|asanyarray|ascontiguousarray|ravel|reshape|squeeze|transpose|atleast_1d|atleast_2d|'
     r'expand_dims|broadcast_to|swapaxes|moveaxis|diag|diagonal|real|imag)$', 'alias'),
    (r'numpy\.fromiter$', 'alias'),
    (r'numpy\.random\.(uniform|randint|normal|random|random_sample|rand|randn|multivariate_normal|exponential|'
     r'choice|get_state|set_state|RandomState|seed|beta|gamma|permutation)$', 'fresh'),
    (r'numpy\.(random\.shuffle|fill_diagonal|put|place|copyto|putmask)$', 'w0'),
    (r'pandas\.(DataFrame|Series|Index)$', 'alias'),
    (r'pandas\.(concat|isna|isnull|notna|unique|to_numeric)$', 'fresh'),
    (r'scipy\.stats\.(kendalltau|spearmanr|pearsonr)$', 'fresh'),
    (r'scipy\.stats\.kstest$', 'cb'),
    (r'scipy\.stats\.gaussian_kde$', 'alias'),
    (r'scipy\.stats\.[A-Za-z_]+\.(fit|pdf|cdf|ppf|rvs|logpdf|logcdf|sf|isf|nnlf|mean|std|var)$', 'fresh'),
    (r'scipy\.special\.(ndtr|ndtri|erf|erfc|gamma|gammaln)$', 'fresh'),
    (r'scipy\.optimize\.(brentq|least_squares|fmin_slsqp|minimize|root_scalar|bisect|newton)$', 'cb'),
    (r'scipy\.integrate\.quad$', 'cb'),
    (r'plotly\.express\.(scatter|scatter_3d|line|histogram)$', 'fresh'),
    (r'plotly\.figure_factory\.create_distplot$', 'fresh'),
    (r'warnings\.(warn|simplefilter|catch_warnings|filterwarnings)$', 'fresh'),
    (r'logging\.getLogger$', 'fresh'),
    (r'copy\.(deepcopy|copy)$', 'fresh'),
    (r'importlib\.import_module$', 'fresh'),
    (r'functools\.wraps$', 'fresh'),
    (r'(pickle|json)\.(load|loads|dumps)$', 'fresh'),
    (r'dict\.fromkeys$', 'alias'),
    (r'str\.(join|format|maketrans)$', 'fresh'),
]
EXTERNAL = [(re.compile(p), k) for p, k in EXTERNAL]

BUILTIN_FRESH = {'len', 'int', 'float', 'str', 'bool', 'range', 'isinstance', 'issubclass', 'hasattr', 'abs',
                 'round', 'type', 'repr', 'print', 'id', 'hash', 'callable', 'sum', 'any', 'all', 'open', 'divmod',
                 'pow', 'ord', 'chr', 'format',
                 # shallow copies: a NEW container (DESIGN: constructor calls are fresh)
                 'list', 'tuple', 'set', 'dict', 'frozenset', 'sorted', 'bytes', 'object', 'complex', 'slice'}
BUILTIN_SHALLOW = {'list', 'tuple', 'set', 'dict', 'frozenset', 'sorted'}
BUILTIN_ALIAS = {'zip', 'enumerate', 'reversed', 'iter', 'next', 'min', 'max', 'map', 'filter', 'vars'}
BUILTIN_CB = {'sorted', 'min', 'max', 'map', 'filter'}       # take a callable (`key=` or first argument)
EXC_NAMES = {'ValueError', 'TypeError', 'NotImplementedError', 'AttributeError', 'Exception', 'KeyError',
             'IndexError', 'RuntimeError', 'RuntimeWarning', 'DeprecationWarning', 'UserWarning', 'AssertionError',
             'StopIteration', 'ImportError', 'FutureWarning', 'ZeroDivisionError', 'OverflowError'}

# methods of objects that are not (known to be) `copulas` instances, by NAME
MUTATING_METHODS = {'append', 'insert', 'add', 'update', 'remove', 'sort', 'pop', 'extend', 'clear', 'fill',
                    'setdefault', 'popitem', 'discard', 'reverse', 'resize', 'itemset', 'put', 'partition_inplace',
                    'update_traces', 'update_layout', 'update_xaxes', 'update_yaxes', 'update_scenes', 'add_trace',
                    'add_traces', 'set_state', 'seed', 'shuffle', 'setflags', 'byteswap', '__setitem__',
                    '__delitem__', '__iadd__', 'difference_update', 'intersection_update',
                    'symmetric_difference_update', 'rename_axis_inplace', 'set_index_inplace'}
POP_LIKE = {'pop', 'popitem', 'setdefault'}                   # also return an element of the receiver
PURE_METHODS = {'copy', 'astype', 'sum', 'mean', 'std', 'var', 'min', 'max', 'any', 'all', 'clip', 'tolist', 'dot',
                'argsort', 'argmax', 'argmin', 'rank', 'corr', 'cov', 'upper', 'lower', 'format', 'join', 'split',
                'rsplit', 'partition', 'startswith', 'endswith', 'strip', 'replace', 'difference', 'union',
                'intersection', 'issubset', 'issuperset', 'isdisjoint', 'resample', 'evaluate', 'rvs', 'pdf', 'cdf',
                'ppf', 'logpdf', 'logcdf', 'nnlf', 'fit', 'info', 'debug', 'warning', 'error', 'isin', 'nunique',
                'unique', 'cumsum', 'cumprod', 'round', 'fillna', 'dropna', 'get_state', 'flatten', 'item', 'count',
                'index', 'isna', 'isnull', 'notna', 'abs', 'prod', 'to_dict', 'to_list', 'sort_values', 'sort_index',
                'reset_index', 'drop', 'rename', 'assign', 'apply', 'sample', 'quantile', 'median', 'describe',
                'nonzero', 'cumulative_distribution', 'probability_density', 'percent_point', 'load', 'dump',
                'encode', 'decode', 'title', 'isdigit', 'searchsorted', 'repeat', 'conj', 'trace', 'total_seconds',
                'random', 'uniform', 'normal', 'randint', 'choice', '__subclasses__', 'mro', 'is_integer',
                'select_dtypes', 'get_loc', 'get_indexer', 'reindex', 'where', 'mask', 'nlargest', 'nsmallest', 'melt', 'merge', 'to_records',
                'to_frame_copy', 'convert_dtypes', 'duplicated', 'drop_duplicates', 'equals', 'between', 'agg',
                'kurt', 'skew', 'idxmax', 'idxmin', 'pct_change', 'shift', 'rolling_mean', 'to_json', 'to_string'}
ALIAS_METHODS = {'to_numpy', 'reshape', 'ravel', 'squeeze', 'transpose', 'view', 'to_frame', 'items', 'values',
                 'keys', 'get', 'iterrows', 'itertuples', 'head', 'tail', 'swapaxes', '__getitem__', 'iteritems',
                 'groupby', 'first', 'last', 'take_view', 'infer_objects', 'set_axis_view'}
ELEMENT_METHODS = {'get', 'values', 'items', 'keys', 'iterrows', 'itertuples', 'first', 'last', 'iteritems',
                   '__getitem__'}
SHALLOW_METHODS = {'copy', 'tolist', 'to_dict', 'to_list', 'difference', 'union', 'intersection'}
# attributes of foreign objects
VIEW_ATTRS = {'T', 'values', 'flat', 'real', 'imag', 'columns', 'index', 'loc', 'iloc', 'at', 'iat', 'data', 'x',
              'dataset', 'covariance', 'weights', 'base', 'array', 'layout', 'str', 'dt', 'mT',
              '__dict__'}     # the attribute namespace of an object: removing entries is fine, see `dict_guard`
IMMUTABLE_ATTRS = {'shape', 'dtype', 'size', 'ndim', 'name', '__name__', '__class__', '__module__', '__members__',
                   '__bases__', 'eps', 'nbytes', 'itemsize', 'empty', 'value', '__qualname__', '__doc__', 'dtypes',
                   'inv_cov', 'factor', 'n', 'd', 'neff', 'success', 'fun', 'status', 'message'}

COPULAS_DECORATORS = {'copulas.utils.store_args', 'copulas.utils.random_state', 'copulas.utils.check_valid_values',
                      'copulas.utils.vectorize', 'copulas.utils.scalarize'}
# decorators outside copulas that do not change which objects the function reads or writes
# (memoisation returns the SAME result object again: results of memoised functions are scalars here)
TRANSPARENT_DECORATORS = {'contextlib.contextmanager', 'abc.abstractmethod', 'functools.lru_cache', 'functools.cache'}
NOTHING = 0      # variable 0: bound to nothing, never assigned, never written


def U(where, what):
    return Untranslatable(where, what)


# --------------------------------------------------------------------------------------------
class ClassInfo:
    def __init__(self, mod, node):
        self.mod, self.node, self.name = mod, node, node.name
        self.qual = f'{mod.name}.{node.name}'
        self.methods = {}
        self.attrs = {}
        self.bases = []          # ClassInfo (copulas) only
        self.ext_bases = []
        self.subs = []
        for s in node.body:
            if isinstance(s, (ast.FunctionDef,)):
                self.methods[s.name] = s
            elif isinstance(s, ast.Assign):
                for t in s.targets:
                    if isinstance(t, ast.Name):
                        self.attrs[t.id] = s.value

    def mro(self):
        out, work = [], [self]
        while work:
            c = work.pop(0)
            if c not in out:
                out.append(c)
                work.extend(c.bases)
        return out

    def descendants(self):
        out, work = [], list(self.subs)
        while work:
            c = work.pop(0)
            if c not in out:
                out.append(c)
                work.extend(c.subs)
        return out

    def is_enum(self):
        return any(b == 'enum.Enum' for b in self.ext_bases) or any(b.is_enum() for b in self.bases)


class ModInfo:
    def __init__(self, name, path, rel, src):
        self.name, self.path, self.rel = name, path, rel
        self.tree = ast.parse(src)
        self.imports, self.funcs, self.classes, self.consts = {}, {}, {}, {}
        self.is_pkg = os.path.basename(path) == '__init__.py'
        for s in self.tree.body:
            self.scan_import(s, self.imports)
            if isinstance(s, ast.FunctionDef):
                self.funcs[s.name] = s
            elif isinstance(s, ast.ClassDef):
                self.classes[s.name] = ClassInfo(self, s)
            elif isinstance(s, ast.Assign):
                for t in s.targets:
                    if isinstance(t, ast.Name):
                        self.consts[t.id] = s.value

    def scan_import(self, s, table):
        if isinstance(s, ast.Import):
            for a in s.names:
                if a.asname:
                    table[a.asname] = a.name
                else:
                    table[a.name.split('.')[0]] = a.name.split('.')[0]
        elif isinstance(s, ast.ImportFrom):
            base = s.module or ''
            if s.level:
                parts = self.name.split('.')
                if not self.is_pkg:
                    parts = parts[:-1]
                parts = parts[:len(parts) - (s.level - 1)]
                base = '.'.join(parts + ([s.module] if s.module else []))
            for a in s.names:
                table[a.asname or a.name] = f'{base}.{a.name}'


class FnSpec:
    """something translatable to one IR function"""

    def __init__(self, key, node, mod, cls=None, closure=None, bound=None, wrapper_of=None, static=False,
                 is_lambda=False):
        self.key, self.node, self.mod, self.cls = key, node, mod, cls
        self.closure = closure or {}      # name -> var id (cells of the enclosing function)
        self.bound = bound or {}          # name -> FnSpec key (decorator templates: `function`)
        self.wrapper_of = wrapper_of      # FnSpec of the wrapped function (signature donor)
        self.static = static
        self.is_lambda = is_lambda
        self.closure_self = None          # (cls) when a nested function sees the enclosing `self`

    nested_depth = 0


class IRFn:
    def __init__(self, idx, spec):
        self.idx, self.spec = idx, spec
        self.params = []        # (python name, var id, kind) kind in 'pos','vararg','kwonly','kwarg'
        self.defaults = set()   # names having a default
        self.ret = None
        self.body = []
        self.scalar = set()     # parameter names treated as immutable scalars
        self.done = False
        self.locals = set()
        self.has_nested = False
        self.cloned_from = None


class Analysis:
    def __init__(self, repo):
        self.repo = repo
        self.mods = {}
        self.ext_callable_attrs = set()
        self.attr_refs = {}      # attribute name -> callables / classes stored under it (in it, for containers)
        self.attr_opaque = set() # attribute names under which an unknown value was stored
        self.reset()
        self.load()

    def reset(self):
        """forget the IR of the previous round (the knowledge about attributes is kept: it only grows)"""
        self.varnames = ['<nothing>']
        self.fns = {}            # key -> IRFn
        self.order = []
        self.specs = {}          # key -> FnSpec
        self.queue = []
        self.escaped = []        # keys of functions referenced as values
        self.unresolved = []     # call sites whose callee is unknown
        self.attr_vars = {}      # attribute name -> var id
        self.content = {}        # var id -> content var id
        self.is_content = set()
        self.attr_uses = set()
        self.attr_refs_changed = False
        self.owner = {}          # var id -> IRFn that owns it (locals are renamed when a function is cloned)
        self.unknown_external = set()
        # closures carry variable ids of the previous round: an attribute that held one becomes opaque
        for attr, refs in self.attr_refs.items():
            keep = [r for r in refs if not (r[0] == 'func' and (r[1].nested_depth or r[1].closure))]
            if len(keep) != len(refs):
                self.attr_opaque.add(attr)
            self.attr_refs[attr] = keep

    def attr_state(self):
        return (sorted((a, len(r)) for a, r in self.attr_refs.items()), sorted(self.attr_opaque))

    # ------------------------------------------------------------------ loading
    def load(self):
        root = os.path.join(self.repo, PKG)
        for d, _, files in sorted(os.walk(root)):
            for fn in sorted(files):
                if not fn.endswith('.py'):
                    continue
                path = os.path.join(d, fn)
                rel = os.path.relpath(path, self.repo)
                name = rel[:-3].replace(os.sep, '.')
                if name.endswith('.__init__'):
                    name = name[:-9]
                self.mods[name] = ModInfo(name, path, rel, open(path).read())
        self.classes = {}
        for m in self.mods.values():
            for c in m.classes.values():
                self.classes[c.qual] = c
        for c in self.classes.values():
            for b in c.node.bases:
                r = self.resolve_static(c.mod, b)
                if r and r[0] == 'class':
                    c.bases.append(r[1])
                    r[1].subs.append(c)
                elif r and r[0] == 'ext':
                    c.ext_bases.append(r[1])
                else:
                    c.ext_bases.append(ast.unparse(b))
        # attribute names defined in copulas: stored through `<x>.<attr> = …` or at class level
        self.stored_attrs = set()
        self.method_names = {}
        for m in self.mods.values():
            for n in ast.walk(m.tree):
                if isinstance(n, (ast.Assign, ast.AugAssign, ast.AnnAssign)):
                    ts = n.targets if isinstance(n, ast.Assign) else [n.target]
                    for t in ts:
                        for tt in ast.walk(t):
                            if isinstance(tt, ast.Attribute) and isinstance(tt.ctx, ast.Store):
                                self.stored_attrs.add(tt.attr)
        for c in self.classes.values():
            if c.is_enum():
                continue
            self.stored_attrs.update(c.attrs)
            for an_, ex in c.attrs.items():
                r = self.resolve_static(c.mod, ex)
                if r is not None and r[0] == 'ext':
                    self.ext_callable_attrs.add(an_)
                    self.attr_refs.setdefault(an_, []).append(('ext', r[1]))
                elif r is not None and r[0] == 'class':
                    self.attr_refs.setdefault(an_, []).append(('class', r[1]))
                elif r is not None and r[0] == 'func':
                    self.attr_refs.setdefault(an_, []).append(('func', self.spec_function(r[1], r[2])))
                elif not (isinstance(ex, ast.Constant) or
                          (isinstance(ex, (ast.List, ast.Tuple, ast.Dict, ast.Set)) and not ast.unparse(ex).strip('[](){}'))):
                    self.attr_opaque.add(an_)
            for name in c.methods:
                self.method_names.setdefault(name, []).append(c)

    def resolve_qual(self, qual, depth=0):
        """qualified dotted name -> ('func', mod, node) | ('class', ClassInfo) | ('const', mod, expr) |
        ('mod', ModInfo) | ('ext', dotted)"""
        if depth > 12:
            return ('ext', qual)
        if not (qual == PKG or qual.startswith(PKG + '.')):
            return ('ext', qual)
        if qual in self.mods:
            return ('mod', self.mods[qual])
        head, _, last = qual.rpartition('.')
        r = self.resolve_qual(head, depth + 1)
        if r[0] == 'mod':
            m = r[1]
            if last in m.funcs:
                return ('func', m, m.funcs[last])
            if last in m.classes:
                return ('class', m.classes[last])
            if last in m.consts:
                return ('const', m, m.consts[last])
            if last in m.imports:
                return self.resolve_qual(m.imports[last], depth + 1)
        if r[0] == 'ext':
            return ('ext', r[1] + '.' + last)
        return ('ext', qual)

    def resolve_static(self, mod, expr, local_imports=None):
        """module-level meaning of a Name / dotted Attribute chain, or None"""
        if isinstance(expr, ast.Name):
            n = expr.id
            if local_imports and n in local_imports:
                return self._norm(self.resolve_qual(local_imports[n]))
            if n in mod.funcs:
                return ('func', mod, mod.funcs[n])
            if n in mod.classes:
                return ('class', mod.classes[n])
            if n in mod.imports:
                return self._norm(self.resolve_qual(mod.imports[n]))
            if n in mod.consts:
                return ('const', mod, mod.consts[n])
            return None
        if isinstance(expr, ast.Attribute):
            b = self.resolve_static(mod, expr.value, local_imports)
            if b is None:
                return None
            if b[0] == 'ext':
                return ('ext', b[1] + '.' + expr.attr)
            if b[0] == 'mod':
                return self._norm(self.resolve_qual(b[1].name + '.' + expr.attr))
            return None
        return None

    @staticmethod
    def _norm(r):
        return r

    # ------------------------------------------------------------------ variables / functions
    def newvar(self, name, owner=None):
        self.varnames.append(name)
        v = len(self.varnames) - 1
        if owner is not None:
            owner.locals.add(v)
            self.owner[v] = owner
        return v

    def cvar(self, v):
        """content variable of `v`: stands for every object reachable inside the object of `v`
        (content variables are closed under "content of": C(C(v)) = C(v))"""
        if v == NOTHING:
            return NOTHING
        if v in self.is_content:
            return v
        if v not in self.content:
            c = self.newvar(self.varnames[v] + '°', self.owner.get(v))
            self.is_content.add(c)
            self.content[v] = c
        return self.content[v]

    def attr_var(self, attr):
        if attr not in self.attr_vars:
            self.attr_vars[attr] = self.newvar('@' + attr)
        return self.attr_vars[attr]

    def fn_for(self, spec):
        if spec.key not in self.fns:
            self.specs[spec.key] = spec
            f = IRFn(len(self.order), spec)
            self.fns[spec.key] = f
            self.order.append(f)
            FnTx(self, spec, f).declare()
            self.queue.append(f)
        return self.fns[spec.key]

    # ---- specs for module-level functions and methods, with decorators
    def spec_function(self, mod, node, cls=None):
        base = f'{cls.qual}.{node.name}' if cls else f'{mod.name}.{node.name}'
        static = False
        wrappers = []
        for d in node.decorator_list:
            r = self.resolve_static(mod, d.func if isinstance(d, ast.Call) else d)
            name = ast.unparse(d)
            if name == 'staticmethod':
                static = True
            elif name == 'classmethod':
                pass
            elif r and r[0] == 'func' and f'{r[1].name}.{r[2].name}' in COPULAS_DECORATORS:
                wrappers.append((r[1], r[2]))
            elif r and r[0] == 'ext' and r[1] in TRANSPARENT_DECORATORS:
                pass
            else:
                raise U(f'{mod.rel}:{node.lineno}', f'decorator {name}')
        inner = FnSpec(base + ('$inner' * len(wrappers)), node, mod, cls, static=static)
        # innermost decorator is applied first = last in the list
        spec = inner
        for k, (dmod, dnode) in enumerate(reversed(wrappers)):
            wnode = self.wrapper_def(dmod, dnode)
            key = base + ('$inner' * (len(wrappers) - 1 - k))
            argname = dnode.args.args[0].arg
            self.specs[spec.key] = spec
            w = FnSpec(key, wnode, dmod, cls, bound={argname: spec.key}, wrapper_of=inner)
            w.deco = f'{dmod.name}.{dnode.name}'
            spec = w
        return spec

    def wrapper_def(self, dmod, dnode):
        inner = [s for s in dnode.body if isinstance(s, ast.FunctionDef)]
        rets = [s for s in dnode.body if isinstance(s, ast.Return)]
        if len(inner) != 1 or len(rets) != 1 or not isinstance(rets[0].value, ast.Name) \
                or rets[0].value.id != inner[0].name:
            raise U(f'{dmod.rel}:{dnode.lineno}', f'decorator {dnode.name} is not "def wrapper; return wrapper"')
        return inner[0]

    def find_method(self, cls, name):
        for c in cls.mro():
            if name in c.methods:
                return c
        return None

    def method_specs(self, cls, name, down=True):
        """implementations of `name` an instance of `cls` (or of a subclass) may run"""
        out = []
        c = self.find_method(cls, name)
        if c:
            out.append(self.spec_function(c.mod, c.methods[name], c))
        if down:
            for d in cls.descendants():
                if name in d.methods:
                    out.append(self.spec_function(d.mod, d.methods[name], d))
        return out

    def all_method_specs(self, name):
        return [self.spec_function(c.mod, c.methods[name], c) for c in self.method_names.get(name, [])]

    # ------------------------------------------------------------------ driver
    def run(self, entries):
        for spec in entries:
            self.fn_for(spec)
        while True:
            while self.queue:
                f = self.queue.pop(0)
                FnTx(self, f.spec, f).translate()
            if not self.link_unresolved():
                break

    def link_unresolved(self):
        """every call whose callee is unknown may target any escaped callable or any constructor"""
        changed = False
        targets = list(self.escaped)
        for c in self.classes.values():
            if c.is_enum():
                continue
            ic = self.find_method(c, '__init__')
            if ic:
                sp = self.spec_function(ic.mod, ic.methods['__init__'], ic)
                self.specs.setdefault(sp.key, sp)
                if sp.key not in targets:
                    targets.append(sp.key)
        for site in self.unresolved:
            for key in targets:
                if key in site['done']:
                    continue
                site['done'].add(key)
                spec = self.specs.get(key) or self.fns[key].spec
                callee = self.fn_for(spec)
                if not compatible(callee, len(site['pos']), list(site['kw']), site['star'] is not None,
                                  site['dstar'] is not None):
                    continue
                args = bind(callee, [[v] for v in site['pos']], {k: [v] for k, v in site['kw'].items()},
                            [site['star']] if site['star'] is not None else None,
                            [site['dstar']] if site['dstar'] is not None else None)
                body = site['fn'].body
                vs = []
                for k, items in enumerate(args):
                    items = [it for it in items if it != (NOTHING, NOTHING)]
                    packed = callee.params[k][2] in ('vararg', 'kwarg')
                    if not items:
                        vs += [NOTHING, NOTHING]
                    elif len(items) == 1 and not packed:
                        vs += [items[0][0], items[0][1]]
                    else:
                        t = self.newvar(f'{site["fn"].spec.key}/%arg', site['fn'])
                        ct = self.cvar(t)
                        for a, ca in items:
                            if packed:
                                for x in (a, ca):
                                    if x != NOTHING:
                                        body.append(('alias', ct, x))
                            else:
                                if a != NOTHING:
                                    body.append(('alias', t, a))
                                if ca != NOTHING:
                                    body.append(('alias', ct, ca))
                        vs += [t if not packed else NOTHING, ct]
                body.append(('call', callee.idx, vs, [site['ret'], self.cvar(site['ret'])]))
                changed = True
        return changed or bool(self.queue)


INLINE_LIMIT = 60       # statements (deep) of a callee that is cloned per call site


def inline_small(an, keep):
    """Context sensitivity for small helpers: every call to a small, non-recursive function that
    defines no closure and is not a dynamic target gets its own clone of the callee (locals renamed),
    bottom-up, so that e.g. the views returned by `split_matrix(X)` to different callers are not merged.
    Pure IR-to-IR transformation: a clone has exactly the statements of the original."""
    fns = an.order
    n0 = len(fns)
    dynamic = {an.fns[k].idx for k in an.escaped if k in an.fns}
    callees = {f.idx: [st[1] for st in f.body if st[0] == 'call'] for f in fns}
    # functions on a call-graph cycle
    cyc = set()
    for f in fns:
        seen, work = set(), list(callees[f.idx])
        while work:
            g = work.pop()
            if g == f.idx:
                cyc.add(f.idx)
                break
            if g not in seen:
                seen.add(g)
                work.extend(callees[g])
    dyn_targets = set(dynamic)
    for site in an.unresolved:
        dyn_targets.update(an.fns[k].idx for k in site['done'] if k in an.fns)
    size = {}

    def inlinable(g):
        return g not in cyc and g not in dyn_targets and not fns[g].has_nested and size.get(g, 10 ** 9) <= INLINE_LIMIT

    def clone(g):
        src = fns[g]
        c = IRFn(len(fns), src.spec)
        c.cloned_from = src.cloned_from if src.cloned_from is not None else src.idx
        fns.append(c)
        ren = {}
        for v in sorted(src.locals):
            nv = an.newvar(an.varnames[v] + f'~{c.idx}', c)
            ren[v] = nv
            if v in an.is_content:
                an.is_content.add(nv)
        for v, cv in list(an.content.items()):
            if v in ren and cv in ren:
                an.content[ren[v]] = ren[cv]
        r = lambda x: ren.get(x, x)
        c.params = [(n, r(v), k) for n, v, k in src.params]
        c.defaults, c.scalar, c.done = src.defaults, src.scalar, True
        c.ret = r(src.ret)
        for st in src.body:
            if st[0] == 'call':
                tgt = st[1]
                if tgt in owned:            # a private clone of the original: clone it again
                    tgt = clone(tgt)
                    owned.add(tgt)
                c.body.append(('call', tgt, [r(a) for a in st[2]], [r(a) for a in st[3]]))
            else:
                c.body.append((st[0],) + tuple(r(a) for a in st[1:]))
        return c.idx

    owned = set()
    done = set()

    def process(fi):
        if fi in done:
            return
        done.add(fi)
        f = fns[fi]
        if fi in cyc:
            size[fi] = 10 ** 9
        for st in f.body:
            if st[0] == 'call' and st[1] not in cyc:
                process(st[1])
        total = len(f.body)
        newbody = []
        for st in f.body:
            if st[0] == 'call' and st[1] != fi and inlinable(st[1]):
                ci = clone(st[1])
                owned.add(ci)
                total += size[st[1]]
                newbody.append(('call', ci, st[2], st[3]))
            else:
                newbody.append(st)
        f.body = newbody
        if fi not in cyc:
            size[fi] = total
    import sys as _sys
    _sys.setrecursionlimit(max(_sys.getrecursionlimit(), 10000))
    for fi in range(n0):
        process(fi)


def compatible(callee, npos, kwnames, has_star, has_dstar):
    pos = [p for p in callee.params if p[2] == 'pos']
    vararg = any(p[2] == 'vararg' for p in callee.params)
    kwarg = any(p[2] == 'kwarg' for p in callee.params)
    names = {p[0] for p in callee.params if p[2] in ('pos', 'kwonly')}
    if npos > len(pos) and not vararg:
        return False
    for k in kwnames:
        if k not in names and not kwarg:
            return False
    if has_star or has_dstar:
        return True
    boundnames = {p[0] for p in pos[:npos]} | set(kwnames)
    for p in callee.params:
        if p[2] in ('pos', 'kwonly') and p[0] not in callee.defaults and p[0] not in boundnames:
            return False
    return True


def bind(callee, pos, kw, star, dstar):
    """sources for every callee parameter, aligned with callee.params"""
    out = [[] for _ in callee.params]
    posidx = [i for i, p in enumerate(callee.params) if p[2] == 'pos']
    var_i = next((i for i, p in enumerate(callee.params) if p[2] == 'vararg'), None)
    kw_i = next((i for i, p in enumerate(callee.params) if p[2] == 'kwarg'), None)
    byname = {p[0]: i for i, p in enumerate(callee.params) if p[2] in ('pos', 'kwonly')}
    for k, srcs in enumerate(pos):
        if k < len(posidx):
            out[posidx[k]].extend(srcs)
        elif var_i is not None:
            out[var_i].extend(srcs)
    for name, srcs in kw.items():
        if name in byname:
            out[byname[name]].extend(srcs)
        elif kw_i is not None:
            out[kw_i].extend(srcs)
    if star is not None:
        for i in posidx[len(pos):]:
            out[i].extend(star)
        if var_i is not None:
            out[var_i].extend(star)
    if dstar is not None:
        for i, p in enumerate(callee.params):
            if p[2] in ('pos', 'kwonly') and not (p[2] == 'pos' and posidx.index(i) < len(pos)):
                out[i].extend(dstar)
        if kw_i is not None:
            out[kw_i].extend(dstar)
    return out


# --------------------------------------------------------------------------------------------
class Val:
    """abstract value of an expression: `srcs` = variables whose object the value may BE,
    `csrcs` = (content) variables whose objects may be reachable INSIDE the value"""
    __slots__ = ('srcs', 'csrcs', 'immut', 'inst', 'ref')

    def __init__(self, srcs=(), csrcs=(), immut=False, inst=None, ref=None):
        self.srcs = tuple(dict.fromkeys(s for s in srcs if s != NOTHING))
        self.csrcs = tuple(dict.fromkeys(s for s in csrcs if s != NOTHING))
        self.immut = immut
        self.inst = inst        # ClassInfo: an instance of this class (or a subclass)
        self.ref = ref          # ('func', FnSpec) | ('class', ClassInfo) | ('ext', dotted) | ('self',) | …

    def reach(self):
        """everything the value is or holds"""
        return tuple(dict.fromkeys(self.srcs + self.csrcs))

    def element(self):
        """an element / attribute / view of the value"""
        return Val(self.srcs + self.csrcs, self.csrcs)

    def shallow_copy(self):
        return Val((), self.csrcs)


def union(vals, immut=False):
    return Val([s for v in vals for s in v.srcs], [c for v in vals for c in v.csrcs], immut=immut)


def container_of(vals):
    """a NEW container holding the values"""
    out = Val((), [s for v in vals for s in v.reach()])
    refs = [v.ref for v in vals if v.ref is not None and v.ref[0] in ('func', 'methods', 'methods+attr')]
    if refs:
        specs = []
        for r in refs:
            specs += [r[1]] if r[0] == 'func' else list(r[1])
        out.ref = ('methods', specs)
    return out


SELF = object()


class FnTx:
    def __init__(self, an, spec, fn):
        self.an, self.spec, self.fn = an, spec, fn
        self.mod = spec.mod
        self.rel = spec.mod.rel
        self.env = {}
        self.cells = set()
        self.immut = set()
        self.inst = {}
        self.local_imports = {}
        self.loops = []
        self.nested = {}          # name -> FnSpec of nested defs
        self.selfname = None
        self.selfcls = spec.cls
        self.forward = {}         # 'args'/'kwargs' names of a wrapper -> list of donor params
        self.counter = {}

    # ------------------------------------------------------------------ helpers
    def where(self, node):
        return f'{self.rel}:{getattr(node, "lineno", "?")}'

    def fail(self, node, what):
        raise U(self.where(node), f'{what} [{self.spec.key}]')

    def emit(self, *st):
        self.fn.body.append(st)

    def var(self, name):
        k = self.counter.get(name, 0)
        self.counter[name] = k + 1
        return self.an.newvar(f'{self.spec.key}/{name}#{k}', self.fn)

    def C(self, v):
        return self.an.cvar(v)

    def flow(self, x, v):
        """x := v  (both levels)"""
        self.escape_val(v)
        for s in v.srcs:
            if s != x:
                self.emit('alias', x, s)
        cx = self.C(x)
        for c in v.csrcs:
            if c != cx:
                self.emit('alias', cx, c)

    def store_into(self, base, v):
        """`base[...] = v`, `base.attr = v`, `base.append(v)`: base is modified and now holds v"""
        self.escape_val(v)
        for b in base.srcs:
            self.emit('write', b)
            cb = self.C(b)
            for s in v.reach():
                if s != cb:
                    self.emit('alias', cb, s)

    def write(self, base):
        for b in base.srcs:
            self.emit('write', b)

    def as_var(self, v, label='%t'):
        """(var, content var) holding the value"""
        srcs, csrcs = list(v.srcs), list(v.csrcs)
        if len(srcs) == 1 and (csrcs == [self.C(srcs[0])] or not csrcs):
            if not csrcs:
                return srcs[0], NOTHING
            return srcs[0], csrcs[0]
        if not srcs and not csrcs:
            return NOTHING, NOTHING
        t = self.var(label)
        self.flow(t, v)
        return t, (self.C(t) if csrcs else NOTHING)

    def of_var(self, x):
        return Val((x,), (self.C(x),), immut=x in self.immut, inst=self.inst.get(x))

    # ------------------------------------------------------------------ signature
    def declare(self):
        """parameters and return variable (callers bind against these before the body is translated)"""
        spec, fn = self.spec, self.fn
        donor = spec.wrapper_of or spec
        a = donor.node.args
        names = [(x.arg, 'pos') for x in a.posonlyargs + a.args]
        ndef = len(a.defaults)
        defaults = {}
        posnames = [x.arg for x in a.posonlyargs + a.args]
        for name, d in zip(posnames[len(posnames) - ndef:], a.defaults):
            defaults[name] = d
        for x, d in zip(a.kwonlyargs, a.kw_defaults):
            if d is not None:
                defaults[x.arg] = d
        has_self = donor.cls is not None and not donor.static and not donor.is_lambda and donor.nested_depth == 0
        if has_self:
            if not names:
                raise U(f'{donor.mod.rel}:{donor.node.lineno}', 'method without self')
            names = names[1:]
        if a.vararg:
            names.append((a.vararg.arg, 'vararg'))
        names += [(x.arg, 'kwonly') for x in a.kwonlyargs]
        if a.kwarg:
            names.append((a.kwarg.arg, 'kwarg'))
        for name, kind in names:
            v = self.an.newvar(f'{spec.key}/{name}#0', fn)
            self.an.cvar(v)
            fn.params.append((name, v, kind))
            d = defaults.get(name)
            if d is not None:
                fn.defaults.add(name)
                if isinstance(d, ast.Constant) and isinstance(d.value, (bool, int, float, str)):
                    fn.scalar.add(name)
        fn.ret = self.an.newvar(f'{spec.key}/%ret', fn)
        self.an.cvar(fn.ret)

    # ------------------------------------------------------------------ body
    def bind_param(self, name, v, scalar):
        if scalar:
            # immutable scalar by contract (literal default): the body works on the value, never on the
            # caller's object
            nv = self.var(name)
            self.emit('fresh', nv)
            self.immut.add(nv)
            self.env[name] = nv
        else:
            self.env[name] = v

    def translate(self):
        spec, fn = self.spec, self.fn
        if fn.done:
            return
        fn.done = True
        node = spec.node
        a = node.args
        pnames = [x.arg for x in a.posonlyargs + a.args]
        has_self = spec.cls is not None and not spec.static and not spec.is_lambda and spec.nested_depth == 0
        for name, v in spec.closure.items():
            self.env[name] = v
            self.cells.add(name)
        if spec.closure_self:
            self.selfname, self.selfcls = spec.closure_self
            self.env[self.selfname] = SELF
        if has_self:
            self.selfname = pnames[0]
            self.env[self.selfname] = SELF
            pnames = pnames[1:]
        if spec.wrapper_of is None:
            for name, v, kind in fn.params:
                self.counter[name] = 1
                self.bind_param(name, v, name in fn.scalar)
        else:
            # wrapper instance: its own named parameters are the donor's parameters at the same position;
            # `*args` / `**kwargs` stand for the remaining donor parameters (perfect forwarding)
            donor_pos = [p for p in fn.params if p[2] == 'pos']
            for k, name in enumerate(pnames):
                if k < len(donor_pos):
                    self.bind_param(name, donor_pos[k][1], donor_pos[k][0] in fn.scalar)
                else:
                    self.env[name] = NOTHING
            rest = [p for p in fn.params if p not in donor_pos[:len(pnames)]]
            for x in (a.vararg, a.kwarg):
                if x is not None:
                    v = self.var(x.arg)
                    self.emit('fresh', v)
                    for p in rest:
                        if p[0] not in fn.scalar:
                            self.emit('alias', self.C(v), p[1])
                            self.emit('alias', self.C(v), self.C(p[1]))
                    self.env[x.arg] = v
                    self.forward[x.arg] = rest
        # names captured by nested functions / lambdas become cells
        for name in self.captured_names(node):
            if isinstance(self.env.get(name), int):
                self.cells.add(name)
            elif name not in self.env:
                self.env[name] = self.var(name)
                self.cells.add(name)
        if isinstance(node, ast.Lambda):
            self.ret(self.eval(node.body))
        else:
            self.block(node.body)

    def captured_names(self, node):
        """local names of `node` that nested function bodies read"""
        mine = set()
        body = node.body if isinstance(node.body, list) else [node.body]
        args = node.args
        for x in args.posonlyargs + args.args + args.kwonlyargs + [y for y in (args.vararg, args.kwarg) if y]:
            mine.add(x.arg)

        def collect_assigned(n):
            if isinstance(n, (ast.FunctionDef, ast.Lambda, ast.ClassDef)):
                return
            if isinstance(n, ast.Name) and isinstance(n.ctx, ast.Store):
                mine.add(n.id)
            for c in ast.iter_child_nodes(n):
                collect_assigned(c)
        for s in body:
            collect_assigned(s)
        used = set()

        def collect_nested(n):
            if isinstance(n, (ast.FunctionDef, ast.Lambda)):
                for m in ast.walk(n):
                    if isinstance(m, ast.Name) and isinstance(m.ctx, ast.Load):
                        used.add(m.id)
                return
            for c in ast.iter_child_nodes(n):
                collect_nested(c)
        for s in body:
            collect_nested(s)
        return sorted(mine & used)

    def ret(self, v):
        self.flow(self.fn.ret, v)

    # ------------------------------------------------------------------ assignment
    def assign_name(self, name, v, node=None):
        if name in self.cells:
            c = self.env[name]
            if not isinstance(c, int):
                self.fail(node, 'assignment to self / a nested function name')
            self.flow(c, v)
            self.immut.discard(c)
            self.inst.pop(c, None)
            return c
        nv = self.var(name)
        if not v.srcs:
            self.emit('fresh', nv)
        self.flow(nv, v)
        if v.immut:
            self.immut.add(nv)
        if v.inst is not None:
            self.inst[nv] = v.inst
        self.env[name] = nv
        return nv

    def assign_target(self, t, v, node):
        if isinstance(t, ast.Name):
            self.assign_name(t.id, v, node)
        elif isinstance(t, (ast.Tuple, ast.List)):
            for e in t.elts:
                if isinstance(e, ast.Starred):
                    e = e.value
                self.assign_target(e, v.element(), node)
        elif isinstance(t, ast.Attribute):
            base = self.eval(t.value)
            av = self.an.attr_var(t.attr)
            self.an.stored_attrs.add(t.attr)
            if v.ref is not None and v.ref[0] in ('ext', 'builtin'):
                self.an.ext_callable_attrs.add(t.attr)
            self.record_attr(t.attr, v)
            self.flow(av, v)
            self.store_into(base, v)         # attribute store into a tracked object is a write to it
        elif isinstance(t, ast.Subscript):
            self.dict_guard(t.value, node, True)
            base = self.eval(t.value)
            self.eval(t.slice)
            if self.root_attr(t.value) is not None:
                self.record_attr(self.root_attr(t.value), v)
            self.store_into(base, v)
        elif isinstance(t, ast.Starred):
            self.assign_target(t.value, v, node)
        else:
            self.fail(node, f'assignment target {type(t).__name__}')

    # ------------------------------------------------------------------ statements
    def block(self, stmts):
        for s in stmts:
            self.stmt(s)

    def assigned_names(self, stmts):
        out = set()

        def walk(n):
            if isinstance(n, (ast.FunctionDef, ast.Lambda, ast.ClassDef)):
                return
            if isinstance(n, ast.Name) and isinstance(n.ctx, (ast.Store, ast.Del)):
                out.add(n.id)
            if isinstance(n, (ast.ListComp, ast.SetComp, ast.DictComp, ast.GeneratorExp)):
                return
            for c in ast.iter_child_nodes(n):
                walk(c)
        for s in stmts:
            walk(s)
        return out

    def alias_var(self, x, y):
        self.emit('alias', x, y)
        self.emit('alias', self.C(x), self.C(y))

    def join(self, envs):
        """merge SSA environments at a control-flow join"""
        names = set()
        for e in envs:
            names.update(e)
        out = {}
        for n in sorted(names):
            vs = [e.get(n) for e in envs]
            special = [v for v in vs if v is not None and not isinstance(v, int)]
            if special:
                out[n] = special[0]
                continue
            present = [v for v in vs if v is not None]
            uniq = list(dict.fromkeys(present))
            if len(uniq) == 1:
                out[n] = uniq[0]
            else:
                nv = self.var(n)
                for v in uniq:
                    if v != NOTHING:
                        self.alias_var(nv, v)
                if all(v in self.immut for v in uniq):
                    self.immut.add(nv)
                ts = {self.inst.get(v) for v in uniq}
                if len(ts) == 1 and None not in ts:
                    self.inst[nv] = ts.pop()
                out[n] = nv
        return out

    def stmt(self, s):
        if isinstance(s, ast.Expr):
            if isinstance(s.value, ast.Constant):
                return
            self.eval(s.value)
        elif isinstance(s, ast.Assign):
            v = self.eval(s.value)
            for t in s.targets:
                if isinstance(t, (ast.Tuple, ast.List)) and isinstance(s.value, (ast.Tuple, ast.List)) \
                        and len(t.elts) == len(s.value.elts) \
                        and not any(isinstance(e, ast.Starred) for e in t.elts + s.value.elts):
                    vals = [self.eval(e) for e in s.value.elts]
                    for tt, vv in zip(t.elts, vals):
                        self.assign_target(tt, vv, s)
                else:
                    self.assign_target(t, v, s)
        elif isinstance(s, ast.AnnAssign):
            if s.value is not None:
                self.assign_target(s.target, self.eval(s.value), s)
        elif isinstance(s, ast.AugAssign):
            rhs = self.eval(s.value)
            t = s.target
            if isinstance(t, ast.Name):
                cur = self.lookup(t.id, t)
                if cur.immut:
                    self.assign_name(t.id, Val((), immut=rhs.immut), s)      # re-binding of an immutable scalar
                else:
                    self.write(cur)
                    self.assign_name(t.id, Val(cur.srcs, cur.csrcs), s)
            elif isinstance(t, ast.Subscript):
                base = self.eval(t.value)
                self.eval(t.slice)
                self.store_into(base, rhs)
            elif isinstance(t, ast.Attribute):
                base = self.eval(t.value)
                self.store_into(base, rhs)
                # `obj.attr += v` may update the attribute's object in place
                self.emit('write', self.an.attr_var(t.attr))
            else:
                self.fail(s, 'augmented assignment target')
        elif isinstance(s, ast.Return):
            if s.value is not None:
                self.ret(self.eval(s.value))
        elif isinstance(s, ast.Raise):
            if s.exc is not None:
                self.eval(s.exc)
            if s.cause is not None:
                self.eval(s.cause)
        elif isinstance(s, ast.Assert):
            self.eval(s.test)
            if s.msg is not None:
                self.eval(s.msg)
        elif isinstance(s, (ast.Pass,)):
            pass
        elif isinstance(s, (ast.Break, ast.Continue)):
            if not self.loops:
                self.fail(s, 'break/continue outside a loop')
            self.loop_edge(self.loops[-1])
        elif isinstance(s, ast.Delete):
            for t in s.targets:
                if isinstance(t, ast.Subscript):
                    base = self.eval(t.value)
                    self.eval(t.slice)
                    self.write(base)
                elif isinstance(t, ast.Name):
                    pass
                else:
                    self.fail(s, 'del target')
        elif isinstance(s, (ast.Import, ast.ImportFrom)):
            self.mod.scan_import(s, self.local_imports)
        elif isinstance(s, ast.If):
            self.eval(s.test)
            before = dict(self.env)
            self.block(s.body)
            e1 = self.env
            self.env = dict(before)
            self.block(s.orelse)
            e2 = self.env
            self.env = self.join([e1, e2])
        elif isinstance(s, (ast.For, ast.While)):
            if s.orelse:
                self.fail(s, 'loop with else')
            if isinstance(s, ast.For):
                it = self.eval(s.iter)
                tgt_names = self.assigned_names([ast.Expr(s.target)])
            else:
                it, tgt_names = None, set()
            names = (self.assigned_names(s.body) | tgt_names) - self.cells
            phis = {}
            for n in sorted(names):
                nv = self.var(n)
                old = self.env.get(n)
                if isinstance(old, int) and old != NOTHING:
                    self.alias_var(nv, old)
                phis[n] = nv
                self.env[n] = nv
            loop = {'phis': phis}
            self.loops.append(loop)
            if isinstance(s, ast.For):
                elem = it.element()
                elem.immut = self.is_range(s.iter)
                self.assign_loop_target(s.target, elem, s)
            else:
                self.eval(s.test)
            self.block(s.body)
            if isinstance(s, ast.While):
                self.eval(s.test)
            self.loop_edge(loop)
            self.loops.pop()
            for n, nv in phis.items():
                self.env[n] = nv
        elif isinstance(s, ast.Try):
            names = (self.assigned_names(s.body + s.orelse + s.finalbody) |
                     self.assigned_names([st for h in s.handlers for st in h.body])) - self.cells
            added = []
            for n in sorted(names):
                nv = self.var(n)
                old = self.env.get(n)
                if isinstance(old, int) and old != NOTHING:
                    self.alias_var(nv, old)
                self.env[n] = nv
                self.cells.add(n)
                added.append(n)
            self.block(s.body)
            for h in s.handlers:
                if h.type is not None:
                    self.eval(h.type)
                if h.name:
                    self.assign_name(h.name, Val(()), s)
                self.block(h.body)
            self.block(s.orelse)
            self.block(s.finalbody)
            for n in added:
                self.cells.discard(n)
        elif isinstance(s, ast.With):
            for item in s.items:
                v = self.eval(item.context_expr)
                if item.optional_vars is not None:
                    self.assign_target(item.optional_vars, Val(v.srcs, v.csrcs), s)
            self.block(s.body)
        elif isinstance(s, ast.FunctionDef):
            self.define_nested(s)
        elif isinstance(s, (ast.Global, ast.Nonlocal)):
            self.fail(s, 'global/nonlocal')
        else:
            self.fail(s, f'statement {type(s).__name__}')

    def loop_edge(self, loop):
        for n, phi in loop['phis'].items():
            cur = self.env.get(n)
            if isinstance(cur, int) and cur != phi and cur != NOTHING:
                self.alias_var(phi, cur)
                if cur not in self.immut:
                    self.immut.discard(phi)

    def assign_loop_target(self, t, v, node):
        # loop targets are phi variables already: flow into them instead of creating versions
        if isinstance(t, ast.Name):
            if t.id in self.cells:
                self.assign_name(t.id, v, node)
                return
            phi = self.env[t.id]
            self.flow(phi, v)
            if v.immut and not v.srcs:
                self.immut.add(phi)
        elif isinstance(t, (ast.Tuple, ast.List)):
            for e in t.elts:
                self.assign_loop_target(e.value if isinstance(e, ast.Starred) else e, v.element(), node)
        else:
            self.assign_target(t, v, node)

    @staticmethod
    def is_range(e):
        return isinstance(e, ast.Call) and isinstance(e.func, ast.Name) and e.func.id == 'range'

    def capture(self, node):
        cap = {}
        for m in ast.walk(node):
            if isinstance(m, ast.Name) and isinstance(self.env.get(m.id), int) and m.id in self.cells:
                cap[m.id] = self.env[m.id]
        return cap

    def nested_spec(self, key, node, is_lambda):
        spec = FnSpec(key, node, self.mod, self.spec.cls, closure=self.capture(node), bound=dict(self.spec.bound),
                      is_lambda=is_lambda)
        spec.nested_depth = self.spec.nested_depth + 1
        self.fn.has_nested = True
        if self.selfname is not None:
            spec.closure_self = (self.selfname, self.selfcls)
        limp = dict(getattr(self.spec, 'local_imports', {}))
        limp.update(self.local_imports)
        spec.local_imports = limp
        self.an.specs[key] = spec
        return spec

    def define_nested(self, node):
        for d in node.decorator_list:
            r = self.an.resolve_static(self.mod, d.func if isinstance(d, ast.Call) else d, self.imports())
            if not (r and r[0] == 'ext' and r[1] == 'functools.wraps'):
                self.fail(node, f'decorator on nested function: {ast.unparse(d)}')
        spec = self.nested_spec(f'{self.spec.key}.<{node.name}@{node.lineno}>', node, False)
        self.nested[node.name] = spec
        self.env[node.name] = ('nested', spec)
        return spec

    def imports(self):
        limp = dict(getattr(self.spec, 'local_imports', {}))
        limp.update(self.local_imports)
        return limp

    def escape(self, spec):
        self.an.specs.setdefault(spec.key, spec)
        if spec.key not in self.an.escaped:
            self.an.escaped.append(spec.key)
            self.an.fn_for(spec)

    # ------------------------------------------------------------------ expressions
    def lookup(self, name, node):
        """value of a Name"""
        if name in self.env:
            v = self.env[name]
            if v is SELF:
                return Val((), inst=self.selfcls, ref=('self',))
            if isinstance(v, tuple) and v[0] == 'nested':
                return Val((), ref=('func', v[1]))
            if v == NOTHING:
                return Val(())
            return self.of_var(v)
        if name in self.spec.bound:
            return Val((), ref=('func', self.an.specs[self.spec.bound[name]]))
        r = self.an.resolve_static(self.mod, ast.Name(id=name, ctx=ast.Load()), self.imports())
        if r is not None:
            return self.static_val(r, node)
        if name in BUILTIN_FRESH or name in BUILTIN_ALIAS or name in EXC_NAMES or \
                name in ('super', 'getattr', 'setattr', 'NotImplemented', '__name__', 'Ellipsis'):
            return Val((), immut=True, ref=('builtin', name))
        self.fail(node, f'unknown name {name}')

    def static_val(self, r, node):
        if r[0] == 'func':
            return Val((), ref=('func', self.an.spec_function(r[1], r[2])))
        if r[0] == 'class':
            return Val((), ref=('class', r[1]))
        if r[0] == 'ext':
            return Val((), immut=True, ref=('ext', r[1]))
        if r[0] == 'mod':
            return Val((), ref=('mod', r[1]))
        if r[0] == 'const':
            e = r[2]
            if isinstance(e, (ast.List, ast.Dict, ast.Set, ast.ListComp, ast.DictComp, ast.SetComp)):
                self.fail(node, f'module-level mutable object {ast.unparse(e)[:40]}')
            rr = self.an.resolve_static(r[1], e)
            if rr is not None and rr[0] in ('class', 'func'):
                return self.static_val(rr, node)
            return Val((), immut=isinstance(e, ast.Constant))
        self.fail(node, f'cannot resolve {r[0]}')

    def eval(self, e):
        return self._eval(e)

    def record_attr(self, attr, v):
        """what is stored under / inside attribute `attr` (for calls through the attribute)"""
        refs = []
        if v.ref is not None and v.ref[0] in ('func', 'class', 'ext'):
            refs = [v.ref]
        elif v.ref is not None and v.ref[0] in ('methods', 'methods+attr'):
            refs = [('func', sp) for sp in v.ref[1]]
        if refs:
            lst = self.an.attr_refs.setdefault(attr, [])
            for r in refs:
                if not any(r[0] == q[0] and (r[1] is q[1] or (r[0] == 'func' and r[1].key == q[1].key) or r[1] == q[1])
                           for q in lst):
                    lst.append(r)
                    self.an.attr_refs_changed = True
        elif v.srcs or v.csrcs:
            if attr not in self.an.attr_opaque:
                self.an.attr_opaque.add(attr)
                self.an.attr_refs_changed = True

    def call_refs(self, refs, args, call):
        """call of a value known to be one of `refs`"""
        results = []
        funcs = [r[1] for r in refs if r[0] == 'func']
        if funcs:
            self.mark_escaping(args)
            ok = [sp for sp in funcs if compatible(self.an.fn_for(sp), len(args[0]), list(args[1]),
                                                   args[2] is not None, args[3] is not None)]
            if ok:
                results.append(self.call_specs(ok, args, call))
        for r in refs:
            if r[0] == 'class':
                results.append(self.construct(r[1], args, call))
            elif r[0] == 'ext':
                results.append(self.external(r[1], args, call))
        out = union(results)
        insts = {r.inst for r in results}
        if len(results) >= 1 and len(insts) == 1:
            out.inst = results[0].inst
        return out

    def dict_guard(self, e, node, storing):
        """`obj.__dict__[name] = v` / `.update(..)` would set attributes whose names the translator cannot see"""
        if storing and isinstance(e, ast.Attribute) and e.attr == '__dict__':
            self.fail(node, 'store into <obj>.__dict__ (computed attribute name)')

    @staticmethod
    def root_attr(e):
        while isinstance(e, ast.Subscript):
            e = e.value
        return e.attr if isinstance(e, ast.Attribute) else None

    def escape_val(self, v):
        """a function / bound method that is STORED (variable, attribute, container, return value) or handed
        to `copulas` code may later be the target of any call whose callee is unknown.  Callables handed
        directly to external solvers (`brentq(f, …)`, `sorted(key=…)`) are called back by `callbacks`."""
        if v.ref is not None and v.ref[0] == 'func':
            self.escape(v.ref[1])
        elif v.ref is not None and v.ref[0] in ('methods', 'methods+attr'):
            for spec in v.ref[1]:
                self.escape(spec)

    def _eval(self, e):
        if isinstance(e, ast.Constant):
            return Val((), immut=True)
        if isinstance(e, ast.Name):
            return self.lookup(e.id, e)
        if isinstance(e, ast.Attribute):
            return self.eval_attr(e)
        if isinstance(e, ast.Subscript):
            base = self._eval(e.value)
            self.eval(e.slice)
            if base.ref is not None and base.ref[0] in ('class', 'ext', 'mod', 'builtin'):
                return Val(())
            if self.fancy_index(e.slice):
                return Val((), base.csrcs)
            return base.element()
        if isinstance(e, ast.Slice):
            for x in (e.lower, e.upper, e.step):
                if x is not None:
                    self.eval(x)
            return Val((), immut=True)
        if isinstance(e, (ast.BinOp,)):
            l, r = self.eval(e.left), self.eval(e.right)
            if isinstance(e.op, (ast.Add, ast.Mult)) and any(
                    isinstance(x, (ast.List, ast.Tuple)) or
                    (isinstance(x, ast.Call) and isinstance(x.func, ast.Name) and x.func.id in BUILTIN_SHALLOW)
                    for x in (e.left, e.right)):
                # list concatenation / repetition (an operand is a display or `list(..)`): a NEW container
                # with the same elements.  `a + b` between other operands is read as arithmetic.
                return Val((), l.csrcs + r.csrcs, immut=l.immut and r.immut)
            return Val((), immut=l.immut and r.immut)
        if isinstance(e, ast.UnaryOp):
            o = self.eval(e.operand)
            return Val((), immut=o.immut or isinstance(e.op, ast.Not))
        if isinstance(e, ast.Compare):
            self.eval(e.left)
            for c in e.comparators:
                self.eval(c)
            return Val(())
        if isinstance(e, ast.BoolOp):
            vs = [self.eval(x) for x in e.values]
            return union(vs, immut=all(v.immut for v in vs))
        if isinstance(e, ast.IfExp):
            self.eval(e.test)
            a, b = self.eval(e.body), self.eval(e.orelse)
            return union([a, b], immut=a.immut and b.immut)
        if isinstance(e, (ast.Tuple, ast.List, ast.Set)):
            vs = []
            for x in e.elts:
                if isinstance(x, ast.Starred):
                    vs.append(self.eval(x.value).element())
                else:
                    vs.append(self.eval(x))
            return container_of(vs)
        if isinstance(e, ast.Dict):
            vs = []
            for k, x in zip(e.keys, e.values):
                if k is not None:
                    self.eval(k)
                    vs.append(self.eval(x))
                else:
                    vs.append(self.eval(x).element())
            return container_of(vs)
        if isinstance(e, (ast.ListComp, ast.SetComp, ast.GeneratorExp, ast.DictComp)):
            return self.eval_comp(e)
        if isinstance(e, ast.JoinedStr):
            for x in e.values:
                if isinstance(x, ast.FormattedValue):
                    self.eval(x.value)
            return Val((), immut=True)
        if isinstance(e, ast.FormattedValue):
            self.eval(e.value)
            return Val((), immut=True)
        if isinstance(e, ast.Call):
            return self.eval_call(e)
        if isinstance(e, ast.Lambda):
            spec = self.nested_spec(f'{self.spec.key}.<lambda@{e.lineno}:{e.col_offset}>', e, True)
            return Val((), ref=('func', spec))
        if isinstance(e, ast.Yield):
            if e.value is not None:
                self.eval(e.value)
            return Val(())
        if isinstance(e, ast.Starred):
            return self.eval(e.value)
        self.fail(e, f'expression {type(e).__name__}')

    @staticmethod
    def fancy_index(sl):
        """boolean-mask / integer-array indexing on the right-hand side yields a copy"""
        if isinstance(sl, (ast.Compare, ast.List, ast.ListComp)):
            return True
        if isinstance(sl, ast.UnaryOp) and isinstance(sl.op, ast.Invert):
            return True
        if isinstance(sl, ast.BinOp) and isinstance(sl.op, (ast.BitAnd, ast.BitOr, ast.BitXor)):
            return True
        if isinstance(sl, ast.Call) and ast.unparse(sl.func) in ('np.nonzero', 'np.where', 'np.isnan', 'np.logical_and',
                                                                 'np.logical_or', 'np.logical_not', 'np.isfinite'):
            return True
        if isinstance(sl, ast.Tuple):
            return any(isinstance(x, (ast.List, ast.Compare)) for x in sl.elts)
        return False

    def eval_comp(self, e):
        saved = dict(self.env)
        saved_cells = set(self.cells)
        for g in e.generators:
            it = self.eval(g.iter)
            elem = it.element()
            elem.immut = self.is_range(g.iter)
            for n in self.assigned_names([ast.Expr(g.target)]):
                self.cells.discard(n)
                self.env.pop(n, None)
            self.assign_target(g.target, elem, e)
            for c in g.ifs:
                self.eval(c)
        if isinstance(e, ast.DictComp):
            self.eval(e.key)
            out = self.eval(e.value)
        else:
            out = self.eval(e.elt)
        self.env = saved
        self.cells = saved_cells
        if isinstance(e, ast.GeneratorExp):
            return Val(out.reach(), out.reach())
        return container_of([out])

    def eval_attr(self, e):
        root = e
        while isinstance(root, ast.Attribute):
            root = root.value
        if isinstance(root, ast.Name) and root.id not in self.env and root.id not in self.spec.bound:
            r = self.an.resolve_static(self.mod, e, self.imports())
            if r is not None:
                return self.static_val(r, e)
        base = self._eval(e.value)
        attr = e.attr
        if base.ref is not None and base.ref[0] == 'class':
            cls = base.ref[1]
            c = self.an.find_method(cls, attr)
            if c is not None:
                return Val((), ref=('func', self.an.spec_function(c.mod, c.methods[attr], c)))
            if cls.is_enum():
                return Val((), immut=True)
        if base.ref is not None and base.ref[0] in ('ext', 'mod', 'builtin'):
            return Val((), immut=True)
        refs = self.an.attr_refs.get(attr, [])
        if refs and attr not in self.an.attr_opaque and attr not in self.an.method_names \
                and all(r[0] == 'ext' for r in refs):
            self.an.attr_uses.add(attr)
            return Val((), immut=True, ref=('ext', 'scipy.stats._dist_' if all(
                r[1].startswith('scipy.stats.') for r in refs) else refs[0][1]))
        srcs, csrcs = [], []
        known = False
        cands = []
        if base.inst is not None:
            cands = self.an.method_specs(base.inst, attr)
        elif attr in self.an.method_names and not (base.ref and base.ref[0] == 'class'):
            cands = self.an.all_method_specs(attr)
        if cands:
            known = True
        if attr in self.an.stored_attrs:
            known = True
            av = self.an.attr_var(attr)
            srcs.append(av)
            csrcs.append(self.C(av))
            # the attribute's object is part of what the base object holds
            srcs.extend(base.csrcs)
            csrcs.extend(base.csrcs)
        if attr in VIEW_ATTRS:
            known = True
            srcs.extend(base.srcs)
            srcs.extend(base.csrcs)
            csrcs.extend(base.csrcs)
        if attr in IMMUTABLE_ATTRS:
            known = True
        if not known:
            self.fail(e, f'unknown attribute .{attr}')
        v = Val(srcs, csrcs)
        if cands and attr not in self.an.stored_attrs:
            v.ref = ('methods', cands)
        elif cands:
            v.ref = ('methods+attr', cands)
        return v

    # ------------------------------------------------------------------ calls
    def eval_args(self, call):
        pos, kw, star, dstar = [], {}, [], []
        has_star = has_dstar = False
        for a in call.args:
            if isinstance(a, ast.Starred):
                has_star = True
                star.append((a.value, self.eval(a.value)))
            else:
                pos.append(self.eval(a))
        for k in call.keywords:
            if k.arg is None:
                has_dstar = True
                dstar.append((k.value, self.eval(k.value)))
            else:
                kw[k.arg] = self.eval(k.value)
        return pos, kw, (star if has_star else None), (dstar if has_dstar else None)

    @staticmethod
    def all_args(args):
        pos, kw, star, dstar = args
        vals = list(pos) + list(kw.values())
        for lst in (star, dstar):
            if lst:
                vals += [v.element() for _, v in lst]
        return vals

    def call_specs(self, specs, args, node, drop_first=False):
        """emit `call` to every arity-compatible candidate; returns the value of the result"""
        pos, kw, star, dstar = args
        if drop_first:
            pos = pos[1:]
        ret = self.var('%call')
        n_ok = 0
        for spec in specs:
            callee = self.an.fn_for(spec)
            if not compatible(callee, len(pos), list(kw), star is not None, dstar is not None):
                continue
            n_ok += 1
            self.emit_call(callee, pos, kw, star, dstar, ret)
        if n_ok == 0:
            self.fail(node, f'no callee accepts the arguments of {ast.unparse(node.func)}(…)')
        return self.of_var(ret)

    def emit_call(self, callee, pos, kw, star, dstar, ret):
        fwd_names = set()
        star_items = dstar_items = None
        if star is not None:
            star_items = []
            for expr, v in star:
                if isinstance(expr, ast.Name) and expr.id in self.forward:
                    fwd_names.add(expr.id)
                else:
                    star_items.append(v.element())
        if dstar is not None:
            dstar_items = []
            for expr, v in dstar:
                if isinstance(expr, ast.Name) and expr.id in self.forward:
                    fwd_names.add(expr.id)
                else:
                    dstar_items.append(v.element())
        args = bind(callee, [[v] for v in pos], {k: [v] for k, v in kw.items()}, star_items, dstar_items)
        if fwd_names:
            # perfect forwarding `f(self, X, *args, **kwargs)`: same-named parameters of the donor signature
            rest = []
            for n in sorted(fwd_names):
                rest.extend(self.forward[n])
            byname = {p[0]: i for i, p in enumerate(callee.params)}
            posidx = [i for i, p in enumerate(callee.params) if p[2] == 'pos']
            bound_pos = set(posidx[:len(pos)])
            for p in dict.fromkeys(rest):
                if p[0] in self.fn.scalar:
                    continue
                i = byname.get(p[0])
                if i is not None and i not in bound_pos:
                    args[i].append(self.of_var(p[1]))
                else:
                    for j, q in enumerate(callee.params):
                        if q[2] in ('vararg', 'kwarg'):
                            args[j].append(container_of([self.of_var(p[1])]))
        vs = []
        for k, items in enumerate(args):
            if callee.params[k][2] in ('vararg', 'kwarg'):
                v = container_of(items)
            else:
                v = union(items)
            a, ca = self.as_var(v, '%arg')
            vs += [a, ca]
        self.emit('call', callee.idx, vs, [ret, self.C(ret)])

    def unresolved_call(self, args, node, extra=(), user_callable=True):
        """callee unknown: a callable supplied by the caller, a stored bound method, or a class held in
        a variable.  May run any escaped callable or any constructor; assumed not to write its
        arguments itself; its result may alias its arguments."""
        pos, kw, star, dstar = args
        ret = self.var('%dyn')
        site = {'fn': self.fn, 'pos': [self.as_var(v, '%arg') for v in pos],
                'kw': {k: self.as_var(v, '%arg') for k, v in kw.items()},
                'star': self.as_var(union([v.element() for _, v in star]), '%arg') if star is not None else None,
                'dstar': self.as_var(union([v.element() for _, v in dstar]), '%arg') if dstar is not None else None,
                'ret': ret, 'done': set()}
        self.an.unresolved.append(site)
        if user_callable:
            # a callable supplied by the caller: assumed pure, but its result may be (or hold) an argument
            self.flow(ret, union(self.all_args(args) + list(extra)))
        return self.of_var(ret)

    def callbacks(self, args, node):
        """an external function that calls its callable arguments on values aliasing its other arguments"""
        vals = self.all_args(args)
        data = union(vals).element()
        for v in vals:
            targets = []
            if v.ref is not None and v.ref[0] == 'func':
                targets = [v.ref[1]]
            elif v.ref is not None and v.ref[0] in ('methods', 'methods+attr'):
                targets = v.ref[1]
            for spec in targets:
                callee = self.an.fn_for(spec)
                ret = self.var('%cb')
                a, ca = self.as_var(data, '%arg')
                self.emit('call', callee.idx, [x for _ in callee.params for x in (a, ca)], [ret, self.C(ret)])

    def mark_escaping(self, args):
        pos, kw, star, dstar = args
        for v in list(pos) + list(kw.values()):
            self.escape_val(v)

    def external(self, dotted, args, node):
        pos, kw, star, dstar = args
        kind = None
        for rx, k in EXTERNAL:
            if rx.match(dotted):
                kind = k
                break
        allv = union(self.all_args(args))
        if 'out' in kw:
            self.write(kw['out'])
        if kw.get('inplace') is not None and self.is_true(node, 'inplace') and pos:
            self.write(pos[0])
        if kw.get('copy') is not None and kind == 'fresh' and self.is_false(node, 'copy'):
            kind = 'alias'
        if kind == 'fresh':
            return Val(())
        if kind == 'alias':
            return Val(allv.srcs, allv.csrcs)
        if kind == 'cb':
            self.callbacks(args, node)
            return Val(())
        if kind == 'w0':
            if pos:
                self.write(pos[0])
            return Val(())
        # unknown external function: may write every argument, result may alias them
        self.mark_escaping(args)
        self.write(allv)
        self.an.unknown_external.add(dotted)
        return Val(allv.srcs, allv.csrcs)

    @staticmethod
    def is_true(call, name):
        for k in call.keywords:
            if k.arg == name:
                return not (isinstance(k.value, ast.Constant) and k.value.value in (False, None))
        return False

    @staticmethod
    def is_false(call, name):
        """`copy=<anything but the literal True>`: the call may hand back its input (`astype(float, copy=flag)`)"""
        for k in call.keywords:
            if k.arg == name:
                return not (isinstance(k.value, ast.Constant) and k.value.value is True)
        return False

    def construct(self, cls, args, node):
        """`Cls(args)`: a new object; `__new__` / `__init__` of the class see the arguments"""
        for special in ('__new__', '__init__'):
            c = self.an.find_method(cls, special)
            if c is not None:
                spec = self.an.spec_function(c.mod, c.methods[special], c)
                callee = self.an.fn_for(spec)
                pos, kw, star, dstar = args
                if compatible(callee, len(pos), list(kw), star is not None, dstar is not None):
                    self.emit_call(callee, pos, kw, star, dstar, self.var('%init'))
                else:
                    self.fail(node, f'{cls.name}.{special} does not accept these arguments')
        self.mark_escaping(args)
        return Val((), inst=cls)

    def eval_call(self, call):
        f = call.func
        # ---- super().m(...) / super(C, x).m(...)
        if isinstance(f, ast.Attribute) and isinstance(f.value, ast.Call) and isinstance(f.value.func, ast.Name) \
                and f.value.func.id == 'super':
            args = self.eval_args(call)
            cls = self.spec.cls
            if cls is None:
                self.fail(call, 'super() outside a class')
            for c in cls.mro()[1:]:
                if f.attr in c.methods:
                    spec = self.an.spec_function(c.mod, c.methods[f.attr], c)
                    return self.call_specs([spec], args, call)
            if f.attr in ('__new__', '__init__'):
                return Val(())            # object.__new__ / object.__init__
            self.fail(call, f'super().{f.attr} not found')
        args = self.eval_args(call)
        # ---- method call
        if isinstance(f, ast.Attribute):
            return self.call_method(call, f, args)
        # ---- plain name or arbitrary callee expression
        fv = self._eval(f)
        if fv.ref is not None:
            kind = fv.ref[0]
            if kind == 'func':
                self.mark_escaping(args)
                sp = fv.ref[1]
                d = sp.wrapper_of or sp
                explicit_self = d.cls is not None and not d.static and not d.is_lambda and d.nested_depth == 0
                return self.call_specs([sp], args, call, drop_first=explicit_self)
            if kind == 'self' and self.is_classmethod_ctx():
                return self.construct(self.selfcls, args, call)
            if kind == 'class':
                if fv.ref[1].is_enum():
                    return Val((), immut=True)
                return self.construct(fv.ref[1], args, call)
            if kind == 'ext':
                return self.external(fv.ref[1], args, call)
            if kind == 'builtin':
                return self.builtin(fv.ref[1], args, call)
        ra = self.root_attr(f)
        if ra is not None and ra in self.an.stored_attrs:
            refs = self.an.attr_refs.get(ra, [])
            self.an.attr_uses.add(ra)
            if refs and ra not in self.an.attr_opaque:
                return self.call_refs(refs, args, call)
        self.mark_escaping(args)
        # a parameter / local holding a callable: the caller's callback (`f` of the root finders)
        return self.unresolved_call(args, call, extra=[fv.element()], user_callable=True)

    def builtin(self, name, args, node):
        pos, kw, star, dstar = args
        allv = union(self.all_args(args))
        if name in BUILTIN_CB and (('key' in kw) or name in ('map', 'filter')):
            self.callbacks(args, node)
        if name == 'getattr':
            if len(pos) >= 2 and isinstance(node.args[1], ast.Constant) and isinstance(node.args[1].value, str):
                fake = ast.Attribute(value=node.args[0], attr=node.args[1].value, ctx=ast.Load())
                ast.copy_location(fake, node)
                try:
                    v = self.eval_attr(fake)
                except Untranslatable:
                    v = pos[0].element()
                return union([v] + pos[2:])
            return allv.element()
        if name == 'setattr':
            self.fail(node, 'setattr with a computed attribute name')
        if name in EXC_NAMES:
            return Val(())
        if name in BUILTIN_SHALLOW:
            # a NEW container with the elements of the arguments
            return Val((), allv.csrcs)
        if name in BUILTIN_FRESH:
            return Val((), immut=name in ('len', 'int', 'float', 'str', 'bool', 'abs', 'round', 'repr', 'isinstance',
                                          'hasattr', 'issubclass', 'callable'))
        if name in BUILTIN_ALIAS:
            if name in ('min', 'max', 'next'):
                return allv.element()
            return Val(allv.srcs, allv.csrcs)
        self.fail(node, f'builtin {name}')

    def call_method(self, call, f, args):
        pos, kw, star, dstar = args
        m = f.attr
        # module / external dotted path
        root = f
        while isinstance(root, ast.Attribute):
            root = root.value
        if isinstance(root, ast.Name) and root.id not in self.env and root.id not in self.spec.bound:
            r = self.an.resolve_static(self.mod, f, self.imports())
            if r is not None:
                if r[0] == 'ext':
                    return self.external(r[1], args, call)
                if r[0] == 'func':
                    self.mark_escaping(args)
                    return self.call_specs([self.an.spec_function(r[1], r[2])], args, call)
                if r[0] == 'class':
                    return self.construct(r[1], args, call)
        self.dict_guard(f.value, call, m in ('update', 'setdefault', '__setitem__'))
        recv = self._eval(f.value)
        if m == '__class__':
            self.mark_escaping(args)
            return self.unresolved_call(args, call, user_callable=False)
        # ---- ClassName.method(...)
        if recv.ref is not None and recv.ref[0] == 'class':
            cls = recv.ref[1]
            if cls.is_enum():
                return Val((), immut=True)
            specs = self.an.method_specs(cls, m)
            if specs:
                self.mark_escaping(args)
                node0 = specs[0].node
                is_cm = any(ast.unparse(d) == 'classmethod' for d in node0.decorator_list)
                unbound = not is_cm and not specs[0].static
                return self.call_specs(specs, args, call, drop_first=unbound)
            if m in ('__subclasses__', 'mro'):
                return Val(())
            self.fail(call, f'{cls.name}.{m} not found')
        if recv.ref is not None and recv.ref[0] in ('ext', 'mod', 'builtin'):
            return self.external(f'{recv.ref[1] if recv.ref[0] != "mod" else recv.ref[1].name}.{m}', args, call)
        results = []
        handled = False
        if kw.get('inplace') is not None and self.is_true(call, 'inplace'):
            self.write(recv)
        if 'out' in kw:
            self.write(kw['out'])
        cands = []
        if recv.inst is not None:
            cands = self.an.method_specs(recv.inst, m)
        elif m in self.an.method_names:
            cands = self.an.all_method_specs(m)
        if cands:
            self.mark_escaping(args)
            ok = [s for s in cands if compatible(self.an.fn_for(s), len(pos), list(kw), star is not None,
                                                 dstar is not None)]
            if ok:
                results.append(self.call_specs(ok, args, call))
                handled = True
            elif recv.inst is not None and not self.foreign_method(m) and m not in self.an.stored_attrs:
                self.fail(call, f'no implementation of .{m} accepts these arguments')
        if m in self.an.stored_attrs:
            # an attribute holding a callable (`self.model()`, a method replaced on the instance)
            self.mark_escaping(args)
            # the stored callable is one of the escaped `copulas` callables or a class (linked later),
            # unless an external callable was ever stored under that name
            refs = self.an.attr_refs.get(m, [])
            self.an.attr_uses.add(m)
            if refs and m not in self.an.attr_opaque:
                results.append(self.call_refs(refs, args, call))
            elif not cands or m in self.an.attr_opaque:
                results.append(self.unresolved_call(args, call, user_callable=m in self.an.ext_callable_attrs
                                                    or m in self.an.attr_opaque))
            handled = True
        if recv.inst is None or not cands:
            argv = self.all_args(args)
            if m in MUTATING_METHODS:
                handled = True
                if self.root_attr(f.value) is not None:
                    for v in argv:
                        self.record_attr(self.root_attr(f.value), v)
                self.store_into(recv, union(argv))
                self.mark_escaping(args)
                if m in POP_LIKE:
                    results.append(recv.element())
            elif m in ALIAS_METHODS:
                handled = True
                if m in ELEMENT_METHODS:
                    results.append(union([recv.element()] + (pos[1:] if m == 'get' else [])))
                else:
                    results.append(Val(recv.srcs, recv.csrcs))
            elif m in PURE_METHODS:
                handled = True
                if m in ('apply',):
                    self.callbacks(args, call)
                if kw.get('copy') is not None and self.is_false(call, 'copy'):
                    results.append(Val(recv.srcs, recv.csrcs))
                elif m in SHALLOW_METHODS:
                    results.append(recv.shallow_copy())
                else:
                    results.append(Val(()))
        if not handled:
            self.fail(call, f'unknown method .{m}()')
        return union(results)

    @staticmethod
    def foreign_method(m):
        return m in MUTATING_METHODS or m in PURE_METHODS or m in ALIAS_METHODS

    def is_classmethod_ctx(self):
        return any(ast.unparse(d) == 'classmethod' for d in getattr(self.spec.node, 'decorator_list', []))


# --------------------------------------------------------------------------------------------
def entry_specs(an):
    """[(display name, FnSpec, [(class or None, method/function name)])] de-duplicated by function"""
    out = {}
    order = []

    def add(spec, tag):
        if spec.key not in out:
            out[spec.key] = (spec, [])
            order.append(spec.key)
        if tag not in out[spec.key][1]:
            out[spec.key][1].append(tag)
    for modname, fname in ENTRY_FUNCTIONS:
        m = an.mods.get(modname)
        if m is None or fname not in m.funcs:
            raise U(f'{modname}', f'entry point {fname} not found')
        add(an.spec_function(m, m.funcs[fname]), (modname, None, fname))
    for modname, cname in ENTRY_CLASSES:
        m = an.mods.get(modname)
        if m is None or cname not in m.classes:
            raise U(f'{modname}', f'entry class {cname} not found')
        cls = m.classes[cname]
        names = ENTRY_ONLY.get(cname, MODEL_METHODS + ENTRY_EXTRA_METHODS.get(cname, []))
        for meth in names:
            c = an.find_method(cls, meth)
            if c is None:
                continue
            add(an.spec_function(c.mod, c.methods[meth], c), (modname, cname, meth))
    return [(k, out[k][0], out[k][1]) for k in order]


def analyse(repo):
    an = Analysis(repo)
    for _round in range(8):
        # calls through attributes use what is known to be stored under the attribute name; that knowledge
        # grows while translating, so translate until it is stable
        an.reset()
        before = an.attr_state()
        entries = entry_specs(an)
        an.run([spec for _, spec, _ in entries])
        if an.attr_state() == before:
            break
    else:
        raise U('copulas', 'attribute-callable knowledge did not stabilise')
    an.rounds = _round + 1
    inline_small(an, {an.fns[k].idx for k, _, _ in entries})
    an.entries = []
    for key, spec, tags in entries:
        fn = an.fns[key]
        params = [(name, v, an.cvar(v)) for name, v, kind in fn.params if name not in fn.scalar]
        an.entries.append({'name': key, 'fn': fn.idx, 'params': params, 'tags': tags,
                           'scalar': sorted(fn.scalar)})
    return an


def text_stmt(st):
    if st[0] == 'call':
        return f'c {st[1]} ' + ' '.join(str(a) for a in st[2]) + ' > ' + ' '.join(str(a) for a in st[3])
    return {'alias': 'a', 'fresh': 'f', 'write': 'w', 'param': 'p'}[st[0]] + ' ' + ' '.join(str(a) for a in st[1:])


def fn_body(f):
    """statements of a function, de-duplicated (the program is a SET)"""
    return list(dict.fromkeys((st[0],) + tuple(tuple(x) if isinstance(x, list) else x for x in st[1:])
                              for st in f.body))


HEADER = '''import CopVerif.Model.Effects
/-! GENERATED by tools/regen.py (tools/gen_effects.py) from /repo/copulas/**/*.py on every run - do not edit.
    Write-effect IR of every public entry point of `copulas` and of every function reachable from one,
    in the text form decoded by `Model.Effects.decodeModule` (one function per line:
    `params;rets;statements`).  `entries` = (name, function index, tracked parameters (name, variable,
    content variable)).  Names of functions / variables for diagnostics: `gen_effects.analyse(repo)`. -/
namespace CopVerif.Gen.Effects
open CopVerif.Model.Effects
'''


def lean_str(s):
    return '"' + s.replace('\\', '\\\\').replace('"', '\\"') + '"'


def module_text(an):
    lines = []
    for f in an.order:
        params = ' '.join(f'{p[1]} {an.cvar(p[1])}' for p in f.params)
        lines.append(f'{params};{f.ret} {an.cvar(f.ret)};' + ','.join(text_stmt(s) for s in fn_body(f)))
    return lines


def python_flatten(an, e):
    """independent re-implementation of `Model.Effects.flatten` (used by the harness to validate the text
    decoding and the linking done in Lean): set of statement tokens as printed by `effects flat`"""
    fns = an.order
    seen, work = [], [e]
    while work:
        f = work.pop()
        if f in seen:
            continue
        seen.append(f)
        work.extend(st[1] for st in fns[f].body if st[0] == 'call')
    out = set()
    for p in fns[e].params:
        out.add(f'p:{p[1]}')
        out.add(f'p:{an.cvar(p[1])}')
    for f in seen:
        for st in fns[f].body:
            if st[0] == 'call':
                c = fns[st[1]]
                for r, q in zip(st[3], [c.ret, an.cvar(c.ret)]):
                    out.add(f'a:{r}:{q}')
                cps = [x for p in c.params for x in (p[1], an.cvar(p[1]))]
                for pv, a in zip(cps, st[2]):
                    out.add(f'a:{pv}:{a}')
            else:
                out.add({'alias': 'a', 'fresh': 'f', 'write': 'w'}[st[0]] + ':' + ':'.join(str(x) for x in st[1:]))
    return out


def witness(an, e, roots):
    """a chain `root -> … -> written variable` through the alias edges of entry `e` (diagnostics only)"""
    edges, writes = {}, set()
    for t in python_flatten(an, e):
        ws = t.split(':')
        if ws[0] == 'a':
            edges.setdefault(int(ws[2]), []).append(int(ws[1]))
        elif ws[0] == 'w':
            writes.add(int(ws[1]))
    par = {r: None for r in roots}
    work = list(roots)
    while work:
        x = work.pop(0)
        if x in writes:
            path = []
            while x is not None:
                path.append(an.varnames[x])
                x = par[x]
            return list(reversed(path))
        for y in edges.get(x, []):
            if y not in par:
                par[y] = x
                work.append(y)
    return None


def generate(repo):
    an = analyse(repo)
    out = [HEADER]
    lines = module_text(an)
    out.append('def code : String := "' + '\\n'.join(lines) + '"')
    out.append('def module? : Option Module := decodeModule code')
    ents = []
    for e in an.entries:
        ps = ', '.join(f'({lean_str(n)}, {v}, {c})' for n, v, c in e['params'])
        ents.append(f'({lean_str(e["name"])}, {e["fn"]}, [{ps}])')
    out.append('def entries : List (String × Nat × List (String × Var × Var)) := [\n  ' + ',\n  '.join(ents) + ']')
    out.append('end CopVerif.Gen.Effects\n')
    report = []
    seen = set()
    for f in an.order:
        n = f.spec.node
        item = (f.spec.mod.rel, f.spec.key, n.lineno, getattr(n, 'end_lineno', n.lineno))
        if item not in seen:
            seen.add(item)
            report.append(item)
    generate.last = an
    return '\n'.join(out), report


if __name__ == '__main__':
    import sys
    text, rep = generate(sys.argv[1] if len(sys.argv) > 1 else '/repo')
    an = generate.last
    print(len(rep), 'functions', sum(len(f.body) for f in an.order), 'statements', len(an.varnames), 'variables')
    print('unknown externals:', sorted(an.unknown_external))
    print('escaped:', len(an.escaped))
