"""Regenerate lean/CopVerif/Gen/*.lean from /repo's working tree (translator tie (T), DESIGN 2.2).

A Gen file is rewritten only when its content changes (so `lake build` is a no-op on an unchanged
tree).  A translation failure leaves the previous file in place and is reported as a broken
obligation `translate:<target>`."""
import hashlib
import json
import os
import sys
import traceback

sys.path.insert(0, os.path.dirname(os.path.abspath(__file__)))
from pyast2lean import Untranslatable  # noqa: E402

LEAN = os.path.join(os.path.dirname(os.path.dirname(os.path.abspath(__file__))), 'lean')
_cache = {}


def _generators():
    """Every tools/gen_<name>.py with a `generate(repo) -> (lean_text, report)` function is a generator;
    its target file is lean/CopVerif/Gen/<TARGET>.lean with TARGET = module attribute `TARGET` or
    `<Name>` (capitalised file suffix)."""
    here = os.path.dirname(os.path.abspath(__file__))
    gens = []
    for fn in sorted(os.listdir(here)):
        if not (fn.startswith('gen_') and fn.endswith('.py')):
            continue
        modname = fn[:-3]
        default = modname[4:].capitalize()
        try:
            mod = __import__(modname)
            gens.append((getattr(mod, 'TARGET', default), mod.generate))
        except Exception:  # a generator that cannot even be imported = its target cannot be translated
            err = traceback.format_exc()[-400:]
            gens.append((default, (lambda e: (lambda repo: (_ for _ in ()).throw(RuntimeError(e))))(err)))
    return gens


def regen_all(repo, only=None):
    """`only`: restrict to these targets (used for runs against a scratch copy of the repository, so that
    they do not rewrite generated files other checks are using)"""
    key = (repo, tuple(sorted(only)) if only is not None else None)
    if key in _cache:
        return _cache[key]
    results = []
    manifest = {}
    for target, gen in _generators():
        if only is not None and target not in only:
            continue
        path = os.path.join(LEAN, 'CopVerif', 'Gen', f'{target}.lean')
        try:
            text, report = gen(repo)
            old = open(path).read() if os.path.exists(path) else None
            if old != text:
                with open(path, 'w') as f:
                    f.write(text)
            spans = []
            for fname, fn, a, b in report:
                src = open(os.path.join(repo, fname)).read().split('\n')[a - 1:b]
                spans.append({'file': fname, 'function': fn, 'lines': [a, b],
                              'sha256': hashlib.sha256('\n'.join(src).encode()).hexdigest()[:16]})
            manifest[target] = spans
            results.append({'target': target, 'ok': True, 'detail': f'{len(report)} functions translated',
                            'changed': old != text})
        except Untranslatable as e:
            results.append({'target': target, 'ok': False, 'detail': f'untranslatable: {e}', 'changed': False})
        except Exception:
            results.append({'target': target, 'ok': False, 'detail': traceback.format_exc()[-500:], 'changed': False})
    try:
        if only is not None:
            raise OSError('partial run: keep the full manifest')
        os.makedirs(os.path.join(LEAN, '.lake'), exist_ok=True)
        with open(os.path.join(LEAN, '.lake', 'gen_manifest.json'), 'w') as f:
            json.dump(manifest, f, indent=1)
    except OSError:
        pass
    _cache[key] = results
    return results


if __name__ == '__main__':
    for r in regen_all(sys.argv[1] if len(sys.argv) > 1 else '/repo'):
        print(r)
