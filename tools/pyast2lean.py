"""Whitelist translator: Python AST fragments of /repo/copulas  ->  Lean 4 terms over `NumFns α`.

Only the constructs listed in DESIGN.md section 2.2 are accepted; anything else raises
`Untranslatable(file, line, what)`, which the caller turns into a *broken obligation*
`translate:<function>` (never a silent skip).
"""
import ast


class Untranslatable(Exception):
    def __init__(self, where, what):
        super().__init__(f'{where}: {what}')
        self.where = where
        self.what = what


def lean_num(value):
    """Python numeric literal -> Lean term of type α (non-negative)."""
    if isinstance(value, bool):
        raise ValueError('bool literal')
    if isinstance(value, int):
        if value < 0:
            return f'(-(ofNat {-value}))'
        return f'(ofNat {value})'
    if isinstance(value, float):
        if value != value or value in (float('inf'), float('-inf')):
            raise ValueError('non-finite literal')
        if value < 0:
            return f'(-{lean_num(-value)})'
        if value == int(value) and abs(value) < 1e15:
            return f'(ofNat {int(value)})'
        # exact decimal expansion of the repr: mantissa * 10^-e
        r = repr(value)
        if 'e' in r or 'E' in r:
            mant, exp = r.lower().split('e')
            exp = int(exp)
        else:
            mant, exp = r, 0
        if '.' in mant:
            ip, fp = mant.split('.')
        else:
            ip, fp = mant, ''
        digits = (ip + fp).lstrip('0') or '0'
        e10 = len(fp) - exp
        if e10 < 0:
            digits = digits + '0' * (-e10)
            e10 = 0
        return f'(ofSci {digits} {e10})'
    raise ValueError(f'literal {value!r}')


NP_UNARY = {'exp': 'exp', 'log': 'log', 'sqrt': 'sqrt', 'abs': 'NumFns.abs', 'absolute': 'NumFns.abs'}


class ExprTx:
    """Translate expressions.  `env` maps Python local names to Lean terms; `selfattrs` maps
    `self.<attr>` to Lean terms; `calls` maps `self.<method>` to a python callable
    (args: list of lean terms) -> lean term."""

    def __init__(self, fname, env=None, selfattrs=None, calls=None, consts=None):
        self.fname = fname
        self.env = dict(env or {})
        self.selfattrs = dict(selfattrs or {})
        self.calls = dict(calls or {})
        self.consts = dict(consts or {})   # module-level names -> lean terms

    def fail(self, node, what):
        raise Untranslatable(f'{self.fname}:{getattr(node, "lineno", "?")}', what)

    # --- numeric expressions -------------------------------------------------------------
    def tx(self, e):
        if isinstance(e, ast.Constant):
            try:
                return lean_num(e.value)
            except ValueError as exc:
                self.fail(e, str(exc))
        if isinstance(e, ast.Name):
            if e.id in self.env:
                return self.env[e.id]
            if e.id in self.consts:
                return self.consts[e.id]
            self.fail(e, f'unknown name {e.id}')
        if isinstance(e, ast.Attribute):
            if isinstance(e.value, ast.Name) and e.value.id == 'self':
                if e.attr in self.selfattrs:
                    return self.selfattrs[e.attr]
                self.fail(e, f'unknown attribute self.{e.attr}')
            self.fail(e, f'attribute {ast.unparse(e)}')
        if isinstance(e, ast.UnaryOp):
            if isinstance(e.op, ast.USub):
                return f'(-{self.tx(e.operand)})'
            if isinstance(e.op, ast.UAdd):
                return self.tx(e.operand)
            self.fail(e, f'unary {type(e.op).__name__}')
        if isinstance(e, ast.BinOp):
            a, b = self.tx(e.left), self.tx(e.right)
            if isinstance(e.op, ast.Add):
                return f'({a} + {b})'
            if isinstance(e.op, ast.Sub):
                return f'({a} - {b})'
            if isinstance(e.op, ast.Mult):
                return f'({a} * {b})'
            if isinstance(e.op, ast.Div):
                return f'({a} / {b})'
            if isinstance(e.op, ast.Pow):
                return f'(pow {a} {b})'
            self.fail(e, f'binop {type(e.op).__name__}')
        if isinstance(e, ast.IfExp):
            return f'(if {self.cond(e.test)} then {self.tx(e.body)} else {self.tx(e.orelse)})'
        if isinstance(e, ast.Subscript):
            # U[i] inside the row comprehension: the row's own element
            if isinstance(e.value, ast.Name) and isinstance(e.slice, ast.Name) \
                    and e.slice.id in self.env.get('__rowidx__', ()):
                return self.tx(e.value)
            self.fail(e, f'subscript {ast.unparse(e)}')
        if isinstance(e, ast.Call):
            return self.call(e)
        self.fail(e, f'expression {type(e).__name__}: {ast.unparse(e)[:60]}')

    def call(self, e):
        f = e.func
        if e.keywords:
            self.fail(e, f'keyword arguments in {ast.unparse(e)[:60]}')
        if isinstance(f, ast.Attribute) and isinstance(f.value, ast.Name):
            mod, name = f.value.id, f.attr
            if mod == 'np':
                if name == 'power' and len(e.args) == 2:
                    return f'(pow {self.tx(e.args[0])} {self.tx(e.args[1])})'
                if name in NP_UNARY and len(e.args) == 1:
                    return f'({NP_UNARY[name]} {self.tx(e.args[0])})'
                # explicit ufunc spellings of the operators (`np.subtract(x, 1)` for `x - 1`, …)
                binop = {'add': '+', 'subtract': '-', 'multiply': '*', 'divide': '/', 'true_divide': '/'}
                if name in binop and len(e.args) == 2:
                    return f'({self.tx(e.args[0])} {binop[name]} {self.tx(e.args[1])})'
                if name == 'negative' and len(e.args) == 1:
                    return f'(-{self.tx(e.args[0])})'
                if name == 'square' and len(e.args) == 1:
                    a = self.tx(e.args[0])
                    return f'(pow {a} {lean_num(2)})'
                if name == 'reciprocal' and len(e.args) == 1:
                    return f'({lean_num(1)} / {self.tx(e.args[0])})'
                self.fail(e, f'numpy call np.{name}')
            if mod == 'self':
                if name in self.calls:
                    return self.calls[name]([a for a in e.args], self)
                self.fail(e, f'call self.{name}')
        if isinstance(f, ast.Name) and f.id == 'abs' and len(e.args) == 1:
            return f'(NumFns.abs {self.tx(e.args[0])})'
        self.fail(e, f'call {ast.unparse(e)[:60]}')

    # --- conditions (Lean `Prop` with Decidable instance, or Bool = true) ---------------
    def cond(self, c):
        if isinstance(c, ast.BoolOp):
            op = ' ∧ ' if isinstance(c.op, ast.And) else ' ∨ '
            return '(' + op.join(self.cond(v) for v in c.values) + ')'
        if isinstance(c, ast.UnaryOp) and isinstance(c.op, ast.Not):
            return f'(¬ {self.cond(c.operand)})'
        if isinstance(c, ast.Compare):
            parts = []
            left = c.left
            for op, right in zip(c.ops, c.comparators):
                parts.append(self.cmp(left, op, right, c))
                left = right
            return parts[0] if len(parts) == 1 else '(' + ' ∧ '.join(parts) + ')'
        self.fail(c, f'condition {ast.unparse(c)[:60]}')

    def is_inf(self, e):
        s = ast.unparse(e)
        return s in ('np.inf', "float('inf')", 'float("inf")')

    def cmp(self, a, op, b, node):
        if isinstance(op, ast.Eq) and self.is_inf(b):
            return f'(NumFns.isPosInf {self.tx(a)} = true)'
        x, y = self.tx(a), self.tx(b)
        if isinstance(op, ast.Eq):
            return f'(NumFns.beq {x} {y} = true)'
        if isinstance(op, ast.NotEq):
            return f'(NumFns.beq {x} {y} = false)'
        if isinstance(op, ast.Lt):
            return f'({x} < {y})'
        if isinstance(op, ast.LtE):
            return f'({x} ≤ {y})'
        if isinstance(op, ast.Gt):
            return f'({y} < {x})'
        if isinstance(op, ast.GtE):
            return f'({y} ≤ {x})'
        self.fail(node, f'comparison {type(op).__name__}')


def strip_doc(body):
    if body and isinstance(body[0], ast.Expr) and isinstance(body[0].value, ast.Constant) \
            and isinstance(body[0].value.value, str):
        return body[1:]
    return body


def find_class(tree, name):
    for n in tree.body:
        if isinstance(n, ast.ClassDef) and n.name == name:
            return n
    raise KeyError(name)


def find_method(cls, name):
    for n in cls.body:
        if isinstance(n, ast.FunctionDef) and n.name == name:
            return n
    raise KeyError(name)


def find_func(tree, name):
    for n in tree.body:
        if isinstance(n, ast.FunctionDef) and n.name == name:
            return n
    raise KeyError(name)


def class_attr(cls, name):
    for n in cls.body:
        if isinstance(n, ast.Assign) and len(n.targets) == 1 and isinstance(n.targets[0], ast.Name) \
                and n.targets[0].id == name:
            return n.value
    return None
