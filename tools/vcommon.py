"""Shared machinery for the checks: seeds, Lean build/audit/driver, obligations, evidence, replays,
known findings.  See DESIGN.md section 2.3 for the obligation life-cycle implemented here."""
import fcntl
import hashlib
import json
import os
import random
import re
import struct
import subprocess
import sys
import time

VERIF = os.path.dirname(os.path.dirname(os.path.abspath(__file__)))
LEAN = os.path.join(VERIF, 'lean')
REPO = os.environ.get('COPULAS_REPO', '/repo')
EVID = os.path.join(VERIF, 'evidence')
REPLAYS = os.path.join(VERIF, 'replays')
ALLOWED_AXIOMS = {'propext', 'Classical.choice', 'Quot.sound'}
TRUSTED_BASE = [
    'Lean 4.33 kernel; axioms propext, Classical.choice, Quot.sound only (audited every run)',
    'Mathlib v4.33 as a library of kernel-checked theorems',
    'tools/regen.py (Python AST -> Lean) and its table of numpy meanings; validated numerically every run',
    'correspondence harnesses tools/props/*.py, their generators and canonicalisation; Driver.lean parsing',
    'real-number reading of binary64 arithmetic; Lean Float = C double / glibc libm',
    'external libraries (numpy, scipy, pandas, plotly) as named hypotheses, validated at run time',
]

FORBIDDEN = re.compile(r'\b(sorry|admit|native_decide|bv_decide|implemented_by|unsafe)\b|^\s*axiom\s|maxHeartbeats\s+0\b',
                       re.M)


# ----------------------------------------------------------------------------- floats on the wire
def f2h(x):
    return '%016x' % struct.unpack('<Q', struct.pack('<d', float(x)))[0]


def h2f(s):
    return struct.unpack('<d', struct.pack('<Q', int(s, 16)))[0]


def rng_for(seed, *path):
    return random.Random(f'{seed}/' + '/'.join(str(p) for p in path))


def np_rng(seed, *path):
    import numpy as np
    h = hashlib.sha256((f'{seed}/' + '/'.join(str(p) for p in path)).encode()).digest()
    return np.random.RandomState(int.from_bytes(h[:4], 'little'))


# ----------------------------------------------------------------------------- Lean side
class LakeLock:
    def __enter__(self):
        os.makedirs(os.path.join(LEAN, '.lake'), exist_ok=True)
        self.f = open(os.path.join(LEAN, '.lake', 'build.lock'), 'w')
        fcntl.flock(self.f, fcntl.LOCK_EX)
        return self

    def __exit__(self, *a):
        fcntl.flock(self.f, fcntl.LOCK_UN)
        self.f.close()


def strip_lean_comments(src):
    out, i, depth = [], 0, 0
    n = len(src)
    while i < n:
        if src.startswith('/-', i):
            depth += 1
            i += 2
            continue
        if depth and src.startswith('-/', i):
            depth -= 1
            i += 2
            continue
        if depth:
            if src[i] == '\n':
                out.append('\n')
            i += 1
            continue
        if src.startswith('--', i):
            while i < n and src[i] != '\n':
                i += 1
            continue
        out.append(src[i])
        i += 1
    return ''.join(out)


def lean_decl_at(path, line):
    """name of the declaration enclosing `line` in a Lean file."""
    try:
        lines = open(path).read().split('\n')
    except OSError:
        return None
    pat = re.compile(r'^\s*(?:@\[[^\]]*\]\s*)?(?:private\s+|protected\s+|noncomputable\s+)*'
                     r'(theorem|lemma|def|example|instance|abbrev)\s+([^\s:(\[{]+)?')
    for k in range(min(line, len(lines)) - 1, -1, -1):
        m = pat.match(lines[k])
        if m:
            return m.group(2) or 'example'
    return None


def lake_build(targets, timeout=3600):
    """Build Lean modules.  Returns (ok, broken) where broken is a list of
    {file, line, decl, message} for every error."""
    with LakeLock():
        t0 = time.time()
        p = subprocess.run(['lake', 'build'] + list(targets), cwd=LEAN, capture_output=True, text=True,
                           timeout=timeout)
        dt = time.time() - t0
    out = p.stdout + p.stderr
    broken = []
    for m in re.finditer(r'^error: ([^\s:]+\.lean):(\d+):(\d+): (.*)$', out, re.M):
        f, ln, msg = m.group(1), int(m.group(2)), m.group(4)
        broken.append({'file': f, 'line': ln, 'decl': lean_decl_at(os.path.join(LEAN, f), ln),
                       'message': msg[:300]})
    if p.returncode != 0 and not broken:
        broken.append({'file': '?', 'line': 0, 'decl': None, 'message': out[-600:]})
    return p.returncode == 0, broken, dt, out


def props_modules(prop):
    """Props/<prop>.lean plus optional extension files Props/<prop>b.lean, <prop>c.lean, ..."""
    d = os.path.join(LEAN, 'CopVerif', 'Props')
    out = []
    for fn in sorted(os.listdir(d)) if os.path.isdir(d) else []:
        if re.fullmatch(re.escape(prop) + r'[a-z]?\.lean', fn):
            out.append(fn[:-5])
    return out


def props_theorems(prop):
    """[(module, theorem)] over all property files of `prop`."""
    out = []
    for mod in props_modules(prop):
        path = os.path.join(LEAN, 'CopVerif', 'Props', f'{mod}.lean')
        src = strip_lean_comments(open(path).read())
        out += [(mod, n) for n in re.findall(r'^\s*theorem\s+([^\s:(\[{]+)', src, re.M)]
    return out


def audit(prop):
    """`#print axioms` for every theorem of Props/<prop>.lean + forbidden-token grep over the
    whole Lean tree.  Returns (theorem -> axioms list, problems list)."""
    problems = []
    for root, _, files in os.walk(os.path.join(LEAN, 'CopVerif')):
        for fn in files:
            if fn.endswith('.lean'):
                p = os.path.join(root, fn)
                code = strip_lean_comments(open(p).read())
                for m in FORBIDDEN.finditer(code):
                    problems.append(f'forbidden token {m.group(0).strip()!r} in {os.path.relpath(p, LEAN)}')
    pairs = props_theorems(prop)
    names = [n for _, n in pairs]
    os.makedirs(os.path.join(LEAN, '.lake', 'audit'), exist_ok=True)
    af = os.path.join(LEAN, '.lake', 'audit', f'Audit{prop}.lean')
    with open(af, 'w') as f:
        for mod in props_modules(prop):
            f.write(f'import CopVerif.Props.{mod}\n')
        for mod, n in pairs:
            f.write(f'#print axioms CopVerif.Props.{mod}.{n}\n')
    p = subprocess.run(['lake', 'env', 'lean', af], cwd=LEAN, capture_output=True, text=True, timeout=1800)
    out = p.stdout + p.stderr
    axioms = {}
    for m in re.finditer(r"'CopVerif\.Props\.%s[a-z]?\.(\S+?)' (depends on axioms: \[([^\]]*)\]|does not depend on any axioms)" % prop,
                         out, re.S):
        axs = [a.strip() for a in (m.group(3) or '').replace('\n', ' ').split(',') if a.strip()]
        axioms[m.group(1)] = axs
    for n in names:
        if n not in axioms:
            problems.append(f'axiom audit: no report for theorem {n}: {out[-300:]}')
        else:
            extra = set(axioms[n]) - ALLOWED_AXIOMS
            if extra:
                problems.append(f'theorem {n} depends on non-standard axioms {sorted(extra)}')
    return axioms, problems


class LeanDriver:
    """Synchronous line protocol with `lake env lean --run Driver.lean`."""

    def __init__(self, main='Main/Biv.lean'):
        self.p = subprocess.Popen(['lake', 'env', 'lean', '--run', main], cwd=LEAN,
                                  stdin=subprocess.PIPE, stdout=subprocess.PIPE, stderr=subprocess.PIPE,
                                  text=True, bufsize=1)
        self.n = 0
        r = self.ask('ping')
        if r != 'pong':
            err = self.p.stderr.read()[-800:] if self.p.poll() is not None else ''
            raise RuntimeError(f'Lean driver did not start: {r!r} {err}')

    def ask(self, line):
        self.n += 1
        try:
            self.p.stdin.write(line + '\n')
            self.p.stdin.flush()
            out = self.p.stdout.readline()
        except BrokenPipeError:
            out = ''
        if not out:
            err = ''
            try:
                err = self.p.stderr.read()[-800:]
            except Exception:
                pass
            raise RuntimeError(f'Lean driver died on {line[:80]!r}: {err}')
        return out.rstrip('\n')

    def floats(self, line):
        """ask; parse `ok <hex>…` -> ('ok', [floats]) | ('err', kind) | ('bad', text)"""
        r = self.ask(line)
        ws = r.split()
        if not ws:
            return ('bad', r)
        if ws[0] == 'ok':
            return ('ok', [h2f(w) for w in ws[1:]])
        if ws[0] == 'err':
            return ('err', ws[1] if len(ws) > 1 else '')
        return ('bad', r)

    def close(self):
        try:
            self.p.stdin.close()
            self.p.wait(timeout=10)
        except Exception:
            self.p.kill()


# ----------------------------------------------------------------------------- exceptions -> enum
def exc_kind(e):
    from copulas.errors import NotFittedError
    if isinstance(e, NotFittedError):
        return 'NotFittedError'
    if isinstance(e, AssertionError):
        return 'AssertionError'
    if isinstance(e, ValueError):
        return 'ValueError'
    if isinstance(e, TypeError):
        return 'TypeError'
    return 'Other'


# ----------------------------------------------------------------------------- check context
class Ctx:
    def __init__(self, prop, tier, seed):
        self.prop, self.tier, self.seed = prop, tier, seed
        self.t0 = time.time()
        self.obligations = []      # {'name','kind','ok','detail'}
        self.failing = []          # concrete failing inputs on the real code
        self.known_hits = []       # known findings reproduced
        self.known_absent = []     # known findings that no longer reproduce (repaired)
        self.evaluations = 0
        self.nontrivial = set()
        self.samples = []
        self.hist = {}
        self.notes = []
        self.partial = []
        self.checker_cmds = []
        self.support = {}
        self.scale = 1 if tier == 'quick' else 12

    # --- bookkeeping
    def ob(self, name, ok, kind='proof', detail=''):
        self.obligations.append({'name': name, 'kind': kind, 'ok': bool(ok), 'detail': str(detail)[:600]})
        return ok

    def count(self, key, n=1):
        self.hist[key] = self.hist.get(key, 0) + n

    def case(self, key=None, nontrivial=True):
        self.evaluations += 1
        if nontrivial and key is not None:
            self.nontrivial.add(key if isinstance(key, (str, int, float, tuple)) else repr(key))

    def sample(self, s, cap=6):
        if len(self.samples) < cap:
            self.samples.append(s)

    def fail_input(self, entry_point, inp, observed, required, cls=None):
        """A concrete input on which the REAL code fails the property."""
        self.failing.append({'entry_point': entry_point, 'input': inp, 'observed': observed,
                             'required': required, 'class': cls or entry_point})

    def rng(self, *path):
        return rng_for(self.seed, self.prop, *path)

    def nprng(self, *path):
        return np_rng(self.seed, self.prop, *path)

    def broken(self):
        return [o for o in self.obligations if not o['ok']]


def repo_head():
    try:
        return subprocess.run(['git', '-C', REPO, 'rev-parse', 'HEAD'], capture_output=True, text=True).stdout.strip()
    except Exception:
        return '?'


def write_replay(prop, payload):
    os.makedirs(REPLAYS, exist_ok=True)
    body = json.dumps(payload, sort_keys=True, default=str)
    h = hashlib.sha256(body.encode()).hexdigest()[:12]
    path = os.path.join(REPLAYS, f'{prop}-{h}.json')
    with open(path, 'w') as f:
        json.dump(payload, f, indent=1, sort_keys=True, default=str)
    return os.path.relpath(path, VERIF)


def load_known():
    p = os.path.join(VERIF, 'known_findings.json')
    if not os.path.exists(p):
        return {'findings': [], 'fixed': []}
    return json.load(open(p))


def jsonable(x):
    import numpy as np
    if isinstance(x, dict):
        return {str(k): jsonable(v) for k, v in x.items()}
    if isinstance(x, (list, tuple, set)):
        return [jsonable(v) for v in x]
    if isinstance(x, np.ndarray):
        return jsonable(x.tolist())
    if isinstance(x, (np.floating,)):
        return float(x)
    if isinstance(x, (np.integer,)):
        return int(x)
    if isinstance(x, (np.bool_,)):
        return bool(x)
    if isinstance(x, float):
        if x != x:
            return 'nan'
        if x in (float('inf'), float('-inf')):
            return 'inf' if x > 0 else '-inf'
        return x
    if isinstance(x, (int, str, bool)) or x is None:
        return x
    return repr(x)
