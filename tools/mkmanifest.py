"""Regenerate MANIFEST.json from the table below (claimed checks) and properties.jsonl."""
import json
import os

V = os.path.dirname(os.path.dirname(os.path.abspath(__file__)))
CLAIMS = {
    'C06': dict(
        text='Lean 4 theorems (all theta in range, all (u,v), all batches) about the definitions regenerated from '
             'clayton.py/frank.py/gumbel.py on every run: boundary, symmetry, Archimedean identity, monotone, Frechet '
             'upper (all), Frechet lower + 2-increasing (Frank), row independence of the whole method; tied to the code '
             'by translation validation at Float against the real methods.',
        note='trusts the AST->Lean translator (validated numerically every run) and the real-number reading of binary64; '
             'partial: 2-increasing/Frechet-lower for Clayton and Gumbel, theta-ordering (search-supported), Gumbel at u=0 or v=0; Props/C06b: continuous extension by 0 at the lower boundary for Gumbel and Clayton (limits), the formula value at 0 being a totalisation artefact',
        tech='Lean 4 proof over a translator-regenerated model + translation validation', ref='5 C06'),
    'C07': dict(
        text='Lean 4 HasDerivAt theorems C -> partial_derivative -> probability_density for the three regenerated '
             'families (Frank on [0,1]xR, Clayton on (0,1]^2, Gumbel on (0,1)^2 incl. theta=1), positivity, symmetry, '
             'h in [0,1], monotone in u, endpoints, row independence, Clayton overflow bound; Frank integral identity.',
        note='translator + real-number semantics trusted; partial: rectangle integral for Clayton/Gumbel is two '
             'HasDerivAt steps (no Fubini), Gumbel limits at u->0',
        tech='Lean 4 proof (Mathlib calculus) over a translator-regenerated model + translation validation', ref='5 C07'),
    'C08': dict(
        text='Lean 4 theorems: Clayton closed-form inverse inverts h, range, strict monotonicity, element-wise on every '
             'batch; uniqueness from strict monotonicity of h; generic Brent loop correct and element-wise given a root '
             'finder that returns a root; existence+uniqueness of the root for Frank.',
        note='brentq is an external hypothesis; bracket validity is partial and is a recorded finding for Gumbel; Props/C08b: Frank bracket clause proved on the whole domain; exact Gumbel below-bracket region with a kernel-checked witness (the recorded finding)',
        tech='Lean 4 proof over a translator-regenerated model + correspondence with the real percent_point', ref='5 C08'),
    'C09': dict(
        text='Lean 4 theorems about Bivariate.sample regenerated from the source: tau guard before any draw, shape (n rows, '
             'second column is the first draw), Clayton rows are the conditional inverse of the draws, Frank Rosenblatt '
             'identity (integral of h = C) with uniform margins as boundary cases; tied by replaying the recorded '
             'np.random.uniform draws through the generated model.',
        note='uniformity/independence of MT19937 is trusted; value of Kendall tau of C_theta not proved; Clayton/Gumbel '
             'Rosenblatt identity in improper-integral form; statistical bands (<=1e-9 false alarm) only in the search',
        tech='Lean 4 proof over a translator-regenerated model + deterministic replay of recorded RNG draws', ref='5 C09'),
    'C10': dict(
        text='Lean 4 theorems: Clayton/Gumbel tau<->theta round trips on the generated compute_theta, acceptance iff '
             'admissible for each family, refusals leave no usable model, accepted fits are usable, state written at each '
             'refusal point, Frank residual = tau(theta)-tau, tau-b bounds/symmetry/monotone data/invariance on an '
             'executable tau-b; Props/C10b: the generator integral 1 + 4*int_0^1 phi/phi\' equals the calibration for all three '
             'families (interval integrals, no external hypothesis for Clayton/Gumbel); tied by running the fit model at Float '
             'on the quantities the real fit derives from data.',
        note='Frank solver (least_squares, quad) and scipy kendalltau are external hypotheses, cross-checked every run; '
             'Frank near tau=0 is a recorded finding; Props/C10c: ideal Frank calibration odd, strictly monotone, range (-1,1), existence and uniqueness of theta; exact epsilon-shift of the code\'s residual and the mechanism of the recorded near-zero finding; Props/C10d: complementary closed forms 2/(theta+2) = 1-tau, 1/theta = 1-tau for the generated compute_theta and unboundedness of theta as tau -> 1 (no cap is compatible)',
        tech='Lean 4 proof over generated calibrations + hand model of fit with correspondence', ref='5 C10'),
    'C18': dict(
        text='Lean 4 theorems about faithful models of bisect and chandrupatla (any number of lanes, any maxiter): bisect '
             'bracket/sign/width invariant, result within tol/2 of a root of a continuous function (IVT), lane independence, '
             'rejection of invalid brackets; chandrupatla sign-bracket invariant, evaluation points clipped into the bracket, '
             'exact zero when flagged by fm == 0, scalar = one-element vector, lane independence; BOTH ties: the per-lane '
             'arithmetic, masks, defaults and loop skeleton of both routines are regenerated from the source on every run '
             '(gen_rootfind) and Props/C18b proves generated = model for every definition and restates the headline theorems '
             'about the generated functions; and the model is tied bit-for-bit to the real functions on a shared function-spec '
             'language (results, iteration counts, caller arrays untouched, bracket/probability dtypes).',
        note='convergence of chandrupatla within the iteration cap is partial (no proved rate); reversed brackets accepted by '
             'chandrupatla is a recorded finding; exp-based families compared within tolerance',
        tech='Lean 4 proof over a translator-regenerated model bridged to a hand model + bit-exact correspondence on a shared spec language', ref='5 C18'),
    'C02': dict(
        text='Lean 4 theorems over R for any number of rows/columns: the executable Pearson model (pandas one-pass Welford, '
             'NaN as none) equals the textbook coefficient, symmetry, unit diagonal for non-constant score columns, range, '
             'PSD (Gram matrix), constant columns -> zero row/column and still PSD, ridge R+eps*I symmetric/PD with the stated '
             'diagonal, labels, entry = Pearson of the normal scores; clip bounds, ridge constant and threshold regenerated '
             'from the source; tied bit-for-bit to pandas corr and entrywise to model.correlation / to_dict.',
        note='np.linalg.cond, scipy norm.ppf and the marginal CDFs are external symbols; finiteness and that sampling/density '
             'work after regularisation are checked on the real code only; degenerate marginal fits are a recorded finding; Props/C02b: exact diagonal formula and iff for a unit diagonal, entry finiteness given IEEE unit facts, density defined after the ridge',
        tech='Lean 4 proof (Mathlib matrices) over a hand model + generated constants, correspondence with pandas/real fit',
        ref='5 C02'),
    'C12': dict(
        text='Lean 4 theorems about a model of conditional sampling: conditioned columns are replicate n value in training '
             'order, draws are looked up by label, exact partition into the four blocks for every proper non-empty subset, '
             'label alignment of the normal scores (full statement for the repaired code, iff-characterisation and '
             'counter-example for the former behaviour), Series container accepted, Schur complement symmetric and PSD '
             '(Matrix.PosDef.fromBlocks22), conditional mean/covariance formulas; tied to _get_conditional_distribution and to '
             'sample under replayed multivariate_normal draws.',
        note='Props/C12b PROVES the classical theorem over Mathlib\'s multivariateGaussian: residual independent of the '
             'conditioning block and N(0, Schur complement), joint law = marginal compProd the Markov kernel z -> N(G z, Sigma_bar), '
             'condDistrib a.e. equal to it, the sampling scheme "draw N(0, Sigma_bar), add G z" reproduces the joint law, and '
             'the (mean, cov) the model hands to the sampler IS that kernel at z; np.linalg.inv is a parameter with hypothesis; '
             'that numpy draws from N(mean, cov) is trusted; statistical bands only in deep search',
        tech='Lean 4 proof over a hand-written model with as-found/repaired variants + model of the conditional-sampling path regenerated from the source (gen_gausscond; Props/C12c proves generated = model and transfers the theorems; tv:GaussCond compares real code vs generated definitions) + correspondence on recorded draws',
        ref='5 C12'),
    'C15': dict(
        text='Lean 4 theorems (core Lean, every finite history over any number of models): global stream preserved by seeded '
             'sampling / set_random_state / raising calls, per-model stream a function of its seed and own call sequence '
             '(independent of interleaving and prior global state), successive calls consume consecutive segments, '
             'exception safety of the context manager, unseeded sampling uses the global stream, dataset generators '
             'deterministic and global-preserving; soundness of the free-term model used by the driver; tied by comparing '
             'predicted equalities/separations of state and output digests on random histories over all sampler classes.',
        note='MT19937 get/set_state exactness and stream quality are trusted; the decorator table is introspected by the '
             'harness; the former Univariate wrapper defect is kept as a counter-example theorem about the as-found table; Props/C15b: wrapper clause iff decorated (repaired vs as-found table), dataset row counts from a shape model tied every run by corr:dataset-shape',
        tech='Lean 4 proof over an abstract generator-state machine + the random-state protocol (utils.set_random_state / random_state / validate_random_state, the three set_random_state methods, the 16-class sampler table) regenerated from the source by gen_rngscope and proved equal to the model in Props/C15c (tv:sampler-rows, tv:generated-step-vs-real) + digest-pattern correspondence', ref='5 C15'),
    'C05': dict(
        text='Lean 4 theorems for any candidate list over any bounded linear order of KS values (NaN and failures explicit): '
             'the selection fold returns a fittable minimiser (first one for strict <), none iff nothing is fittable; the '
             'candidate enumeration equals the table filter for every class tree and filter pair, with the 12 concrete '
             'candidate lists decided on the class table regenerated from the source; explicit candidates win; per-column '
             'configuration and Gaussian fallback totality; tied with stub families rigged to chosen KS values, ties, NaN.',
        note='kstest and the family fitters are external symbols; tie-breaking is deliberately not demanded of the code; '
             'a distribution reference that cannot be instantiated propagates (modelled as the error branch)',
        tech='Lean 4 proof over a hand model + class table regenerated from the AST, correspondence with stub families',
        ref='5 C05'),
    'C19': dict(
        text='Lean 4 theorems over all histories of fit calls: fresh fits are pure; refit purity for the repaired variant and '
             'counter-examples plus the exact safe-history characterisation for the as-found variants (three independent '
             'flags: constant overrides, remembered truncation bounds, cached KDE sample size); unfitted queries raise; '
             'invalid training data rejected with state unchanged; fitted flag set last; get_instance returns a fresh '
             'unfitted object configured from the stored constructor arguments (table regenerated from the AST); tied by '
             'random fit histories on every class and a two-sentinel np.empty differential for uninitialised reads.',
        note='external fitters are abstract functions of (class, options, data); uninitialised-memory clauses are established '
             'dynamically (sentinel differential), not by a Lean data-flow theorem here (see C17); several recorded findings; Props/C19b: complete case analyses replace the hypotheses of the partial theorems (exact refit-purity characterisation, partition of all unfitted entry points, get_instance classes)',
        tech='Lean 4 proof over a hand-written life-cycle model with as-found/repaired variants + history correspondence',
        ref='5 C19'),
    'C04': dict(
        text='Lean 4 theorems about the estimators regenerated from the family files: Gaussian fit = (mean, population std) with '
             'scale > 0 iff non-constant, Uniform fit = (min, range) with all data in the support, Beta start values, the '
             'return-tuple -> dict key maps of the four scipy-MLE families (decide), TruncatedGaussian a/b give exactly the '
             'user/default bounds, SLSQP set-up incl. the (max-min)^2 scale cap with its counter-example, KDE is '
             'gaussian_kde(dataset, bw_method, weights) of the stored dataset (or a resample), executable kernel estimate '
             'with Scott/Silverman/scalar factors, non-negative and integrating to 1.',
        note='DKW-style closeness of scipy optimiser output is statistical: thorough search only (exact binomial rule at 1e-9); '
             'numpy pairwise summation vs left fold compared within 4n ulp; two recorded findings; Props/C04b: exact feasibility characterisation of the TruncatedGaussian box (the former partial clause) with a counterexample to the unrestricted reading',
        tech='Lean 4 proof over translator-regenerated estimators + bit-exact param-map correspondence', ref='5 C04'),
    'C11': dict(
        text='Lean 4 theorems about select_copula: the result is one of the candidates and is Frank for tau <= 0; every '
             'candidate shares the Frank-fit tau and carries its family calibration, refused candidates absent; the '
             'z_right[k] access never fails and equals base[k] for every dataset and increasing grid; descending average '
             'ranks, score sum and first arg-max (ties to the earliest of Frank, Clayton, Gumbel); tail-concentration formulas '
             'and grid regenerated from the source; tied end to end and stage-wise to the real function and its deprecated alias.',
        note='family recovery >= 70% is statistical (deep search only); the real code evaluates part of the curves in float32 '
             '(NEP 50), so curve comparisons use rtol 1e-6 and near-ties are accepted either way',
        tech='Lean 4 proof over a hand model + generated formulas, staged correspondence', ref='5 C11'),
    'C13': dict(
        text='Lean 4 theorems about the container normalisation regenerated from _transform_to_normal: the score plan is '
             'invariant under every column permutation and equal for Series / 1-d / 2-d array forms, row-independent, ignores '
             'extra columns, has the training width; pdf/cdf/log-pdf inherit it; log pdf = log(pdf); scores monotone in each '
             'coordinate given monotone marginals, cdf in [0,1] and coordinate-wise monotone given the MVN CDF spec; pdf and '
             'cdf defined for singular correlations (allow_singular on both); Props/C13b: the executable Cholesky model succeeds '
             'for every symmetric positive definite matrix of every dimension (L lower triangular, positive diagonal, '
             'L L^T = Sigma) and IS the textbook density exp(-z^T Sigma^-1 z / 2) / sqrt((2 pi)^d det Sigma) (Mathlib Matrix.inv/det).',
        note='scipy multivariate_normal pdf/cdf are external symbols (cdf is QMC: never compared tighter than 1e-3); the '
             'Cholesky model is compared with scipy pdf numerically every run',
        tech='Lean 4 proof over plan terms from a translator-regenerated model + bit-exact plan interpretation', ref='5 C13'),
    'C14': dict(
        text='Lean 4 theorems about dict models of every class with key tables regenerated from the AST: from_dict(to_dict(s)) '
             'preserves the observable state for any number of trips, the selecting wrapper reconstructs as the selected '
             'family, JSON encode/decode is the identity on the JSON-able grammar and univariate/bivariate/Gaussian dicts lie '
             'in it (vines provably not), generic entry points dispatch on the recorded type, constants round-trip, to_dict and '
             'from_dict key sets agree for bivariate/Gaussian/vine/tree/edge, vine parents deserialised as copies; tied by '
             'behavioural comparison (to_dict, pdf/cdf/ppf, seeded sample streams) through dict, JSON and pickle.',
        note='pickle is not modelled (behavioural tie only); KDE bw_method/weights not serialised and two edge cases are '
             'recorded findings; get_likelihood compared only where reproducible; Props/C14b: to_dict of the restored model equals the original\'s for any number of trips; vine parents re-linked by value (identity provably not preserved)',
        tech='Lean 4 proof over a hand-written value-grammar model + generated key tables, behavioural correspondence',
        ref='5 C14'),
    'C16': dict(
        text='Lean 4 theorems for every d >= 2, tau matrix, truncation and every accepted sequence of tie-breaking choices: '
             'tree count min(d-1, t) >= 1, tree k is a spanning tree with d-k edges built by growth order, child edges have '
             '|A sym-diff B| = 2 with conditioning set the intersection of size k, proximity (checkConstraint iff shared node), '
             'star in every tree of a center vine and path in every tree of a direct vine, no pair conditioned twice for '
             'center/direct, greedy-cut property of the Prim steps, the adj_set-empty branch unreachable (fit terminates), '
             'sound decidable regular-vine checker; admissible theta from the generated tables; tied by replaying the real '
             'choices through the model (acceptors where Python tie-breaking is unspecified) and running the checker on every '
             'real fitted vine.',
        note='Props/C16b proves maximum-spanning-tree optimality of the Prim growth (exchange argument) and pairs-once for '
             'every regular vine the model can build; the sound checker and a Kruskal weight comparison still run on every real '
             'vine; NaN behaviour of argmax/sorted not modelled',
        tech='Lean 4 proof over a hand-written vine-construction model with refinement acceptors + the construction logic of tree.py/vine.py regenerated from the source by gen_vinebuild and proved equal to the model (Lemmas/VineBuildGen, Props/C16c; ties tv:VineBuild) + structural correspondence',
        ref='5 C16'),
    'C20': dict(
        text='Lean 4 theorem (core Lean): for EVERY program of the write-effect IR, if the checker noParamWrite accepts it then '
             'along every finite trace over its statements, with arbitrary written contents, every caller-owned object is '
             'unchanged (hence a second identical call sees the same arguments); the IR of every public entry point is '
             'regenerated from the source on every run (SSA, content variables, decorators, dispatch, inlining) and the '
             'checker is evaluated on it by the driver; concrete rejected/accepted program shapes proved; plot theorems: the '
             'Real / Synthetic traces are exactly the rows of real[columns] / synth[columns], default columns, arity errors; '
             'tied by deep-snapshot calls of every entry point with every container kind and by Figure.data.',
        note='faithfulness of the IR extraction is validated dynamically (observed mutations within the may-write set; every '
             'accepted entry point shows no mutation), external calls are pure by whitelist; Tree.fit tau_matrix is a recorded finding',
        tech='Lean 4 soundness proof of an effect checker over a translator-regenerated IR + dynamic snapshot correspondence',
        ref='5 C20'),
    'C03': dict(
        text='Lean 4 theorems about definitions regenerated from base.py / gaussian_kde.py: the constant model is the point '
             'mass (step CDF, ppf and sample = c), every ScipyModel query forwards the one parameter dict, so a coherent scipy '
             'family yields all C03 laws incl. integral of pdf = CDF increment and ppf as generalised inverse; the selecting '
             'wrapper delegates; KDE CDF (any CDF-like Phi, weights, bandwidth, data): monotone, <= 1, exactly 0 at the lower '
             'bound, >= -deficit with the deficit bounded by Phi(-5 sigma/h), limits, derivative = kernel density; '
             'percent_point pre-processing (range error, +-inf mapping), residual signs at the bracket, root existence (IVT), '
             'monotonicity; Props/C03b instantiates Phi with the true normal CDF (Mathlib gaussianReal) and bounds the deficit '
             'below 3.9e-6; Props/C03c PROVES the family-coherence hypothesis for the closed forms of uniform, norm, loglaplace and '
             'truncnorm at every admissible parameter (so for these families the laws hold given only that scipy computes the '
             'closed forms); tied by translation validation (own erfc-based Phi, 1e-14) and bitwise forwarding checks.',
        note='scipy family coherence is a hypothesis structure validated on a grid each run; the KDE range clause holds only up '
             'to the truncation deficit (stated exactly); the upper-bracket clause is false near 1 (recorded finding)',
        tech='Lean 4 proof over translator-regenerated definitions + translation validation at Float', ref='5 C03'),
    'C17': dict(
        text='Lean 4 theorems about a plan-term model of the vine data flow: stored pseudo-observations are strictly inside '
             '(0,1) for every input (clamp), each edge takes from its parents the pseudo-observation of its own conditioned '
             'variable and get_likelihood reads only cells written one level below - both under the explicit hypothesis the code '
             'assumes (child.L in parents[0]) with kernel-checked counter-examples on a 4-variable direct vine where it fails - '
             'likelihood = sum of log pair-copula densities at the h-propagated arguments and deterministic under that '
             'hypothesis, sampling visits every variable exactly once (n rows, training columns); tied bit-for-bit by '
             'interpreting the plan with the real bivariate objects (select_copula inputs, edge.U, likelihood under two '
             'np.empty sentinels, _sample_row under a seed).',
        note='Props/C17b proves the hypothesis (goodVine) for every center vine of any dimension, every vine with <= 3 '
             'columns or <= 2 trees and the second tree of any vine, via an explicit conversion from the C16 construction '
             'model, so the clauses are unconditional there; the assumption failing on deeper direct/regular vines is a '
             'recorded finding (two classes, kernel-checked counter-example built by the construction model); statistical '
             'agreement for two-column tables only in deep search',
        tech='Lean 4 proof over a hand-written plan-term model + the index data flow of tree.py/vine.py (edge inputs, child edges, likelihood cells, _sample_row conditions) regenerated from the source by gen_vineflow and proved equal to the model in Props/C17c (18 bridges; theorems and both findings restated over the generated code) + bit-exact plan interpretation on real fitted vines',
        ref='5 C17'),
    'C01': dict(
        text='Lean 4 theorems about a model of GaussianMultivariate.fit/sample: output labels = training labels in order and n '
             'rows for every table, n and draw matrix; column k is ppf_k(Phi(draw column k)) (alignment); a column trained on '
             'constant data is replicate n c; pointwise probability-integral transform Q(Phi z) <= x iff z <= Phi^-1(F x) and '
             'its measure-theoretic form: the push-forward of Mathlib\'s standard normal under Q o Phi has CDF F; Kendall '
             'concordance/discordance/tie counts (hence tau-b) of the sampled columns equal those of the normal draws for '
             'strictly increasing quantile maps, for samples of any length; tied by interpreting the plan with the real fitted '
             'univariates on the recorded multivariate_normal draws (bit-equality).',
        note='Sheppard\'s tau = (2/pi) asin rho and statistical recovery are partial (search-supported); marginal quantile pairs '
             'and norm.cdf are hypothesis structures validated each run; KDE tail +-inf is a recorded finding',
        tech='Lean 4 proof (Mathlib measure theory for the PIT) over a plan-term model + the unconditional sampling path and _fit_columns regenerated from the source (Gen/GaussCond, Gen/GaussTransform; Props/C01b proves generated = model and restates the theorems; tv:GaussCond, tv:GaussTransform) + replay of recorded RNG draws',
        ref='5 C01'),
}


def main():
    props = [json.loads(l) for l in open(os.path.join(V, 'properties.jsonl'))]
    checks = []
    na = []
    for p in props:
        pid = p['id']
        if pid in CLAIMS and os.path.exists(os.path.join(V, 'tools', 'props', pid.lower() + '.py')) \
                and os.path.exists(os.path.join(V, 'lean', 'CopVerif', 'Props', pid + '.lean')):
            c = CLAIMS[pid]
            checks.append({
                'property_id': pid,
                'quick_cmd': f'./check {pid} --tier quick',
                'thorough_cmd': f'./check {pid} --tier thorough',
                'evidence_file': f'evidence/{pid}.json',
                'replay_cmd_template': f'./check {pid} --replay {{path}}',
                'engine': 'lean4',
                'level_claimed': {'category': 'proof', 'text': c['text'], 'design_ref': 'DESIGN.md section ' + c['ref']},
                'level_note': c['note'],
                'technique': c['tech'],
            })
        else:
            na.append({'property_id': pid, 'reason': 'check not built yet (framework under construction); it will be '
                       'claimed once its theorems and tie are in place'})
    m = {
        'version': 1,
        'setup_cmd': './setup.sh',
        'hooks': {'guard': 'COPULAS_VERIF', 'enable': 'no source hooks: checks import /repo\'s working tree in-process and '
                  'observe through the public API plus harness-side wrapping',
                  'baseline_off_cmd': 'cd /repo && /venv/bin/python -m pytest -ra -q -p no:cacheprovider --timeout=900 '
                  '--continue-on-collection-errors', 'source_commits': [], 'add_only': True},
        'engines': [{'name': 'lean4', 'path': 'lean/', 'serves_properties': [c['property_id'] for c in checks],
                     'kind_free_text': 'Lean 4.33 + Mathlib proofs over models regenerated from /repo (tools/regen.py) or '
                     'hand-written and tied by correspondence (tools/props/*.py, lean/Main/*.lean drivers)'}],
        'checks': checks,
        'not_applicable': na,
        'notes': 'Lean 4 proof-based verification; see DESIGN.md. Exit codes: 0 held, 1 violation, 2 infrastructure.',
    }
    json.dump(m, open(os.path.join(V, 'MANIFEST.json'), 'w'), indent=1)
    print(f'{len(checks)} checks, {len(na)} not_applicable')


if __name__ == '__main__':
    main()
