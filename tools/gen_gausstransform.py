"""Translator target 'GaussTransform' -> lean/CopVerif/Gen/GaussTransform.lean (tie (T), property C13).

What is read off the AST of /repo (never by importing copulas):

* `copulas/utils.py`            `EPSILON = np.finfo(np.<float type>).eps`  ->  exact rational `epsilon`;
* `GaussianMultivariate._transform_to_normal` (gaussian.py): the WHOLE body, statement by statement,
  against the one control shape the hand-written model (Model/GaussTransform.lean) is built on
      if isinstance(X, pd.Series): X = X.to_frame().T
      elif not isinstance(X, pd.DataFrame):
          if len(X.shape) == 1: X = [X]
          X = pd.DataFrame(X, columns=self.columns)
      U = []
      for column_name, univariate in zip(self.columns, self.univariates):
          if column_name in X:
              column = X[column_name]
              U.append(univariate.cdf(column.to_numpy()).clip(<lo>, <hi>))
      return stats.norm.ppf(np.column_stack(U))
  emitted as ONE Lean definition `transformToNormal` over a record `Prims` of external primitives
  (pandas / numpy / scipy operations are parameters; only the glue is translated).  The clip bounds
  `<lo>`, `<hi>` are translated as numeric expressions (`clipLo`, `clipHi`).  Any other loop source
  (`X.columns`), membership test, positional access (`X.iloc[:, i]`), a dropped clip ... is
  `Untranslatable` -> broken obligation `translate:GaussTransform`;
* `GaussianMultivariate.probability_density` / `cumulative_distribution`: `self.check_fit()`;
  `transformed = self._transform_to_normal(X)`; `return stats.multivariate_normal.pdf(transformed,
  cov=self.correlation, allow_singular=<bool>)` resp. `.cdf(transformed, cov=self.correlation)`;
* `GaussianMultivariate._fit_columns` / `fit` / `_validate_input`: `self.columns, self.univariates` are the training
  table's columns in TABLE order, one pass over `X.items()` (emitted as `fitColumns`); a sort / filter of the columns
  is `Untranslatable` (a plain array query is labelled with `self.columns`, so this order IS the array convention);
* `Multivariate.log_probability_density` (multivariate/base.py): `return np.log(self.probability_density(X))`,
  and the aliases `pdf` / `cdf`.
"""
import ast
import os

from pyast2lean import ExprTx, Untranslatable, find_class, find_method, strip_doc

TARGET = 'GaussTransform'
GC_FILE = 'copulas/multivariate/gaussian.py'
BASE_FILE = 'copulas/multivariate/base.py'
UT_FILE = 'copulas/utils.py'
FINFO_EPS = {'float16': (1, 2 ** 10), 'float32': (1, 2 ** 23), 'float64': (1, 2 ** 52)}


def _parse(repo, rel):
    path = os.path.join(repo, rel)
    with open(path) as f:
        return ast.parse(f.read(), filename=path)


def _one(found, where, what):
    if len(found) != 1:
        raise Untranslatable(where, f'expected exactly one {what}, found {len(found)}')
    return found[0]


def _src(n):
    return ast.unparse(n)


def _expect(node, text, where, what):
    got = _src(node)
    if got != text:
        raise Untranslatable(f'{where}:{getattr(node, "lineno", "?")}', f'{what}: expected `{text}`, found `{got[:90]}`')


def _epsilon(repo, report):
    tree = _parse(repo, UT_FILE)
    stores = [n for n in ast.walk(tree) if isinstance(n, ast.Name) and n.id == 'EPSILON' and isinstance(n.ctx, ast.Store)]
    _one(stores, UT_FILE, 'binding of EPSILON')
    assigns = [n for n in tree.body if isinstance(n, ast.Assign) and len(n.targets) == 1 and n.targets[0] is stores[0]]
    node = _one(assigns, UT_FILE, 'module-level assignment `EPSILON = ...`')
    v = node.value
    ok = (isinstance(v, ast.Attribute) and v.attr == 'eps' and isinstance(v.value, ast.Call)
          and _src(v.value.func) == 'np.finfo' and len(v.value.args) == 1 and not v.value.keywords
          and isinstance(v.value.args[0], ast.Attribute) and _src(v.value.args[0].value) == 'np'
          and v.value.args[0].attr in FINFO_EPS)
    if not ok:
        raise Untranslatable(f'{UT_FILE}:{node.lineno}', f'EPSILON = {_src(v)[:60]} is not np.finfo(np.<float type>).eps')
    num, den = FINFO_EPS[v.value.args[0].attr]
    report.append((UT_FILE, 'EPSILON', node.lineno, node.end_lineno))
    return f'((ofNat {num}) / (ofNat {den}))', v.value.args[0].attr


def _transform(cls, tx):
    """match the body of `_transform_to_normal`; -> (clip_lo, clip_hi) as Lean terms."""
    fn = find_method(cls, '_transform_to_normal')
    where = f'{GC_FILE}:_transform_to_normal'
    if [a.arg for a in fn.args.args] != ['self', 'X'] or fn.args.vararg or fn.args.kwarg or fn.args.kwonlyargs \
            or fn.decorator_list:
        raise Untranslatable(f'{GC_FILE}:{fn.lineno}', 'signature is not `_transform_to_normal(self, X)` without decorators')
    body = strip_doc(fn.body)
    if len(body) != 4:
        raise Untranslatable(f'{GC_FILE}:{fn.lineno}', f'body has {len(body)} statements, expected 4 '
                             '(container normalisation `if`; `U = []`; the column loop; `return`)')
    norm, init, loop, ret = body
    # --- 1. container normalisation
    if not isinstance(norm, ast.If):
        raise Untranslatable(f'{GC_FILE}:{norm.lineno}', 'first statement is not the container `if`')
    _expect(norm.test, 'isinstance(X, pd.Series)', where, 'Series test')
    if len(norm.body) != 1:
        raise Untranslatable(f'{GC_FILE}:{norm.lineno}', 'Series branch is not a single statement')
    _expect(norm.body[0], 'X = X.to_frame().T', where, 'Series branch')
    if len(norm.orelse) != 1 or not isinstance(norm.orelse[0], ast.If) or norm.orelse[0].orelse:
        raise Untranslatable(f'{GC_FILE}:{norm.lineno}', 'no `elif not isinstance(X, pd.DataFrame):` without else')
    nf = norm.orelse[0]
    _expect(nf.test, 'not isinstance(X, pd.DataFrame)', where, 'non-frame test')
    if len(nf.body) != 2 or not isinstance(nf.body[0], ast.If) or nf.body[0].orelse or len(nf.body[0].body) != 1:
        raise Untranslatable(f'{GC_FILE}:{nf.lineno}', 'non-frame branch is not `if …: X = [X]` + `X = pd.DataFrame(…)`')
    _expect(nf.body[0].test, 'len(X.shape) == 1', where, '1-d test')
    _expect(nf.body[0].body[0], 'X = [X]', where, '1-d wrap')
    _expect(nf.body[1], 'X = pd.DataFrame(X, columns=self.columns)', where, 'frame construction')
    # --- 2. U = []
    _expect(init, 'U = []', where, 'accumulator')
    # --- 3. the loop
    if not isinstance(loop, ast.For) or loop.orelse:
        raise Untranslatable(f'{GC_FILE}:{loop.lineno}', 'third statement is not a plain `for` loop')
    _expect(loop.target, '(column_name, univariate)', where, 'loop target')
    _expect(loop.iter, 'zip(self.columns, self.univariates)', where, 'loop source (must be the TRAINING columns)')
    if len(loop.body) != 1 or not isinstance(loop.body[0], ast.If) or loop.body[0].orelse:
        raise Untranslatable(f'{GC_FILE}:{loop.lineno}', 'loop body is not a single `if column_name in X:` without else')
    guard = loop.body[0]
    _expect(guard.test, 'column_name in X', where, 'membership test (by LABEL)')
    if len(guard.body) != 2:
        raise Untranslatable(f'{GC_FILE}:{guard.lineno}', 'guarded body is not `column = X[column_name]` + `U.append(…)`')
    _expect(guard.body[0], 'column = X[column_name]', where, 'column access (by LABEL)')
    app = guard.body[1]
    ok = (isinstance(app, ast.Expr) and isinstance(app.value, ast.Call) and _src(app.value.func) == 'U.append'
          and len(app.value.args) == 1 and not app.value.keywords)
    if not ok:
        raise Untranslatable(f'{GC_FILE}:{app.lineno}', f'not `U.append(<expr>)`: {_src(app)[:80]}')
    clip = app.value.args[0]
    ok = (isinstance(clip, ast.Call) and isinstance(clip.func, ast.Attribute) and clip.func.attr == 'clip'
          and len(clip.args) == 2 and not clip.keywords)
    if not ok:
        raise Untranslatable(f'{GC_FILE}:{app.lineno}', f'appended value is not `<cdf>.clip(lo, hi)`: {_src(clip)[:80]}')
    _expect(clip.func.value, 'univariate.cdf(column.to_numpy())', where, 'clip receiver')
    lo, hi = tx.tx(clip.args[0]), tx.tx(clip.args[1])
    # --- 4. return
    if not isinstance(ret, ast.Return):
        raise Untranslatable(f'{GC_FILE}:{ret.lineno}', 'last statement is not `return`')
    _expect(ret.value, 'stats.norm.ppf(np.column_stack(U))', where, 'returned value')
    return fn, lo, hi


def _density(cls, name, callee, kwargs, optional=()):
    """`self.check_fit(); transformed = self._transform_to_normal(X); return stats.multivariate_normal.<callee>(
    transformed, cov=self.correlation[, allow_singular=<bool>])` -> dict of extracted bool keywords."""
    fn = find_method(cls, name)
    where = f'{GC_FILE}:{name}'
    if [a.arg for a in fn.args.args] != ['self', 'X'] or fn.decorator_list:
        raise Untranslatable(f'{GC_FILE}:{fn.lineno}', f'signature is not `{name}(self, X)` without decorators')
    body = strip_doc(fn.body)
    if len(body) != 3:
        raise Untranslatable(f'{GC_FILE}:{fn.lineno}', f'{name}: body has {len(body)} statements, expected 3')
    _expect(body[0], 'self.check_fit()', where, 'fit guard')
    _expect(body[1], 'transformed = self._transform_to_normal(X)', where, 'scores')
    ret = body[2]
    if not (isinstance(ret, ast.Return) and isinstance(ret.value, ast.Call)):
        raise Untranslatable(f'{GC_FILE}:{ret.lineno}', f'{name}: last statement is not `return <call>`')
    call = ret.value
    _expect(call.func, f'stats.multivariate_normal.{callee}', where, 'scipy entry point')
    if len(call.args) != 1:
        raise Untranslatable(f'{GC_FILE}:{ret.lineno}', f'{name}: expected one positional argument')
    _expect(call.args[0], 'transformed', where, 'quantile argument')
    kws = {k.arg: k.value for k in call.keywords}
    if not (set(['cov'] + kwargs) <= set(kws) <= set(['cov'] + kwargs + list(optional))) or len(kws) != len(call.keywords):
        raise Untranslatable(f'{GC_FILE}:{ret.lineno}', f'{name}: keywords {sorted(kws)} not cov + {kwargs} (+ optional {list(optional)})')
    _expect(kws['cov'], 'self.correlation', where, 'cov= (must be the STORED correlation)')
    out = {k: 'false' for k in optional}      # scipy's default: allow_singular=False
    for k in [k for k in kws if k != 'cov']:
        v = kws[k]
        if not (isinstance(v, ast.Constant) and isinstance(v.value, bool)):
            raise Untranslatable(f'{GC_FILE}:{ret.lineno}', f'{name}: {k}= is not a bool literal')
        out[k] = 'true' if v.value else 'false'
    return fn, out


def _base(repo, report):
    tree = _parse(repo, BASE_FILE)
    cls = find_class(tree, 'Multivariate')
    spans = {}
    for name, text in (('log_probability_density', 'return np.log(self.probability_density(X))'),
                       ('pdf', 'return self.probability_density(X)'),
                       ('cdf', 'return self.cumulative_distribution(X)')):
        fn = find_method(cls, name)
        if [a.arg for a in fn.args.args] != ['self', 'X'] or fn.decorator_list:
            raise Untranslatable(f'{BASE_FILE}:{fn.lineno}', f'signature is not `{name}(self, X)` without decorators')
        body = strip_doc(fn.body)
        if len(body) != 1:
            raise Untranslatable(f'{BASE_FILE}:{fn.lineno}', f'{name}: body is not a single statement')
        _expect(body[0], text, f'{BASE_FILE}:{name}', 'body')
        report.append((BASE_FILE, name, fn.lineno, fn.end_lineno))
        spans[name] = fn
    return spans


def _not_overridden(cls, names):
    for n in cls.body:
        if isinstance(n, ast.FunctionDef) and n.name in names:
            raise Untranslatable(f'{GC_FILE}:{n.lineno}', f'GaussianMultivariate overrides {n.name}')


def _no_log(body):
    return [n for n in strip_doc(body)
            if not (isinstance(n, ast.Expr) and isinstance(n.value, ast.Call) and _src(n.value.func).startswith('LOGGER.'))]


def _fit_columns(cls):
    """`_fit_columns`: ONE pass over `X.items()` (the training table's columns, in table order) appending the
    column name and its fitted univariate; `fit` stores exactly that pair; `_validate_input` only wraps a
    non-DataFrame in `pd.DataFrame(X)`.  Any re-ordering / filtering of the columns is Untranslatable."""
    fn = find_method(cls, '_fit_columns')
    where = f'{GC_FILE}:_fit_columns'
    if [a.arg for a in fn.args.args] != ['self', 'X'] or fn.decorator_list:
        raise Untranslatable(f'{GC_FILE}:{fn.lineno}', 'signature is not `_fit_columns(self, X)` without decorators')
    body = _no_log(fn.body)
    if len(body) != 4 or not isinstance(body[2], ast.For) or body[2].orelse:
        raise Untranslatable(f'{GC_FILE}:{fn.lineno}', '_fit_columns is not `columns = []; univariates = []; for …; return …`')
    _expect(body[0], 'columns = []', where, 'accumulator')
    _expect(body[1], 'univariates = []', where, 'accumulator')
    loop = body[2]
    _expect(loop.target, '(column_name, column)', where, 'loop target')
    _expect(loop.iter, 'X.items()', where, 'loop source (must be the training table columns in TABLE order)')
    lb = _no_log(loop.body)
    want = ['distribution = self._get_distribution_for_column(column_name)',
            'univariate = self._fit_column(column, distribution, column_name)',
            'columns.append(column_name)', 'univariates.append(univariate)']
    if len(lb) != len(want):
        raise Untranslatable(f'{GC_FILE}:{loop.lineno}', f'_fit_columns loop body has {len(lb)} statements, expected {len(want)}')
    for node, text in zip(lb[:2], want[:2]):
        _expect(node, text, where, 'loop body')
    # the two appends go to two different lists: either order is the same loop
    if sorted(_src(n) for n in lb[2:]) != sorted(want[2:]):
        _expect(lb[2], want[2], where, 'loop body')
        _expect(lb[3], want[3], where, 'loop body')
    _expect(body[3], 'return (columns, univariates)', where, 'result')
    # fit stores the pair, computed from the validated input
    fit = find_method(cls, 'fit')
    fb = [_src(n) for n in _no_log(fit.body)]
    need = ['X = self._validate_input(X)', 'columns, univariates = self._fit_columns(X)', 'self.columns = columns',
            'self.univariates = univariates']
    pos = []
    for text in need:
        if fb.count(text) != 1:
            raise Untranslatable(f'{GC_FILE}:{fit.lineno}', f'fit: expected exactly one `{text}`')
        pos.append(fb.index(text))
    if pos != sorted(pos):
        raise Untranslatable(f'{GC_FILE}:{fit.lineno}', 'fit: validate / _fit_columns / store are not in this order')
    stores = [n for n in ast.walk(cls) if isinstance(n, (ast.Assign, ast.AugAssign, ast.AnnAssign))
              for t in (n.targets if isinstance(n, ast.Assign) else [n.target])
              if _src(t) in ('self.columns', 'self.univariates')]
    if len(stores) != 2:
        raise Untranslatable(f'{GC_FILE}:{cls.lineno}', f'self.columns / self.univariates are assigned {len(stores)} times, expected 2 (in fit)')
    vi = find_method(cls, '_validate_input')
    vb = [_src(n) for n in _no_log(vi.body)]
    if vb != ['if not isinstance(X, pd.DataFrame):\n    X = pd.DataFrame(X)', 'return X']:
        raise Untranslatable(f'{GC_FILE}:{vi.lineno}', f'_validate_input body changed: {vb}')
    return fn, fit, vi


def generate(repo):
    report = []
    eps_term, eps_type = _epsilon(repo, report)
    tree = _parse(repo, GC_FILE)
    imps = [n for n in tree.body if isinstance(n, ast.ImportFrom) and n.module == 'copulas.utils'
            and any(a.name == 'EPSILON' and a.asname in (None, 'EPSILON') for a in n.names)]
    _one(imps, GC_FILE, '`from copulas.utils import EPSILON`')
    rebound = [n for n in ast.walk(tree) if isinstance(n, ast.Name) and n.id == 'EPSILON' and isinstance(n.ctx, ast.Store)]
    if rebound:
        raise Untranslatable(f'{GC_FILE}:{rebound[0].lineno}', 'EPSILON is rebound in gaussian.py')
    cls = find_class(tree, 'GaussianMultivariate')
    if [_src(b) for b in cls.bases] != ['Multivariate']:
        raise Untranslatable(f'{GC_FILE}:{cls.lineno}', 'GaussianMultivariate does not derive from Multivariate only')
    tx = ExprTx(GC_FILE, consts={'EPSILON': 'epsilon'})
    ttn, lo, hi = _transform(cls, tx)
    report.append((GC_FILE, '_transform_to_normal', ttn.lineno, ttn.end_lineno))
    pdf, pdf_kw = _density(cls, 'probability_density', 'pdf', ['allow_singular'])
    report.append((GC_FILE, 'probability_density', pdf.lineno, pdf.end_lineno))
    cdf, cdf_kw = _density(cls, 'cumulative_distribution', 'cdf', [], optional=['allow_singular'])
    report.append((GC_FILE, 'cumulative_distribution', cdf.lineno, cdf.end_lineno))
    fc, fit, vi = _fit_columns(cls)
    report.append((GC_FILE, '_fit_columns', fc.lineno, fc.end_lineno))
    report.append((GC_FILE, 'fit', fit.lineno, fit.end_lineno))
    report.append((GC_FILE, '_validate_input', vi.lineno, vi.end_lineno))
    _not_overridden(cls, ('log_probability_density', 'pdf', 'cdf'))
    _base(repo, report)

    text = f'''import CopVerif.Base.Num
/-! GENERATED by tools/regen.py (tools/gen_gausstransform.py) from /repo on every run - do not edit.
    `GaussianMultivariate._transform_to_normal`, `probability_density`, `cumulative_distribution`
    (copulas/multivariate/gaussian.py) and `Multivariate.log_probability_density`, `pdf`, `cdf`
    (copulas/multivariate/base.py): the GLUE only; every pandas / numpy / scipy operation is a
    parameter (record `Prims`, or an explicit argument). -/
set_option linter.unusedVariables false

namespace CopVerif.Gen.GaussTransform
open CopVerif NumFns

section
variable {{α : Type}} [Add α] [Sub α] [Mul α] [Div α] [Neg α] [NumFns α]

/-- `copulas.utils.EPSILON = np.finfo(np.{eps_type}).eps` as an exact rational. -/
def epsilon : α := {eps_term}
/-- `univariate.cdf(column.to_numpy()).clip(clipLo, clipHi)` -/
def clipLo : α := {lo}
def clipHi : α := {hi}
end

/-- The external operations `_transform_to_normal` is glued from.  `X` query container, `F` DataFrame,
    `L` label, `U` fitted univariate, `C` what `X[column_name]` returns, `V` a clipped cdf block,
    `M` score matrix, `α` scalars. -/
structure Prims (X F L U C V M α : Type) where
  /-- `isinstance(X, pd.Series)` -/
  isSeries : X → Bool
  /-- `isinstance(X, pd.DataFrame)` -/
  isDataFrame : X → Bool
  /-- `len(X.shape) == 1` -/
  shapeLenIsOne : X → Bool
  /-- `X.to_frame().T` -/
  toFrameT : X → Except Err F
  /-- `X` itself when it already is a DataFrame -/
  asFrame : X → Except Err F
  /-- `[X]` -/
  listOf : X → X
  /-- `pd.DataFrame(X, columns=…)` -/
  dataFrame : X → List L → Except Err F
  /-- `column_name in X` -/
  contains : F → L → Bool
  /-- `X[column_name]` -/
  getitem : F → L → C
  /-- `univariate.cdf(column.to_numpy())` -/
  cdf : U → C → V
  /-- `….clip(lo, hi)` -/
  clip : V → α → α → V
  /-- `np.column_stack(U)` -/
  columnStack : List V → Except Err M
  /-- `stats.norm.ppf(…)` -/
  normPpf : M → M

section
variable {{X F L U C V M α : Type}} [Add α] [Sub α] [Mul α] [Div α] [Neg α] [NumFns α]

/-- container normalisation
```
if isinstance(X, pd.Series): X = X.to_frame().T
elif not isinstance(X, pd.DataFrame):
    if len(X.shape) == 1: X = [X]
    X = pd.DataFrame(X, columns=self.columns)
``` -/
def normalise (P : Prims X F L U C V M α) (selfColumns : List L) (x : X) : Except Err F :=
  if P.isSeries x then P.toFrameT x
  else if !(P.isDataFrame x) then
    let x := if P.shapeLenIsOne x then P.listOf x else x
    P.dataFrame x selfColumns
  else P.asFrame x

/-- the column loop
```
U = []
for column_name, univariate in zip(self.columns, self.univariates):
    if column_name in X:
        column = X[column_name]
        U.append(univariate.cdf(column.to_numpy()).clip(clipLo, clipHi))
``` -/
def columnLoop (P : Prims X F L U C V M α) (selfColumns : List L) (selfUnivariates : List U) (frame : F) : List V :=
  ((selfColumns.zip selfUnivariates).filter fun cu => P.contains frame cu.1).map fun cu =>
    P.clip (P.cdf cu.2 (P.getitem frame cu.1)) clipLo clipHi

/-- `GaussianMultivariate._transform_to_normal` ({GC_FILE}:{ttn.lineno}-{ttn.end_lineno}). -/
def transformToNormal (P : Prims X F L U C V M α) (selfColumns : List L) (selfUnivariates : List U) (x : X) :
    Except Err M := do
  let frame ← normalise P selfColumns x
  let stacked ← P.columnStack (columnLoop P selfColumns selfUnivariates frame)
  pure (P.normPpf stacked)
end

section
variable {{X M C R : Type}}

/-- `GaussianMultivariate.probability_density` ({GC_FILE}:{pdf.lineno}-{pdf.end_lineno}):
    `stats.multivariate_normal.pdf(transformed, cov=self.correlation, allow_singular={pdf_kw['allow_singular']})`. -/
def probabilityDensity (checkFit : Except Err Unit) (transformToNormal : X → Except Err M)
    (mvnPdf : M → C → Bool → Except Err R) (selfCorrelation : C) (x : X) : Except Err R := do
  checkFit
  let transformed ← transformToNormal x
  mvnPdf transformed selfCorrelation {pdf_kw['allow_singular']}

/-- the `allow_singular` flag of the `multivariate_normal.cdf` call (scipy's default `False` when absent). -/
def cdfAllowSingular : Bool := {cdf_kw['allow_singular']}

/-- `GaussianMultivariate.cumulative_distribution` ({GC_FILE}:{cdf.lineno}-{cdf.end_lineno}):
    `stats.multivariate_normal.cdf(transformed, cov=self.correlation)`; the flag is `allow_singular`
    (scipy's default `False` when the keyword is absent). -/
def cumulativeDistribution (checkFit : Except Err Unit) (transformToNormal : X → Except Err M)
    (mvnCdf : M → C → Bool → Except Err R) (selfCorrelation : C) (x : X) : Except Err R := do
  checkFit
  let transformed ← transformToNormal x
  mvnCdf transformed selfCorrelation cdfAllowSingular

/-- `Multivariate.log_probability_density`: `return np.log(self.probability_density(X))`. -/
def logProbabilityDensity (npLog : R → R) (probabilityDensity : X → Except Err R) (x : X) : Except Err R := do
  let p ← probabilityDensity x
  pure (npLog p)

/-- `Multivariate.pdf`: `return self.probability_density(X)`. -/
def pdf (probabilityDensity : X → Except Err R) (x : X) : Except Err R := probabilityDensity x

/-- `Multivariate.cdf`: `return self.cumulative_distribution(X)`. -/
def cdf (cumulativeDistribution : X → Except Err R) (x : X) : Except Err R := cumulativeDistribution x
end

section
variable {{L C D U : Type}}

/-- `GaussianMultivariate._fit_columns` ({GC_FILE}:{fc.lineno}-{fc.end_lineno}); `items` = `X.items()`, the columns of
    the (validated) training table in TABLE order:
```
columns = []; univariates = []
for column_name, column in X.items():
    distribution = self._get_distribution_for_column(column_name)
    univariate = self._fit_column(column, distribution, column_name)
    columns.append(column_name); univariates.append(univariate)
return columns, univariates
```
    `fit` stores the pair as `self.columns, self.univariates`. -/
def fitColumns (items : List (L × C)) (getDistributionForColumn : L → D) (fitColumn : C → D → L → U) :
    List L × List U :=
  items.foldl (fun acc lc => (acc.1 ++ [lc.1], acc.2 ++ [fitColumn lc.2 (getDistributionForColumn lc.1) lc.1]))
    ([], [])
end

end CopVerif.Gen.GaussTransform
'''
    return text, report


if __name__ == '__main__':
    import sys
    t, rep = generate(sys.argv[1] if len(sys.argv) > 1 else '/repo')
    print(t)
    print(rep, file=sys.stderr)
