"""C14 — Serialisation round-trips preserve every model's observable behaviour.

Tie (K + T).  For every generated model (class x constructor options x training data) the REAL
`to_dict()` is sent to the Lean model (`Model/Serial.lean` instantiated with the tables generated
from the source, `Gen/Serial.lean`) and the following correspondences are checked:

  corr:tables            generated family / subclass tables = the classes the package really has;
                         generated key lists = keys of the real dicts; generated `_fit` /
                         `_fit_constant` key sets = keys of the real `_params`
  corr:fit_constant      the `_params` the model predicts for a constant fit (table instantiated with the
                         data's constant, what `_fit` stored for `fromFit` entries) = the real `_params`
  corr:univariate        model `Univariate.from_dict(d)` = real: class, constant flag, constant value,
                         `to_dict()` of the result
  corr:bivariate / corr:multivariate / corr:trips   same for Bivariate / Multivariate.from_dict
                         (incl. "parents are fresh copies") and for 3 further trips
  corr:json              model `jsonDecode(jsonEncode d)` = real `json.loads(json.dumps(d))`
                         (`err` <-> TypeError for vine dicts)
  behav:<kind>           whenever the model predicts equal observable state (`roundtrip`), the real
                         rebuilt objects (from_dict, JSON-through, save/load, 3 trips) are
                         behaviourally identical to the original: `to_dict()` deep-equal (NaN-aware),
                         pdf / cdf / percent_point / partial_derivative bit-equal at random inputs,
                         sample streams bit-equal under equal seeds; unfitted -> unfitted; the
                         generic entry points dispatch on the recorded type.
Cases on which the MODEL predicts a different observable state (constructor options of a
model-rebuilding family are not serialised; a constant whose extracted key came from `_fit`; a
non-constant fit whose parameters satisfy `_is_constant`) are not obligations: they are the
`_counterexample` theorems.  `search` runs the property's own statement on them (and on larger
inputs) and reports every real divergence with `ctx.fail_input`.
"""
import json
import os
import shutil
import warnings

import numpy as np
import pandas as pd

import vcommon as vc

warnings.filterwarnings('ignore')

GEN_TARGETS = ('Serial',)
DRIVER_MAIN = 'Main/Serial.lean'
DRIVER_TARGETS = ['CopVerif.Driver.Serial']
ALWAYS_SEARCH = True
RULE = ('univariate: 8 families + the selecting wrapper (short candidate lists) x constructor options (KDE bw_method '
        'None/scalar/"silverman"/"scott", weights, sample_size; TruncatedGaussian bounds) x data kinds (normal, '
        'lognormal, uniform, bounded, heavy-tailed, tiny n, scale 1e6 / 1e-6, two-valued, constants 0, negative, '
        'tiny RELATIVE spread: epoch seconds within one hour, 1 + U(0,1e-7), nanometre lengths, 1e12 + N(0,1), values 1..1000 '
        'ulps apart — for the KDE, wrappers selecting the KDE, KDE columns of a Gaussian copula and every other family; '
        '1e10, 1e-12, 1/3); bivariate: Clayton / Frank / Gumbel / Independence fitted on comonotone..independent '
        'pairs incl. tau = 1 (Clayton theta = inf), tau < 0 (Frank), hand-set edge thetas, unfitted; Gaussian '
        'multivariate: 2-5 columns, str / int / mixed labels, per-column distributions incl. wrapper, KDE and '
        'constant columns, hand-made asymmetric correlation dicts; vines: 3-4 columns x ~60 rows x center / direct '
        '/ regular x truncation.  A case is distinct by (class, options, data kind, size, seed path) and '
        'non-trivial when the model was fitted (or is a deliberately unfitted one).')
PARTIAL = ['Props/C14b: roundtrip_todict / roundtrip_iter_todict (to_dict of the restored model equals the original\'s, any number of trips) and vine_relink at full strength (parents of tree k+1 are, by value, edges of tree k; identity of parent objects is provably NOT preserved: vine_relink_identity_counterexample)',
           'vine_relink_partial: object identity is not preserved by from_dict (parents are copies) — proved as stated',
           'save/load through pickle is not modelled in Lean (assumption: pickle copies the object graph); it is '
           'covered by the behavioural tie only',
           'roundtrip assumes default model options and a constant flag that agrees with _is_constant(): the '
           'complementary cases are constant_roundtrip_counterexample / options_not_serialised_counterexample',
           'same observable state => same scipy calls => same outputs is an assumption, validated by behav:*']
ASSUMPTIONS = ['pickle.dump/load reproduces the object graph',
               'json: float.__repr__ round-trips binary64 exactly; NaN / Infinity are written and read back',
               'scipy / numpy functions are deterministic functions of their arguments (and of the RNG state)',
               'Python int vs numpy integer: numpy integers are treated as not JSON-able objects']

SCRATCH = '/scratch/c14'
NAN_BITS = '7ff8000000000000'


# ============================================================================================ wire format
def _hex(s):
    return s.encode('utf-8').hex()


def to_wire(x, out=None):
    """Python value (what to_dict returns) -> token list of the driver's value grammar."""
    top = out is None
    if top:
        out = []
    from enum import Enum
    if isinstance(x, bool):
        out.append('T' if x else 'F')
    elif isinstance(x, np.bool_):
        out.append('O' + _hex('numpy.bool') + ':' + _hex(repr(bool(x))))
    elif isinstance(x, float):       # includes np.float64
        out.append('f' + (NAN_BITS if x != x else vc.f2h(x)))
    elif isinstance(x, int):
        out.append('i%d' % x)
    elif isinstance(x, np.integer):
        out.append('O' + _hex('numpy.integer') + ':' + _hex(str(int(x))))
    elif isinstance(x, np.floating):
        out.append('O' + _hex('numpy.floating') + ':' + _hex(repr(x)))
    elif isinstance(x, str):
        out.append('s' + _hex(x))
    elif x is None:
        out.append('N')
    elif isinstance(x, Enum):
        out.append('O' + _hex(type(x).__name__) + ':' + _hex(x.name))
    elif isinstance(x, list):
        out.append('L%d' % len(x))
        for v in x:
            to_wire(v, out)
    elif isinstance(x, dict):
        out.append('D%d' % len(x))
        for k, v in x.items():
            if not isinstance(k, str):
                raise TypeError(f'non-string dict key {k!r}')
            out.append('s' + _hex(k))
            to_wire(v, out)
    elif isinstance(x, (set, frozenset)):
        items = sorted(x, key=lambda v: (int(v) if isinstance(v, (int, np.integer)) else 0, repr(v)))
        out.append('S%d' % len(items))
        for v in items:
            to_wire(v, out)
    elif isinstance(x, pd.Index):
        out.append('O' + _hex('pandas.Index') + ':' + _hex(repr(list(x))))
    elif isinstance(x, tuple):
        out.append('O' + _hex('tuple') + ':' + _hex(repr(x)))
    elif isinstance(x, np.ndarray):
        out.append('O' + _hex('numpy.ndarray') + ':' + _hex(repr(x.tolist())))
    else:
        out.append('O' + _hex(type(x).__name__) + ':' + _hex(repr(x)[:80]))
    return out if top else None


def wire(x):
    return ' '.join(to_wire(x))


def deep_equal(a, b):
    """NaN-aware deep equality of two to_dict() results."""
    try:
        return wire(a) == wire(b)
    except TypeError:
        return False


def first_diff(a, b, path=''):
    if isinstance(a, dict) and isinstance(b, dict):
        if list(a.keys()) != list(b.keys()):
            return f'{path}: keys {list(a.keys())} vs {list(b.keys())}'
        for k in a:
            d = first_diff(a[k], b[k], f'{path}.{k}')
            if d:
                return d
        return None
    if isinstance(a, list) and isinstance(b, list):
        if len(a) != len(b):
            return f'{path}: len {len(a)} vs {len(b)}'
        for i, (x, y) in enumerate(zip(a, b)):
            d = first_diff(x, y, f'{path}[{i}]')
            if d:
                return d
        return None
    try:
        same = wire(a) == wire(b)
    except TypeError:
        same = False
    return None if same else f'{path}: {str(a)[:60]!r} vs {str(b)[:60]!r}'


# ============================================================================================ helpers
def bits_equal(a, b):
    """bit-equality of two numeric outputs, NaN == NaN."""
    try:
        a = np.asarray(a, dtype=float)
        b = np.asarray(b, dtype=float)
    except Exception:
        return False
    if a.shape != b.shape:
        return False
    return bool(np.all((a == b) | (np.isnan(a) & np.isnan(b))))


def outcome(fn):
    """('ok', value) | ('err', exception kind)"""
    try:
        with np.errstate(all='ignore'):
            return ('ok', fn())
    except Exception as e:  # noqa
        return ('err', vc.exc_kind(e) if not isinstance(e, (AttributeError, KeyError, IndexError)) else type(e).__name__)


def same_outcome(r1, r2, atol=None):
    if r1[0] != r2[0]:
        return False
    if r1[0] == 'err':
        return r1[1] == r2[1]
    a, b = r1[1], r2[1]
    if isinstance(a, pd.DataFrame):
        if not isinstance(b, pd.DataFrame) or list(a.columns) != list(b.columns):
            return False
        a, b = a.to_numpy(), b.to_numpy()
    if atol is not None:
        a = np.asarray(a, dtype=float)
        b = np.asarray(b, dtype=float)
        return a.shape == b.shape and bool(np.all((np.abs(a - b) <= atol) | (np.isnan(a) & np.isnan(b))))
    return bits_equal(a, b)


class GlobalSeed:
    """run a block under np.random.seed(k) and restore the global generator afterwards."""

    def __init__(self, k):
        self.k = k

    def __enter__(self):
        self.state = np.random.get_state()
        np.random.seed(self.k)

    def __exit__(self, *a):
        np.random.set_state(self.state)


class NpProxy:
    """stand-in for the `np` global of copulas.multivariate.tree / vine whose `empty` is poisoned."""

    def __init__(self, fill):
        self._fill = fill

    def empty(self, shape, *a, **k):
        return np.full(shape, self._fill)

    def __getattr__(self, name):
        return getattr(np, name)


def _quiet_sample(m, n):
    """draw from a model without leaving a trace in numpy's global generator."""
    with GlobalSeed(12345):
        return m.sample(n)


def _quiet_cond(g, conditions):
    with GlobalSeed(12345):
        return g.sample(2, conditions=conditions)


def scratch_dir(ctx, tag):
    d = os.path.join(SCRATCH, f'tmp-{os.getpid()}-{ctx.seed}-{tag}')
    os.makedirs(d, exist_ok=True)
    return d


# ============================================================================================ univariate cases
def uni_classes():
    from copulas.univariate import (BetaUnivariate, GammaUnivariate, GaussianKDE, GaussianUnivariate, LogLaplace,
                                    StudentTUnivariate, TruncatedGaussian, UniformUnivariate)
    return {'BetaUnivariate': BetaUnivariate, 'GammaUnivariate': GammaUnivariate, 'GaussianUnivariate': GaussianUnivariate,
            'GaussianKDE': GaussianKDE, 'LogLaplace': LogLaplace, 'StudentTUnivariate': StudentTUnivariate,
            'TruncatedGaussian': TruncatedGaussian, 'UniformUnivariate': UniformUnivariate}


DATA_KINDS = ('normal', 'lognormal', 'uniform', 'bounded', 'heavy', 'tiny', 'big', 'small', 'twoval')
CONSTANTS = (0.0, -3.7, 2.5, 1e10, 1e-12, 1.0 / 3.0, 7.0, -1e-5, 123456.789, 0.1, 0.7)


def gen_data(rs, kind, n):
    if kind == 'normal':
        return rs.normal(rs.uniform(-5, 5), rs.uniform(0.5, 3), n)
    if kind == 'lognormal':
        return np.exp(rs.normal(0, 0.6, n)) + rs.uniform(0, 2)
    if kind == 'uniform':
        return rs.uniform(0, 1, n)
    if kind == 'bounded':
        return rs.beta(2, 5, n) * 10 - 3
    if kind == 'heavy':
        return rs.standard_t(3, n)
    if kind == 'tiny':
        return rs.normal(0, 1, 5)
    if kind == 'big':
        return rs.normal(1e6, 1e6, n)
    if kind == 'small':
        return rs.normal(0, 1e-6, n)
    if kind == 'twoval':
        return rs.choice([1.0, 2.0], n)
    # --- tiny RELATIVE spread: legitimate non-constant data that a tolerance-based constant test would misread
    if kind == 'epoch':          # epoch-second timestamps within one hour
        return 1.7e9 + rs.uniform(0, 3600, n)
    if kind == 'offset1':        # offset 1, spread 1e-7
        return 1.0 + rs.uniform(0, 1e-7, n)
    if kind == 'nano':           # nanometre lengths in metres: tiny absolute values
        return 3e-9 + rs.uniform(0, 2e-9, n)
    if kind == 'bigoffset':      # offset 1e12, unit spread
        return 1e12 + rs.normal(0, 1, n)
    if kind == 'ulps':           # a few distinct values k ulps apart
        x0 = float(rs.choice([1.0, 2.5, 1234.5678, 1e-3]))
        k = int(rs.choice([1, 3, 1000]))
        x1 = x0
        for _ in range(k):
            x1 = float(np.nextafter(x1, np.inf))
        x2 = x1
        for _ in range(k):
            x2 = float(np.nextafter(x2, np.inf))
        x = rs.choice([x0, x1, x2], n)
        x[:3] = [x0, x1, x2]
        return x
    # --- few distinct values (non-constant!): flags, price points, small enumerations
    if kind in FEW_KINDS:
        vals = {'two-balanced': [0.0, 1.0], 'two-95-5': [0.0, 1.0], 'two-prices': [9.99, 14.5], 'three': [1.0, 2.0, 5.0],
                'five': [0.5, 1.0, 1.5, 3.0, 4.0]}[kind]
        pr = [0.95, 0.05] if kind == 'two-95-5' else None
        x = rs.choice(vals, n, p=pr)
        x[:len(vals)] = vals                     # every value occurs (the 5% one at least once, then topped up)
        if kind == 'two-95-5':
            x[len(vals):len(vals) + 2] = vals[1]
        return rs.permutation(x)
    raise ValueError(kind)


FEW_KINDS = ('two-balanced', 'two-95-5', 'two-prices', 'three', 'five')
REL_KINDS = ('epoch', 'offset1', 'nano', 'bigoffset', 'ulps')


def uni_specs(ctx, n_random, deep=False):
    """yield (key, factory, data, kind): factory() -> a fresh unfitted model."""
    from copulas.univariate import Univariate
    C = uni_classes()
    rng = ctx.rng('uni-specs', 'deep' if deep else 'tie')
    specs = []

    def add(name, opts, data, kind, pre=(), hist=''):
        key = (name, repr(sorted(opts.items())), kind, len(data)) + ((hist,) if hist else ())
        specs.append((key, name, opts, data, kind, tuple(np.asarray(p, dtype=float) for p in pre)))
    size = (lambda: rng.randint(150, 400)) if deep else (lambda: rng.randint(25, 70))
    rs = np.random.RandomState(rng.getrandbits(32))
    # every family on a constant and on one natural data kind
    natural = {'BetaUnivariate': 'bounded', 'GammaUnivariate': 'lognormal', 'GaussianUnivariate': 'normal',
               'GaussianKDE': 'normal', 'LogLaplace': 'lognormal', 'StudentTUnivariate': 'heavy',
               'TruncatedGaussian': 'bounded', 'UniformUnivariate': 'uniform'}
    for name in C:
        add(name, {}, gen_data(rs, natural[name], size()), natural[name])
        add(name, {}, np.full(rng.randint(2, 30), rng.choice(CONSTANTS)), 'const')
    add('StudentTUnivariate', {}, np.full(8, 7.0), 'const')     # t.fit returns loc = 7.000000000000002
    for name in C:                                               # constants that are not float32-exact
        add(name, {}, np.full(rng.randint(3, 20), rng.choice([0.1, 0.7, 1.0 / 3.0])), 'const')
    add('Univariate', {'candidates': ['GaussianUnivariate', 'GaussianKDE']}, np.full(9, 0.1), 'const')
    for name in ('GaussianUnivariate', 'UniformUnivariate', 'GaussianKDE'):
        add(name, {}, gen_data(rs, 'small', size()), 'small')      # spread 1e-6: not a constant
    # tiny relative spread (non-constant!): every kind for the KDE and a wrapper that must select the KDE,
    # one or two kinds for every other family's constant detection
    nrel = (lambda: rng.randint(40, 80))
    for kind in REL_KINDS:
        add('GaussianKDE', {}, gen_data(rs, kind, nrel()), kind)
    add('Univariate', {'candidates': ['GaussianKDE']}, gen_data(rs, 'epoch', nrel()), 'epoch')
    add('Univariate', {'candidates': ['GaussianKDE', 'UniformUnivariate']}, gen_data(rs, rng.choice(REL_KINDS[:4]), nrel()),
        'rel-wrapper')
    add('Univariate', {'parametric': 'NON_PARAMETRIC'}, gen_data(rs, 'offset1', nrel()), 'offset1')
    for name in C:
        if name == 'GaussianKDE':
            continue
        for kind in (REL_KINDS if deep else rng.sample(REL_KINDS, 2)):
            add(name, {}, gen_data(rs, kind, nrel()), kind)
    # few distinct values (non-constant!): every kind for the KDE and wrappers that select it, and for every other
    # family's constant detection (families whose fit refuses such data are counted as fit-raised)
    for kind in FEW_KINDS:
        add('GaussianKDE', {}, gen_data(rs, kind, nrel()), kind)
    add('Univariate', {'candidates': ['GaussianKDE']}, gen_data(rs, 'two-balanced', nrel()), 'two-balanced')
    add('Univariate', {'parametric': 'NON_PARAMETRIC'}, gen_data(rs, rng.choice(FEW_KINDS[:3]), nrel()), 'few-wrapper')
    for name in C:
        if name == 'GaussianKDE':
            continue
        for kind in (FEW_KINDS if deep else ['two-balanced', rng.choice(FEW_KINDS[1:])]):
            add(name, {}, gen_data(rs, kind, nrel()), kind)
    # KDE options
    x = gen_data(rs, 'normal', size())
    add('GaussianKDE', {'bw_method': 0.3}, x, 'normal')
    add('GaussianKDE', {'bw_method': 'silverman'}, gen_data(rs, 'lognormal', size()), 'lognormal')
    add('GaussianKDE', {'bw_method': 'scott'}, gen_data(rs, 'normal', size()), 'normal')
    add('GaussianKDE', {'sample_size': rng.randint(10, 30)}, gen_data(rs, 'normal', size()), 'normal')
    add('GaussianKDE', {'sample_size': 7}, np.full(12, 2.5), 'const')
    add('GaussianKDE', {'bw_method': 0.5}, np.full(9, -1.25), 'const')
    xs = gen_data(rs, 'uniform', 40)
    add('GaussianKDE', {'weights': np.round(rs.uniform(0.1, 1, len(xs)), 3)}, xs, 'uniform')
    # TruncatedGaussian bounds
    xb = gen_data(rs, 'bounded', size())
    add('TruncatedGaussian', {'minimum': float(xb.min()) - 1.0, 'maximum': float(xb.max()) + 1.0}, xb, 'bounded')
    add('TruncatedGaussian', {'minimum': -10.0, 'maximum': 10.0}, np.full(6, 0.5), 'const')
    # wrapper with short candidate lists
    from copulas.univariate.base import BoundedType, ParametricType
    for cands in (['GaussianUnivariate', 'UniformUnivariate'], ['GaussianKDE', 'GaussianUnivariate'],
                  ['GammaUnivariate', 'GaussianUnivariate', 'UniformUnivariate'], ['StudentTUnivariate'],
                  ['TruncatedGaussian', 'BetaUnivariate']):
        kind = rng.choice(DATA_KINDS[:5])
        add('Univariate', {'candidates': cands}, gen_data(rs, kind, size()), kind)
    add('Univariate', {'candidates': ['GaussianUnivariate', 'UniformUnivariate']}, np.full(10, rng.choice(CONSTANTS)), 'const')
    add('Univariate', {'parametric': 'PARAMETRIC', 'bounded': 'UNBOUNDED'}, gen_data(rs, 'normal', size()), 'normal')
    # fit HISTORIES: the same object fitted before on other data (a round trip must reproduce the object as it is)
    hsize = (lambda: rng.randint(60, 120)) if deep else (lambda: rng.randint(25, 50))
    wrappers = [('Univariate', {'candidates': ['GaussianUnivariate', 'UniformUnivariate']}, 'normal'),
                ('Univariate', {'candidates': ['GaussianKDE']}, 'normal')]
    extra = [('GaussianKDE', {'sample_size': 20}, 'normal'), ('TruncatedGaussian', {}, 'uniform')]
    for name, opts, kind in [(n, {}, natural[n]) for n in C] + wrappers + extra:
        def const():
            return np.full(rng.randint(3, 25), rng.choice(CONSTANTS[:7]))

        def data():
            return gen_data(rs, kind, hsize())
        hists = {'data>q>data': lambda: ([data()], data(), kind), 'const>q>data': lambda: ([const()], data(), kind),
                 'data>q>const': lambda: ([data()], const(), 'const'),
                 'const>data': lambda: ([const()], data(), kind), 'data>const': lambda: ([data()], const(), 'const'),
                 'const>const': lambda: ([const()], const(), 'const'), 'data>data': lambda: ([data()], data(), kind),
                 'const>data>const>data': lambda: ([const(), data(), const()], data(), kind)}
        chosen = list(hists) if deep else ['const>data', 'data>q>data', rng.choice(['data>const', 'const>const', 'data>data']),
                                           rng.choice(['const>q>data', 'data>q>const'])]
        if name == 'GaussianKDE' and 'data>const' not in chosen:
            chosen.append('data>const')       # a constant refit keeps the earlier `_model` (recorded finding): every run
        for h in chosen:
            pre, final, k = hists[h]()
            add(name, opts, final, k, pre=pre, hist=h)
    # random rest
    names = list(C)
    for _ in range(n_random):
        name = rng.choice(names)
        if rng.random() < 0.25:
            add(name, {}, np.full(rng.randint(2, 40), rng.choice(CONSTANTS)), 'const')
        else:
            kind = rng.choice(DATA_KINDS)
            if name in ('GammaUnivariate', 'LogLaplace') and kind in ('normal', 'heavy', 'tiny', 'big', 'small', 'bounded'):
                kind = 'lognormal'
            add(name, {}, gen_data(rs, kind, size()), kind)

    def factory(name, opts):
        if name == 'Univariate':
            o = dict(opts)
            if 'candidates' in o:
                o['candidates'] = [C[c] for c in o['candidates']]
            if 'parametric' in o:
                o['parametric'] = ParametricType[o['parametric']]
            if 'bounded' in o:
                o['bounded'] = BoundedType[o['bounded']]
            return Univariate(**o)
        return C[name](**opts)
    def prefitted(name, opts, pre, query):
        m = factory(name, opts)
        for p in pre:
            if outcome(lambda: m.fit(p))[0] == 'err':      # an earlier fit refused its data: start from a fresh object
                m = factory(name, opts)
            elif query:                                     # USE the model between the fits (caches!)
                xs = np.array([float(np.min(p)), float(np.mean(p)), float(np.max(p)) + 0.5])
                for call in (lambda: m.cumulative_distribution(xs), lambda: m.percent_point(np.array([0.2, 0.5, 0.9])),
                             lambda: m.probability_density(xs), lambda: m.log_probability_density(xs), lambda: _quiet_sample(m, 3),
                             lambda: m.to_dict()):
                    outcome(call)
        return m
    for key, name, opts, data, kind, pre in specs:
        query = len(key) > 4 and '>q' in key[4]
        f = (lambda name=name, opts=opts, pre=pre, query=query: prefitted(name, opts, pre, query))
        f.pre = pre
        yield key, f, name, opts, np.asarray(data, dtype=float), kind


def concrete(m):
    """the object whose parameters are serialised (the wrapper's instance)."""
    from copulas.univariate import Univariate
    return m._instance if type(m) is Univariate else m


def is_constant_obj(m):
    m = concrete(m)
    return getattr(m.sample, '__func__', None) is type(m)._constant_sample


CONST_METHODS = ('cumulative_distribution', 'percent_point', 'probability_density', 'sample')


def stale_state(m):
    """'' if the object is in a state a single `fit` (or `from_dict`) produces; otherwise what earlier fits left behind:
    constant-method overrides that do not match the constant flag, or a `_model` kept by a constant model.  Such
    states are outside the Lean model's state space (its `constant` means: all four methods replaced; `_model`
    exists iff not constant), so the tie leaves them to the search."""
    c = concrete(m)
    over = [k for k in CONST_METHODS if k in c.__dict__]
    const = getattr(c, '_constant_value', None) is not None
    if const and len(over) != len(CONST_METHODS):
        return 'constant-with-missing-overrides:' + ','.join(k for k in CONST_METHODS if k not in over)
    if not const and over:
        return 'non-constant-with-stale-overrides:' + ','.join(over)
    if type(c).__name__ == 'GaussianKDE' and const and '_model' in c.__dict__:
        return 'constant-with-stale-_model'
    return ''


def uni_probe_inputs(rs, data):
    lo, hi = float(np.min(data)), float(np.max(data))
    span = (hi - lo) or max(1.0, abs(lo))
    x = np.concatenate([rs.uniform(lo - 0.5 * span, hi + 0.5 * span, 9), [lo, hi, float(np.median(data))]])
    u = np.concatenate([rs.uniform(0.01, 0.99, 7), [0.5, 1e-3, 1 - 1e-3]])
    return x, u


def uni_behaviour(m, x, u, seed, nsamp=12):
    """everything the property lets a user observe of a univariate model."""
    out = {}
    out['to_dict'] = outcome(lambda: wire(m.to_dict()))
    out['pdf'] = outcome(lambda: m.probability_density(x))
    out['cdf'] = outcome(lambda: m.cumulative_distribution(x))
    out['percent_point'] = outcome(lambda: m.percent_point(u))
    out['log_pdf'] = outcome(lambda: m.log_probability_density(x))
    # the same questions asked with other query-point types: float32 / int arrays, Python lists, scalars
    pts = list(x[:6])
    cval = getattr(concrete(m), '_constant_value', None) if getattr(m, 'fitted', False) else None
    if isinstance(cval, (int, float)) and np.isfinite(cval):
        # at the constant and next to it, as seen in float32 and in float64
        c32 = np.float32(cval)
        pts += [float(cval), float(c32), float(np.nextafter(c32, np.float32(np.inf))), float(np.nextafter(c32, np.float32(-np.inf))),
                float(np.nextafter(float(cval), np.inf)), float(np.nextafter(float(cval), -np.inf))]
    x64 = np.array(pts, dtype=np.float64)
    with np.errstate(all='ignore'):
        x32 = x64.astype(np.float32)
        xi = np.round(np.clip(x64, -1e15, 1e15)).astype(np.int64)
    queries = {'float64-near': x64, 'float32': x32, 'int': xi, 'list': [float(v) for v in x64[:4]], 'scalar': float(x64[-1]),
               'scalar32': np.float32(x64[-1])}
    if cval is None:          # the full variety only for constant models (whose methods compare with the constant);
        queries = {k: queries[k] for k in ('float32', 'list')}      # fitted distributions: two alternative types
    for tag, q in queries.items():
        out[f'pdf:{tag}'] = outcome(lambda q=q: m.probability_density(q))
        out[f'cdf:{tag}'] = outcome(lambda q=q: m.cumulative_distribution(q))
    out['percent_point:float32'] = outcome(lambda: m.percent_point(u[:5].astype(np.float32)))
    out['percent_point:list'] = outcome(lambda: m.percent_point([float(v) for v in u[:3]]))

    def samp_seeded():
        m.set_random_state(seed)
        a = m.sample(nsamp)
        b = m.sample(3)
        return np.concatenate([np.ravel(a), np.ravel(b)])

    def samp_global():
        m.set_random_state(None)
        with GlobalSeed(seed):
            return np.ravel(m.sample(nsamp))
    from copulas.univariate import Univariate
    if type(m) is not Univariate:      # the wrapper's own seed is ignored by its instance (C15's finding)
        out['sample_seeded'] = outcome(samp_seeded)
    out['sample_global'] = outcome(samp_global)
    return out


def compare_behaviour(b0, b1, skip=()):
    for k in b0:
        if k in skip or k not in b1:
            continue
        r0, r1 = b0[k], b1[k]
        if k == 'to_dict' or (r0[0] == 'ok' and isinstance(r0[1], str)):
            if r0 != r1:
                return k
        elif not same_outcome(r0, r1):
            return k
    return None


def uni_variants(ctx, m, d, tmp, trips):
    """rebuilt objects: name -> object (or ('err', kind))"""
    from copulas.univariate import GaussianUnivariate, Univariate
    out = {}
    out['from_dict'] = outcome(lambda: Univariate.from_dict(d))
    out['from_dict_via_other_class'] = outcome(lambda: GaussianUnivariate.from_dict(d))
    out['json'] = outcome(lambda: Univariate.from_dict(json.loads(json.dumps(d))))

    def many():
        cur = m
        for _ in range(trips):
            cur = Univariate.from_dict(json.loads(json.dumps(cur.to_dict())))
        return cur
    out[f'trips{trips}'] = outcome(many)

    def pick():
        p = os.path.join(tmp, 'u.pkl')
        m.save(p)
        r = Univariate.load(p)
        p2 = os.path.join(tmp, 'u2.pkl')
        r.save(p2)
        return type(m).load(p2)
    out['save_load'] = outcome(pick)
    return out


# ============================================================================================ tie: univariate
def lean_fam_table(lean):
    r = lean.ask('serial fams').split()
    if r[:1] != ['ok']:
        return None
    tab = {}
    for q in r[1:]:
        w = lean.ask(f'serial fam {q}').split()
        if w[:1] != ['ok'] or len(w) != 9:
            return None
        lst = (lambda s: [] if s == '-' else s.split(','))
        tab[q] = {'name': w[1], 'fitKeys': lst(w[2]), 'constKeys': lst(w[3]), 'usesModel': w[4] == '1',
                  'rebuilds': w[5] == '1', 'modelOptions': lst(w[6]), 'ctorOptions': lst(w[7]), 'constCheck': w[8] == '1'}
    return tab


def qual(obj):
    return type(obj).__module__ + '.' + type(obj).__name__


def model_predicts_equal(tab, m, lean_const):
    """does the Lean model predict the same observable state after a round trip?  (`roundtrip`'s hypotheses)"""
    c = concrete(m)
    row = tab[qual(c)]
    const = is_constant_obj(m)
    if row['usesModel'] and not const and any(getattr(c, o, None) is not None for o in row['modelOptions']):
        return False, 'options'
    orig = ('C ' + wire(c._constant_value)) if const else '- N'
    if lean_const != orig:
        return False, 'constant'
    return True, ''


def tie_univariate(ctx, lean, tab, n_random):
    from copulas.errors import NotFittedError
    from copulas.univariate import Univariate
    tmp = scratch_dir(ctx, 'uni')
    bad = {k: None for k in ('fit_constant', 'univariate', 'json', 'trips', 'behav', 'keys')}
    try:
        for key, factory, name, opts, data, kind in uni_specs(ctx, n_random):
            m = factory()
            r = outcome(lambda: m.fit(data))
            if r[0] == 'err':
                ctx.count(f'uni:fit-raised:{name}')
                continue
            ctx.case(key, True)
            ctx.count(f'uni:{name}:{"const" if kind == "const" else "data"}')
            if len(key) > 4:
                ctx.count(f'uni:history:{key[4]}')
            c = concrete(m)
            row = tab[qual(c)]
            d = m.to_dict()
            # keys of the real dict = generated table
            exp_keys = sorted(row['constKeys'] if kind == 'const' else row['fitKeys'])
            if sorted(k for k in d if k != 'type') != exp_keys or d.get('type') != qual(c) or list(d)[-1] != 'type':
                bad['keys'] = bad['keys'] or {'case': key, 'real': list(d), 'generated': exp_keys}
            # constant fit: predicted _params
            if kind == 'const':
                n = len(c._params['dataset']) if 'dataset' in c._params else len(data)
                fit = {k: v for k, v in c._params.items()}
                rep = lean.ask(f'serial constfit {qual(c)} {wire(float(data[0]))} {n} {wire(fit)}')
                if rep != 'ok ' + wire(dict(c._params)):
                    bad['fit_constant'] = bad['fit_constant'] or {'case': key, 'real': str(c._params)[:200], 'model': rep[:200]}
            # model from_dict vs real
            w = wire(d)
            rep = lean.ask('serial uni ' + w).split(' ')
            m2 = Univariate.from_dict(d)
            if rep[0] != 'ok':
                bad['univariate'] = bad['univariate'] or {'case': key, 'model': ' '.join(rep)[:100]}
                continue
            real_const = ('C ' + wire(m2._constant_value)) if is_constant_obj(m2) else '- N'
            lean_const = ' '.join(rep[2:4])      # `C <number token>` | `- N`
            rest = rep[4:]
            if rep[1] != type(m2).__name__ or lean_const != real_const or ' '.join(rest) != wire(m2.to_dict()):
                bad['univariate'] = bad['univariate'] or {'case': key, 'model': ' '.join(rep[:4]), 'real': (type(m2).__name__, real_const),
                                                          'dict_equal': ' '.join(rest) == wire(m2.to_dict())}
            # json
            rj = lean.ask('serial json ' + w)
            try:
                real_j = 'ok ' + wire(json.loads(json.dumps(d)))
            except TypeError:
                real_j = 'err'
            if rj != real_j:
                bad['json'] = bad['json'] or {'case': key, 'model': rj[:120], 'real': real_j[:120]}
            # trips
            rt = lean.ask('serial trip u 3 ' + w)
            cur = m2
            for _ in range(3):
                cur = Univariate.from_dict(cur.to_dict())
            if rt != 'ok ' + wire(cur.to_dict()):
                bad['trips'] = bad['trips'] or {'case': key, 'model': rt[:120]}
            # behaviour, where the model predicts equality
            eq, why = model_predicts_equal(tab, m, lean_const)
            if not eq:
                ctx.count(f'uni:model-predicts-divergence:{why}:{type(c).__name__}')
                continue
            st = stale_state(m)
            if st:
                ctx.count(f'uni:original-outside-model-states(left to search):{st}')
                continue
            rs = ctx.nprng('uni-probe', *map(str, key))
            x, u = uni_probe_inputs(rs, data)
            b0 = uni_behaviour(m, x, u, 11)
            for vname, robj in uni_variants(ctx, m, d, tmp, 3).items():
                if robj[0] == 'err':
                    bad['behav'] = bad['behav'] or {'case': key, 'variant': vname, 'error': robj[1]}
                    continue
                o = robj[1]
                want_cls = type(m) if vname == 'save_load' else type(c)
                if type(o) is not want_cls:
                    bad['behav'] = bad['behav'] or {'case': key, 'variant': vname, 'class': type(o).__name__}
                    continue
                skip = ()
                if is_constant_obj(m) and (vname == 'json' or vname.startswith('trips')):
                    # json.loads yields a Python float where the original holds a numpy scalar; numpy's float32-vs-scalar
                    # comparison rule then differs (recorded finding, outside the Lean value grammar): left to the search
                    skip = tuple(k for k in b0 if 'float32' in k or 'scalar32' in k)
                    ctx.count('uni:json-constant-float32-queries(left to search)')
                diff = compare_behaviour(b0, uni_behaviour(o, x, u, 11), skip)
                if diff:
                    bad['behav'] = bad['behav'] or {'case': key, 'variant': vname, 'differs': diff}
            ctx.sample({'class': name, 'options': {k: str(v)[:30] for k, v in opts.items()}, 'data': kind, 'n': len(data),
                        'selected': type(c).__name__, 'constant': is_constant_obj(m)})
        # unfitted
        ok_unf = True
        for name, cls in list(uni_classes().items()) + [('Univariate', Univariate)]:
            m = cls()
            ctx.case(('unfitted', name), True)
            try:
                m.to_dict()
                ok_unf = False
            except NotFittedError:
                pass
            p = os.path.join(tmp, 'unf.pkl')
            m.save(p)
            r = cls.load(p)
            if type(r) is not cls or r.fitted or outcome(lambda: r.cdf(np.array([0.5]))) != ('err', 'NotFittedError'):
                ok_unf = False
        ctx.ob('behav:univariate.unfitted', ok_unf, 'tie', 'to_dict of an unfitted model raises NotFittedError; pickle keeps it unfitted')
    finally:
        shutil.rmtree(tmp, ignore_errors=True)
    ctx.ob('corr:univariate.keys', bad['keys'] is None, 'tie', bad['keys'] or 'ok')
    ctx.ob('corr:univariate.fit_constant', bad['fit_constant'] is None, 'tie', bad['fit_constant'] or 'ok')
    ctx.ob('corr:univariate.from_dict', bad['univariate'] is None, 'tie', bad['univariate'] or 'ok')
    ctx.ob('corr:univariate.json', bad['json'] is None, 'tie', bad['json'] or 'ok')
    ctx.ob('corr:univariate.trips', bad['trips'] is None, 'tie', bad['trips'] or 'ok')
    ctx.ob('behav:univariate', bad['behav'] is None, 'tie', bad['behav'] or 'ok')


# ============================================================================================ bivariate
def biv_classes():
    from copulas.bivariate import Clayton, Frank, Gumbel
    from copulas.bivariate.independence import Independence
    return {'Clayton': Clayton, 'Frank': Frank, 'Gumbel': Gumbel, 'Independence': Independence}


def biv_specs(ctx, n_random, deep=False):
    """yield (key, object, how)"""
    C = biv_classes()
    rng = ctx.rng('biv-specs', 'deep' if deep else 'tie')
    rs = np.random.RandomState(rng.getrandbits(32))
    out = []
    for name, cls in C.items():
        out.append(((name, 'unfitted'), cls(), 'unfitted'))

    def pair(rho, n):
        z = rs.normal(size=(n, 2))
        z[:, 1] = rho * z[:, 0] + np.sqrt(max(0.0, 1 - rho * rho)) * z[:, 1]
        from scipy.stats import norm
        return norm.cdf(z)
    for name in ('Clayton', 'Frank', 'Gumbel'):
        for i in range(2 + n_random):
            rho = rng.uniform(0.15, 0.95)
            n = rng.randint(150, 400) if deep else rng.randint(30, 80)
            m = C[name]()
            X = pair(rho, n)
            if outcome(lambda: m.fit(X))[0] == 'ok':
                out.append(((name, 'fit', round(rho, 3), n), m, 'fit'))
    m = C['Frank']()
    if outcome(lambda: m.fit(pair(-0.7, 60)))[0] == 'ok':
        out.append((('Frank', 'fit-negative'), m, 'fit'))
    # tau = 1: comonotone
    x = np.linspace(0.01, 0.99, 30)
    for name in ('Clayton', 'Frank'):
        m = C[name]()
        if outcome(lambda: m.fit(np.column_stack([x, x])))[0] == 'ok':
            out.append(((name, 'tau=1'), m, 'fit'))
    m = C['Independence']()
    m.fit(pair(0.0, 30))
    out.append((('Independence', 'fit'), m, 'fit'))
    # fit REFUSED part-way: check_marginal passed, `tau` was assigned, then fit raised (theta stays what it was)
    xs = np.linspace(0.02, 0.98, 25)
    refusing = {'comonotone': np.column_stack([xs, xs]), 'antimonotone': np.column_stack([xs, xs[::-1]]),
                'constant-column': np.column_stack([xs, np.full(len(xs), 0.5)]),
                'both-constant': np.column_stack([np.full(len(xs), 0.3), np.full(len(xs), 0.5)]),
                'out-of-bounds': np.column_stack([xs, xs * 3.0])}
    for name in ('Clayton', 'Frank', 'Gumbel'):
        for tag, Xr in refusing.items():
            m = C[name]()
            if outcome(lambda: m.fit(Xr))[0] == 'err':
                out.append(((name, 'refused', tag), m, 'refused'))
            m = C[name]()                                   # an earlier successful fit, then a refused one: stale theta, new tau
            if outcome(lambda: m.fit(pair(0.6, 40)))[0] == 'ok' and outcome(lambda: m.fit(Xr))[0] == 'err':
                out.append(((name, 'fit>refused', tag), m, 'refused'))
    # hand-set edge parameters
    for name, th, tau in (('Clayton', 1e-8, 5e-9), ('Clayton', 50.0, 0.96), ('Frank', -30.0, -0.87), ('Frank', 1e-6, 1e-7),
                          ('Gumbel', 1.0, 0.0), ('Gumbel', 25.0, 0.96), ('Clayton', float('inf'), 1.0),
                          ('Gumbel', float('nan'), float('nan')), ('Frank', 0.0, 0.0)):
        m = C[name]()
        m.theta, m.tau = th, tau
        out.append(((name, 'set', repr(th)), m, 'set'))
    return out


def biv_behaviour(m, X, y, v, seed):
    out = {}
    out['to_dict'] = outcome(lambda: wire(m.to_dict()))
    out['pdf'] = outcome(lambda: m.probability_density(X))
    out['cdf'] = outcome(lambda: m.cumulative_distribution(X))
    out['h'] = outcome(lambda: m.partial_derivative(X))
    out['percent_point'] = outcome(lambda: m.percent_point(y, v))

    def samp():
        m.set_random_state(seed)
        return np.concatenate([np.ravel(m.sample(4)), np.ravel(m.sample(2))])
    out['sample_seeded'] = outcome(samp)
    return out


def biv_variants(m, d, tmp, trips):
    from copulas.bivariate import Bivariate
    out = {}
    out['from_dict'] = outcome(lambda: Bivariate.from_dict(d))
    out['own_class_from_dict'] = outcome(lambda: type(m).from_dict(d))
    out['json'] = outcome(lambda: Bivariate.from_dict(json.loads(json.dumps(d))))

    def many():
        cur = m
        for _ in range(trips):
            cur = Bivariate.from_dict(json.loads(json.dumps(cur.to_dict())))
        return cur
    out[f'trips{trips}'] = outcome(many)

    def sl():
        p = os.path.join(tmp, 'b.json')
        m.save(p)
        r = Bivariate.load(p)
        r.save(p)
        return type(m).load(p)
    out['save_load'] = outcome(sl)
    return out


def tie_bivariate(ctx, lean, n_random):
    tmp = scratch_dir(ctx, 'biv')
    bad = {k: None for k in ('corr', 'json', 'behav', 'keys')}
    try:
        gen_keys = lean.ask('serial keys biv').split()[1:]
        for key, m, how in biv_specs(ctx, n_random):
            ctx.case(key, True)
            ctx.count(f'biv:{key[0]}:{how}')
            d = m.to_dict()
            if list(d) != gen_keys:
                bad['keys'] = bad['keys'] or {'case': key, 'real': list(d), 'generated': gen_keys}
            w = wire(d)
            from copulas.bivariate import Bivariate
            m2 = Bivariate.from_dict(d)
            rep = lean.ask('serial biv ' + w)
            if rep != f'ok {type(m2).__name__} {wire(m2.to_dict())}' or type(m2) is not type(m):
                bad['corr'] = bad['corr'] or {'case': key, 'model': rep[:140], 'real': type(m2).__name__}
            rj = lean.ask('serial json ' + w)
            if rj != 'ok ' + wire(json.loads(json.dumps(d))):
                bad['json'] = bad['json'] or {'case': key, 'model': rj[:140]}
            rt = lean.ask('serial trip b 3 ' + w)
            if rt != 'ok ' + w:
                bad['corr'] = bad['corr'] or {'case': key, 'trip': rt[:140]}
            rs = ctx.nprng('biv-probe', *map(str, key))
            X = np.vstack([rs.uniform(0.02, 0.98, (8, 2)), [[0.5, 0.5], [1e-6, 0.3], [0.3, 1 - 1e-6], [0.0, 0.4], [1.0, 1.0]]])
            y, v = rs.uniform(0.05, 0.95, 4), rs.uniform(0.05, 0.95, 4)
            b0 = biv_behaviour(m, X, y, v, 5)
            for vname, robj in biv_variants(m, d, tmp, 3).items():
                if robj[0] == 'err':
                    bad['behav'] = bad['behav'] or {'case': key, 'variant': vname, 'error': robj[1]}
                    continue
                o = robj[1]
                if type(o) is not type(m):
                    bad['behav'] = bad['behav'] or {'case': key, 'variant': vname, 'class': type(o).__name__}
                    continue
                diff = compare_behaviour(b0, biv_behaviour(o, X, y, v, 5))
                if diff:
                    bad['behav'] = bad['behav'] or {'case': key, 'variant': vname, 'differs': diff}
    finally:
        shutil.rmtree(tmp, ignore_errors=True)
    ctx.ob('corr:bivariate.keys', bad['keys'] is None, 'tie', bad['keys'] or 'ok')
    ctx.ob('corr:bivariate.from_dict', bad['corr'] is None, 'tie', bad['corr'] or 'ok')
    ctx.ob('corr:bivariate.json', bad['json'] is None, 'tie', bad['json'] or 'ok')
    ctx.ob('behav:bivariate', bad['behav'] is None, 'tie', bad['behav'] or 'ok')


# ============================================================================================ gaussian multivariate
def gauss_specs(ctx, n_cases, deep=False):
    from copulas.multivariate import GaussianMultivariate
    from copulas.univariate import Univariate
    C = uni_classes()
    rng = ctx.rng('gauss-specs', 'deep' if deep else 'tie')
    out = []
    for i in range(n_cases):
        rs = np.random.RandomState(rng.getrandbits(32))
        d = rng.randint(2, 5 if deep else 4)
        n = rng.randint(150, 300) if deep else rng.randint(40, 70)
        A = rs.normal(size=(d, d))
        Z = rs.normal(size=(n, d)) @ (A / np.linalg.norm(A, axis=0)).T
        labels_kind = ('str', 'int', 'mixed', 'perm', 'default')[i % 5]
        perm = list(range(d))
        while d > 1 and perm == list(range(d)):
            rng.shuffle(perm)
        labels = {'str': [f'c{j}' for j in range(d)], 'int': [3 * j + 1 for j in range(d)],        # non-contiguous ints
                  'mixed': [(f'k{j}' if j % 2 else 10 + j) for j in range(d)],
                  'perm': perm,                                                                      # 0..d-1 in another order
                  'default': list(range(d))}[labels_kind]
        cols, dist = {}, {}
        choices = ['GaussianUnivariate', 'GammaUnivariate', 'GaussianKDE', 'UniformUnivariate', 'BetaUnivariate',
                   'StudentTUnivariate', 'TruncatedGaussian', 'wrapper', 'const', 'wrapper-const', 'LogLaplace']
        picked = []
        for j, lab in enumerate(labels):
            ch = rng.choice(choices) if not (i == 0 and j < 3) else ('const', 'wrapper', 'GaussianKDE')[j]
            picked.append(ch)
            col = Z[:, j]
            if ch in ('GammaUnivariate', 'LogLaplace'):
                col = np.exp(0.5 * col)
            if ch in ('const', 'wrapper-const'):
                col = np.full(n, rng.choice([2.5, 0.0, -7.0]))
            cols[lab] = col
            if ch in ('wrapper', 'wrapper-const'):
                dist[lab] = Univariate(candidates=[C['GaussianUnivariate'], C['UniformUnivariate']])
            elif ch == 'const':
                dist[lab] = C['GaussianUnivariate']
            elif rng.random() < 0.5:
                dist[lab] = C[ch]
            else:
                dist[lab] = C[ch].__module__ + '.' + ch       # fully qualified name
        df = pd.DataFrame(cols)
        how = rng.choice(['dict', 'single', 'default']) if i else 'dict'
        if how == 'dict':
            g = GaussianMultivariate(distribution=dist)
        elif how == 'single':
            g = GaussianMultivariate(distribution=C['GaussianUnivariate'])
        else:
            g = GaussianMultivariate(distribution=Univariate(candidates=[C['GaussianUnivariate'], C['GaussianKDE']]))
        if labels_kind == 'default' or (rng.random() < 0.3 and labels_kind == 'int'):
            data = df.to_numpy()          # ndarray input: labels 0..d-1
        else:
            data = df
        out.append(((labels_kind, how, tuple(picked), n), g, data, df))
    # columns with a tiny RELATIVE spread modelled by a KDE (directly, and through a wrapper that selects it)
    from scipy.stats import norm
    for variant in ('kde', 'wrapper') if deep else (rng.choice(['kde', 'wrapper']),):
        rs = np.random.RandomState(rng.getrandbits(32))
        n = rng.randint(120, 200) if deep else rng.randint(40, 70)
        z = rs.normal(size=(n, 3))
        z[:, 1] += 0.7 * z[:, 0]
        df = pd.DataFrame({'ts': 1.7e9 + 3600.0 * norm.cdf(z[:, 0]), 'len': 1.0 + 1e-7 * norm.cdf(z[:, 1] / 1.3), 'x': z[:, 2]})
        kde = C['GaussianKDE'] if variant == 'kde' else Univariate(candidates=[C['GaussianKDE']])
        g = GaussianMultivariate(distribution={'ts': kde, 'len': kde, 'x': C['GaussianUnivariate']})
        out.append((('str', 'dict', ('rel-epoch:' + variant, 'rel-offset1:' + variant, 'GaussianUnivariate'), n), g, df, df))
    # model SHAPES at the small end: exactly 1 and 2 columns, constant / non-constant / mixed, cheap marginals
    marg = {'gauss': lambda: C['GaussianUnivariate'], 'uniform': lambda: C['UniformUnivariate'], 'kde': lambda: C['GaussianKDE'],
            'wrapper': lambda: Univariate(candidates=[C['GaussianUnivariate'], C['UniformUnivariate']]),
            'default': lambda: None}
    shapes = [('c',), ('d',), ('c', 'c'), ('c', 'd'), ('d', 'c'), ('d', 'd')]
    for shape in shapes:
        for mk in (list(marg) if deep or len(shape) == 1 else rng.sample(list(marg), 2)):
            rs = np.random.RandomState(rng.getrandbits(32))
            n = rng.randint(30, 60)
            z = rs.normal(size=(n, 2))
            z[:, 1] += 0.8 * z[:, 0]
            labels = rng.choice([['p', 'q'], [0, 1], [7, 3]])[:len(shape)]
            cols = {lab: (np.full(n, rng.choice([2.5, 0.0, 0.1])) if kind == 'c' else z[:, j])
                    for j, (lab, kind) in enumerate(zip(labels, shape))}
            df = pd.DataFrame(cols)
            dist = marg[mk]()
            g = GaussianMultivariate() if dist is None else GaussianMultivariate(distribution=dist)
            data = df.to_numpy() if labels == [0, 1][:len(shape)] and rng.random() < 0.5 else df
            out.append((('small:' + '+'.join(shape), mk, tuple(str(x) for x in labels), n), g, data, df))
    # columns with FEW distinct values (binary flag, 95/5 flag, three levels) modelled by a KDE / a wrapper selecting it
    for variant in ('kde', 'wrapper') if deep else (rng.choice(['kde', 'wrapper']),):
        rs = np.random.RandomState(rng.getrandbits(32))
        n = rng.randint(120, 200) if deep else rng.randint(40, 70)
        z = rs.normal(size=(n, 4))
        z[:, 1] += 0.8 * z[:, 0]
        lvl = np.digitize(z[:, 2], [-0.5, 0.6]).astype(float)
        flag95 = (z[:, 3] > np.sort(z[:, 3])[int(0.93 * n)]).astype(float)
        df = pd.DataFrame({'flag': (z[:, 0] > 0).astype(float), 'x': z[:, 1], 'level': lvl, 'rare': flag95})
        kde = C['GaussianKDE'] if variant == 'kde' else Univariate(candidates=[C['GaussianKDE']])
        g = GaussianMultivariate(distribution={'flag': kde, 'x': C['GaussianUnivariate'], 'level': kde, 'rare': kde})
        out.append((('str', 'dict', ('few-two:' + variant, 'GaussianUnivariate', 'few-three:' + variant, 'few-95-5:' + variant), n),
                    g, df, df))
    # integer labels 0..d-1 in ANOTHER order (a label/position mix-up is silent there), plain Gaussian marginals
    rs = np.random.RandomState(rng.getrandbits(32))
    n = rng.randint(40, 70)
    z = rs.normal(size=(n, 3))
    z[:, 1] += 0.9 * z[:, 0]
    z[:, 2] -= 0.5 * z[:, 1]
    dfp = pd.DataFrame(z, columns=rng.choice([[2, 0, 1], [1, 2, 0], [2, 1, 0]]))
    out.append((('perm', 'single', ('GaussianUnivariate',) * 3, n), GaussianMultivariate(distribution=C['GaussianUnivariate']), dfp, dfp))
    # fit HISTORIES: the same GaussianMultivariate object fitted before on another table
    for h in (('const>data', 'data>const', 'other-columns') if deep else (rng.choice(['const>data', 'data>const', 'other-columns']),)):
        rs = np.random.RandomState(rng.getrandbits(32))
        n = rng.randint(100, 160) if deep else rng.randint(40, 60)
        z = rs.normal(size=(n, 3))
        z[:, 2] -= 0.6 * z[:, 0]
        plain = pd.DataFrame({'a': z[:, 0], 'b': np.exp(0.4 * z[:, 1]), 'c': z[:, 2]})
        withc = plain.copy()
        withc['b'] = 2.5
        withc['c'] = rs.normal(size=n)
        first, second = {'const>data': (withc, plain), 'data>const': (plain, withc),
                         'other-columns': (plain.rename(columns={'a': 'p', 'b': 'q', 'c': 'r'})[['r', 'p']], plain)}[h]
        dist = rng.choice(['default', 'gauss', 'dict'])
        g = GaussianMultivariate() if dist == 'default' else \
            GaussianMultivariate(distribution=C['GaussianUnivariate']) if dist == 'gauss' else \
            GaussianMultivariate(distribution={'a': C['GaussianKDE'], 'b': Univariate(candidates=[C['GaussianUnivariate'], C['GammaUnivariate']]),
                                               'c': C['StudentTUnivariate']})
        q = deep or rng.random() < 0.7
        if outcome(lambda: g.fit(first))[0] == 'ok' and q:          # USE the model between the fits
            rows = first.iloc[:3]
            for call in (lambda: g.probability_density(rows), lambda: g.cumulative_distribution(rows), lambda: _quiet_sample(g, 2),
                         lambda: g.to_dict()):
                outcome(call)
            c0 = list(first.columns)[0]
            outcome(lambda: _quiet_cond(g, {c0: float(first[c0].iloc[0])}))
        out.append((('str', dist, ('refit:' + h + ('+q' if q else ''),), n), g, second, second))
    return out


def gauss_behaviour(g, X, seed):
    out = {}
    out['to_dict'] = outcome(lambda: wire(g.to_dict()))
    out['pdf'] = outcome(lambda: g.probability_density(X))
    out['log_pdf'] = outcome(lambda: g.log_probability_density(X))
    out['cdf2'] = outcome(lambda: g.cumulative_distribution(X.iloc[:3]))

    def samp():
        g.set_random_state(seed)
        a = g.sample(5)
        b = g.sample(2)
        return np.concatenate([np.ravel(a.to_numpy()), np.ravel(b.to_numpy())]), list(a.columns)
    r = outcome(samp)
    out['sample_columns'] = ('ok', np.array([hash(str(c)) % 1000 for c in r[1][1]], dtype=float)) if r[0] == 'ok' else r
    out['sample_seeded'] = ('ok', r[1][0]) if r[0] == 'ok' else r
    # conditional sampling: one / several conditioned columns, in and out of training order, dict and Series
    cols = list(g.columns) if g.columns is not None else []
    if cols:
        row = X.iloc[0]
        picks = [('first', cols[:1]), ('last', cols[-1:])]
        if len(cols) >= 3:
            picks += [('two-in-order', [cols[0], cols[2]]), ('two-reversed', [cols[-1], cols[0]])]
        elif len(cols) == 2:
            picks += [('other', [cols[1]])]
        for tag, cs in picks:
            for form in ('dict', 'series'):
                def cond(cs=cs, form=form):
                    vals = [float(row[c]) for c in cs]
                    conditions = dict(zip(cs, vals)) if form == 'dict' else pd.Series(vals, index=cs)
                    g.set_random_state(seed + 1)
                    a = g.sample(4, conditions=conditions)
                    return np.concatenate([np.ravel(a.to_numpy(dtype=float)),
                                           np.array([hash(str(c)) % 1000 for c in a.columns], dtype=float)])
                out[f'conditional-sample:{tag}:{form}'] = outcome(cond)
    # labels of the correlation frame (conditional sampling slices it by label on both axes)
    out['correlation-labels'] = outcome(lambda: 'index=' + wire(list(g.correlation.index)) + ' columns=' + wire(list(g.correlation.columns)))
    return out


def gauss_variants(g, d, tmp, trips):
    from copulas.multivariate import GaussianMultivariate, Multivariate
    out = {}
    out['from_dict'] = outcome(lambda: GaussianMultivariate.from_dict(d))
    out['generic_from_dict'] = outcome(lambda: Multivariate.from_dict(d))
    out['json'] = outcome(lambda: Multivariate.from_dict(json.loads(json.dumps(d))))

    def many():
        cur = g
        for _ in range(trips):
            cur = Multivariate.from_dict(json.loads(json.dumps(cur.to_dict())))
        return cur
    out[f'trips{trips}'] = outcome(many)

    def sl():
        p = os.path.join(tmp, 'g.pkl')
        g.save(p)
        r = Multivariate.load(p)
        r.save(p)
        return GaussianMultivariate.load(p)
    out['save_load'] = outcome(sl)
    return out


def gauss_cdf_reproducible(g, X):
    a = outcome(lambda: g.cumulative_distribution(X.iloc[:3]))
    b = outcome(lambda: g.cumulative_distribution(X.iloc[:3]))
    return same_outcome(a, b)


def gauss_expected_equal(tab, g):
    for u in g.univariates:
        eq, why = model_predicts_equal_quick(tab, u)
        if not eq:
            return False, why
    return True, ''


def model_predicts_equal_quick(tab, u):
    """as model_predicts_equal, with the constant after the trip computed by the real from_dict (the
    correspondence corr:univariate.from_dict ties that to the model)."""
    from copulas.univariate import Univariate
    c = concrete(u)
    row = tab[qual(c)]
    const = is_constant_obj(u)
    if row['usesModel'] and not const and any(getattr(c, o, None) is not None for o in row['modelOptions']):
        return False, 'options'
    m2 = Univariate.from_dict(u.to_dict())
    c2 = is_constant_obj(m2)
    if c2 != const or (const and wire(m2._constant_value) != wire(c._constant_value)):
        return False, 'constant'
    return True, ''


def tie_gaussian(ctx, lean, tab, n_cases):
    from copulas.errors import NotFittedError
    from copulas.multivariate import GaussianMultivariate, Multivariate
    tmp = scratch_dir(ctx, 'gauss')
    bad = {k: None for k in ('corr', 'json', 'behav', 'keys', 'asym')}
    try:
        gen_keys = lean.ask('serial keys gauss').split()[1:]
        for key, g, data, df in gauss_specs(ctx, n_cases):
            r = outcome(lambda: g.fit(data))
            if r[0] == 'err':
                ctx.count('gauss:fit-raised')
                continue
            ctx.case(key, True)
            ctx.count(f'gauss:labels={key[0]}:{key[1]}')
            for u in g.univariates:
                ctx.count(f'gauss:marginal:{type(u).__name__}{"(const)" if is_constant_obj(u) else ""}')
            d = g.to_dict()
            if list(d) != gen_keys:
                bad['keys'] = bad['keys'] or {'case': key, 'real': list(d), 'generated': gen_keys}
            w = wire(d)
            g2 = Multivariate.from_dict(d)
            rep = lean.ask('serial multi ' + w)
            rep_own = lean.ask('serial gauss ' + w)
            if rep != f'ok gauss 1 {wire(g2.to_dict())}' or type(g2) is not GaussianMultivariate or rep_own != rep \
                    or not deep_equal(GaussianMultivariate.from_dict(d).to_dict(), g2.to_dict()):
                bad['corr'] = bad['corr'] or {'case': key, 'model': rep[:160]}
            rj = lean.ask('serial json ' + w)
            try:
                real_j = 'ok ' + wire(json.loads(json.dumps(d)))
            except TypeError:
                real_j = 'err'
            if rj != real_j:
                bad['json'] = bad['json'] or {'case': key, 'model': rj[:140], 'real': real_j[:140]}
            rt = lean.ask('serial trip m 3 ' + w)
            cur = g2
            for _ in range(3):
                cur = Multivariate.from_dict(cur.to_dict())
            if rt != 'ok ' + wire(cur.to_dict()):
                bad['corr'] = bad['corr'] or {'case': key, 'trip': rt[:140]}
            eq, why = gauss_expected_equal(tab, g)
            if not eq:
                ctx.count(f'gauss:model-predicts-divergence:{why}')
                continue
            X = pd.DataFrame(data, columns=g.columns).iloc[:6] if not isinstance(data, pd.DataFrame) else data.iloc[:6]
            skip = () if gauss_cdf_reproducible(g, X) else ('cdf2',)
            if skip:
                ctx.count('gauss:cdf-not-reproducible-on-original(skipped)')
            b0 = gauss_behaviour(g, X, 3)
            for vname, robj in gauss_variants(g, d, tmp, 3).items():
                if robj[0] == 'err':
                    bad['behav'] = bad['behav'] or {'case': key, 'variant': vname, 'error': robj[1]}
                    continue
                o = robj[1]
                if type(o) is not GaussianMultivariate or not o.fitted:
                    bad['behav'] = bad['behav'] or {'case': key, 'variant': vname, 'class': type(o).__name__, 'fitted': o.fitted}
                    continue
                diff = compare_behaviour(b0, gauss_behaviour(o, X, 3), skip)
                if diff:
                    bad['behav'] = bad['behav'] or {'case': key, 'variant': vname, 'differs': diff}
            ctx.sample({'class': 'GaussianMultivariate', 'labels': [str(c) for c in g.columns],
                        'marginals': [type(concrete(u)).__name__ for u in g.univariates]})
        # hand-made dicts with an asymmetric "correlation": from_dict(d).to_dict() must give d back
        rng = ctx.rng('gauss-asym')
        for i in range(3):
            k = rng.randint(2, 4)
            corr = [[1.0 if a == b else round(rng.uniform(-0.9, 0.9), 3) for b in range(k)] for a in range(k)]
            d = {'correlation': corr,
                 'univariates': [{'loc': float(j), 'scale': 1.0 + j, 'type': 'copulas.univariate.gaussian.GaussianUnivariate'}
                                 for j in range(k)],
                 'columns': [f'x{j}' if i != 1 else j for j in range(k)],
                 'type': 'copulas.multivariate.gaussian.GaussianMultivariate'}
            ctx.case(('asym', i, k), True)
            g = Multivariate.from_dict(d)
            d2 = g.to_dict()
            rep = lean.ask('serial multi ' + wire(d))
            if not deep_equal(d, d2) or rep != 'ok gauss 1 ' + wire(d) or g.correlation.iloc[0, 1] != corr[0][1]:
                bad['asym'] = bad['asym'] or {'dict': str(d['correlation']), 'after': str(d2['correlation']), 'model': rep[:80]}
        # unfitted
        g = GaussianMultivariate()
        ok = False
        try:
            g.to_dict()
        except NotFittedError:
            ok = True
        p = os.path.join(tmp, 'gu.pkl')
        g.save(p)
        r = Multivariate.load(p)
        ok = ok and type(r) is GaussianMultivariate and not r.fitted
        ctx.case(('unfitted', 'GaussianMultivariate'), True)
        ctx.ob('behav:gaussian.unfitted', ok, 'tie', 'unfitted Gaussian: to_dict raises NotFittedError, pickle keeps it unfitted')
    finally:
        shutil.rmtree(tmp, ignore_errors=True)
    ctx.ob('corr:gaussian.keys', bad['keys'] is None, 'tie', bad['keys'] or 'ok')
    ctx.ob('corr:gaussian.from_dict', bad['corr'] is None, 'tie', bad['corr'] or 'ok')
    ctx.ob('corr:gaussian.json', bad['json'] is None, 'tie', bad['json'] or 'ok')
    ctx.ob('corr:gaussian.asymmetric-correlation', bad['asym'] is None, 'tie', bad['asym'] or 'ok')
    ctx.ob('behav:gaussian', bad['behav'] is None, 'tie', bad['behav'] or 'ok')


# ============================================================================================ vines
def vine_specs(ctx, n_each, deep=False):
    from copulas.multivariate import VineCopula
    rng = ctx.rng('vine-specs', 'deep' if deep else 'tie')
    out = []
    for vt in ('center', 'direct', 'regular'):
        for i in range(n_each):
            rs = np.random.RandomState(rng.getrandbits(32))
            d = rng.choice([3, 4]) if not deep else rng.choice([3, 4, 5])
            n = rng.randint(55, 70) if not deep else rng.randint(90, 140)
            A = rs.normal(size=(d, d))
            Z = rs.normal(size=(n, d)) @ (A / np.linalg.norm(A, axis=0)).T
            labels = [f'v{j}' for j in range(d)] if (i + len(vt)) % 2 else list(range(d))
            trunc = rng.choice([3, 3, 2, 1, d])
            out.append(((vt, d, n, trunc, 'str' if isinstance(labels[0], str) else 'int'), VineCopula(vt),
                        pd.DataFrame(Z, columns=labels), trunc))
    # the minimum column count: two columns (a single edge, a single tree)
    for vt in ('center', 'direct', 'regular'):
        rs = np.random.RandomState(rng.getrandbits(32))
        n = rng.randint(40, 60)
        z = rs.normal(size=(n, 2))
        z[:, 1] += rng.choice([0.9, -0.7, 0.3]) * z[:, 0]
        out.append(((vt, 2, n, 3, 'min-columns'), VineCopula(vt), pd.DataFrame(z, columns=rng.choice([['a', 'b'], [0, 1]])), 3))
    # fit HISTORIES: a vine object fitted before on another table (other width, other truncation)
    for vt in (('center', 'direct', 'regular') if deep else (rng.choice(['center', 'direct', 'regular']),)):
        rs = np.random.RandomState(rng.getrandbits(32))
        n = rng.randint(55, 70)
        d1, d2 = rng.choice([(4, 3), (3, 4), (4, 4)])
        first = pd.DataFrame(rs.normal(size=(n, d1)) @ rs.normal(size=(d1, d1)), columns=[f'o{j}' for j in range(d1)])
        second = pd.DataFrame(rs.normal(size=(n + 5, d2)) @ rs.normal(size=(d2, d2)), columns=[f'v{j}' for j in range(d2)])
        v = VineCopula(vt)
        q = deep or rng.random() < 0.7
        if outcome(lambda: v.fit(first, truncated=rng.choice([1, 3])))[0] == 'ok' and q:     # USE the vine between the fits
            outcome(lambda: _quiet_sample(v, 1))
            outcome(lambda: v.get_likelihood(np.full((1, d1), 0.4)))
            outcome(lambda: v.to_dict())
        out.append(((vt, d2, n + 5, 3, 'refit+q' if q else 'refit'), v, second, 3))
    return out


def vine_likelihood(v, u, fill):
    import copulas.multivariate.tree as T
    import copulas.multivariate.vine as VN
    saved = (T.np, VN.np)
    T.np = VN.np = NpProxy(fill)
    try:
        return outcome(lambda: float(v.get_likelihood(u)))
    finally:
        T.np, VN.np = saved


def vine_behaviour(v, u, seed, lik=True):
    out = {}
    out['to_dict'] = outcome(lambda: wire(v.to_dict()))

    def samp():
        v.set_random_state(seed)
        a = v.sample(2)
        b = v.sample(1)
        return np.concatenate([np.ravel(a.to_numpy()), np.ravel(b.to_numpy())])
    out['sample_seeded'] = outcome(samp)
    if lik:
        out['likelihood_a'] = vine_likelihood(v, u, 0.123)
        out['likelihood_b'] = vine_likelihood(v, u, 0.777)
    return out


def vine_variants(v, d, tmp, trips, generic=True):
    from copulas.multivariate import Multivariate, VineCopula
    out = {}
    out['from_dict'] = outcome(lambda: VineCopula.from_dict(d))
    if generic:
        out['generic_from_dict'] = outcome(lambda: Multivariate.from_dict(d))

    def many():
        cur = v
        for _ in range(trips):
            cur = VineCopula.from_dict(cur.to_dict())
        return cur
    out[f'trips{trips}'] = outcome(many)

    def sl():
        p = os.path.join(tmp, 'v.pkl')
        v.save(p)
        r = Multivariate.load(p)
        r.save(p)
        return VineCopula.load(p)
    out['save_load'] = outcome(sl)
    return out


def vine_parent_identity(v):
    """(number of parent slots, how many of them ARE an edge object of the previous tree)"""
    slots = shared = 0
    for k, t in enumerate(v.trees):
        for e in t.edges:
            for p in (e.parents or []):
                slots += 1
                if k > 0 and any(p is q for q in v.trees[k - 1].edges):
                    shared += 1
    return slots, shared


def tie_vine(ctx, lean, n_each):
    from copulas.multivariate import Multivariate, VineCopula
    tmp = scratch_dir(ctx, 'vine')
    bad = {k: None for k in ('corr', 'json', 'behav', 'keys', 'relink', 'generic')}
    try:
        K = {w: lean.ask(f'serial keys {w}').split()[1:] for w in ('vinehead', 'vine', 'treehead', 'tree', 'edge')}
        for key, v, df, trunc in vine_specs(ctx, n_each):
            r = outcome(lambda: v.fit(df, truncated=trunc))
            if r[0] == 'err':
                ctx.count(f'vine:fit-raised:{key[0]}')
                continue
            ctx.case(key, True)
            ctx.count(f'vine:{key[0]}:trees={len(v.trees)}')
            d = v.to_dict()
            ok_keys = list(d) == K['vine'] and all(list(t) == K['tree'] for t in d['trees']) and \
                all(list(e) == K['edge'] for t in d['trees'] for e in t['edges'])
            if not ok_keys:
                bad['keys'] = bad['keys'] or {'case': key, 'real': list(d)}
            w = wire(d)
            v2 = VineCopula.from_dict(d)
            rep = lean.ask('serial vine ' + w)
            # generic entry point: the model says whether get_instance(type) can build the class
            gen_model = lean.ask('serial multi ' + w)
            gen_real = outcome(lambda: Multivariate.from_dict(d))
            generic_ok = gen_model != 'err'
            if generic_ok != (gen_real[0] == 'ok') or (generic_ok and gen_model != rep):
                bad['generic'] = bad.get('generic') or {'case': key, 'model': gen_model[:40], 'real': gen_real[0:2] if gen_real[0] == 'err' else 'ok'}
            ctx.count(f'vine:generic-entry-point:{"ok" if generic_ok else "model-predicts-TypeError"}')
            slots0, shared0 = vine_parent_identity(v)
            slots2, shared2 = vine_parent_identity(v2)
            fresh_real = 1 if shared2 == 0 else 0
            if rep != f'ok vine {fresh_real} {wire(v2.to_dict())}' or type(v2) is not VineCopula:
                bad['corr'] = bad['corr'] or {'case': key, 'model': rep[:100], 'fresh_real': fresh_real}
            if slots0 != shared0 or slots2 != slots0 or shared2 != 0:
                bad['relink'] = bad['relink'] or {'case': key, 'original': (slots0, shared0), 'rebuilt': (slots2, shared2)}
            ctx.count('vine:parent-slots', slots0)
            rj = lean.ask('serial json ' + w)
            try:
                json.dumps(d)
                real_j = 'ok'
            except TypeError:
                real_j = 'err'
            if rj != real_j:
                bad['json'] = bad['json'] or {'case': key, 'model': rj[:80], 'real': real_j}
            rt = lean.ask('serial trip v 2 ' + w)
            cur = v2
            for _ in range(2):
                cur = VineCopula.from_dict(cur.to_dict())
            if rt != 'ok ' + wire(cur.to_dict()):
                bad['corr'] = bad['corr'] or {'case': key, 'trip': rt[:100]}
            rs = ctx.nprng('vine-probe', *map(str, key))
            u = rs.uniform(0.05, 0.95, (1, v.n_var))
            b0 = vine_behaviour(v, u, 2)
            skip = ()
            if not (same_outcome(b0['likelihood_a'], b0['likelihood_b'])):
                skip = ('likelihood_a', 'likelihood_b')
                ctx.count(f'vine:likelihood-reads-uninitialised-memory(skipped):{key[0]}')
            for vname, robj in vine_variants(v, d, tmp, 3, generic=generic_ok).items():
                if robj[0] == 'err':
                    bad['behav'] = bad['behav'] or {'case': key, 'variant': vname, 'error': robj[1]}
                    continue
                o = robj[1]
                if type(o) is not VineCopula or not o.fitted:
                    bad['behav'] = bad['behav'] or {'case': key, 'variant': vname, 'class': type(o).__name__}
                    continue
                diff = compare_behaviour(b0, vine_behaviour(o, u, 2), skip)
                if diff:
                    bad['behav'] = bad['behav'] or {'case': key, 'variant': vname, 'differs': diff}
            ctx.sample({'class': 'VineCopula', 'type': key[0], 'columns': key[1], 'rows': key[2], 'truncated': trunc})
        # unfitted
        ok = True
        for vt in ('center', 'direct', 'regular'):
            v = VineCopula(vt)
            d = v.to_dict()
            ctx.case(('unfitted-vine', vt), True)
            v2 = VineCopula.from_dict(d)
            rep = lean.ask('serial vine ' + wire(d))
            ok = ok and list(d) == K['vinehead'] and type(v2) is VineCopula and not v2.fitted and deep_equal(v2.to_dict(), d) \
                and rep == 'ok vine 1 ' + wire(d) and lean.ask('serial json ' + wire(d)) == 'ok ' + wire(json.loads(json.dumps(d)))
            p = os.path.join(tmp, 'vu.pkl')
            v.save(p)
            ok = ok and not Multivariate.load(p).fitted
        ctx.ob('behav:vine.unfitted', ok, 'tie', 'unfitted vine round-trips to an unfitted vine (dict, JSON, pickle)')
    finally:
        shutil.rmtree(tmp, ignore_errors=True)
    ctx.ob('corr:vine.keys', bad['keys'] is None, 'tie', bad['keys'] or 'ok')
    ctx.ob('corr:vine.from_dict', bad['corr'] is None, 'tie', bad['corr'] or 'ok')
    ctx.ob('corr:vine.generic-entry-point', bad['generic'] is None, 'tie', bad['generic'] or 'ok')
    ctx.ob('corr:vine.json-rejected', bad['json'] is None, 'tie', bad['json'] or 'ok')
    ctx.ob('corr:vine.parents-are-copies', bad['relink'] is None, 'tie', bad['relink'] or 'ok')
    ctx.ob('behav:vine', bad['behav'] is None, 'tie', bad['behav'] or 'ok')


# ============================================================================================ tables
def tie_tables(ctx, lean, tab):
    from copulas.bivariate import Bivariate
    from copulas.univariate.base import ScipyModel
    import copulas.bivariate.independence  # noqa: F401  (registers the subclass)
    real_fams = sorted(c.__module__ + '.' + c.__name__ for c in ScipyModel.__subclasses__())
    real_biv = sorted(f'{c.__name__}={c.copula_type.name}' for c in Bivariate._get_subclasses())
    gen_biv = sorted(lean.ask('serial bivclasses').split()[1:])
    detail = None
    if sorted(tab) != real_fams:
        detail = {'generated': sorted(tab), 'real': real_fams}
    elif gen_biv != real_biv:
        detail = {'generated': gen_biv, 'real': real_biv}
    else:
        for q, row in tab.items():
            cls = uni_classes()[row['name']]
            inst = cls()
            for o in row['ctorOptions']:
                if not hasattr(inst, o) or getattr(inst, o) is not None:
                    detail = {'class': row['name'], 'ctor option': o}
    ctx.case(('tables',), True)
    ctx.ob('corr:tables', detail is None, 'tie', detail or 'ok')


def run(ctx, lean):
    names = ['corr:tables', 'corr:univariate.from_dict', 'corr:bivariate.from_dict', 'corr:gaussian.from_dict', 'corr:vine.from_dict']
    if lean is None:
        for n in names:
            ctx.ob(n, False, 'tie', 'driver unavailable')
        return
    tab = lean_fam_table(lean)
    if tab is None:
        ctx.ob('corr:tables', False, 'tie', 'driver did not return the family table')
        return
    s = ctx.scale
    sections = [('tables', lambda: tie_tables(ctx, lean, tab)),
                ('univariate', lambda: tie_univariate(ctx, lean, tab, 10 * s)),
                ('bivariate', lambda: tie_bivariate(ctx, lean, 1 * s)),
                ('gaussian', lambda: tie_gaussian(ctx, lean, tab, 5 * min(s, 4))),
                ('vine', lambda: tie_vine(ctx, lean, 1 * min(s, 4)))]
    for name, fn in sections:
        try:
            fn()
        except Exception:  # the real code raised where the tie expects a value: a broken correspondence, and the
            # failing-input search below still runs
            import traceback
            ctx.ob(f'corr:{name}.no-exception', False, 'tie', traceback.format_exc()[-500:])


# ============================================================================================ search (oracle on the real code)
def _report(ctx, found, entry, inp, obs, req, cls):
    found.append(cls)
    ctx.fail_input(entry, inp, obs, req, cls)


def _uni_class_key(m, variant, what, hist='', rebuilt=None):
    from copulas.univariate import Univariate
    c = concrete(m)
    name = type(c).__name__
    const = is_constant_obj(m)
    entry = {'save_load': f'{type(m).__name__}.save/load'}.get(variant, f'{name}.from_dict')
    if variant != 'save_load':
        if name == 'GaussianKDE' and not const:
            for o in ('bw_method', 'weights'):
                if getattr(c, o, None) is not None:
                    return entry, f'GaussianKDE.from_dict:{o}-not-serialised'
        if const and rebuilt is not None and ('float32' in what or 'scalar32' in what) \
                and wire(getattr(concrete(rebuilt), '_constant_value', None)) == wire(c._constant_value) \
                and type(getattr(concrete(rebuilt), '_constant_value', None)) is float and type(c._constant_value) is not float:
            # same constant, but a plain Python float where the original holds a numpy scalar: numpy compares a float32
            # array with a Python float in float32, with an np.float64 scalar in float64
            if variant == 'json' or variant.startswith('trips'):
                return entry, 'Univariate.from_dict:json-restored-constant-is-python-float:float32-query-differs'
            return entry, f'{entry}:constant-restored-as-python-float:float32-query-differs'
        if const and name == 'StudentTUnivariate' and \
                wire(Univariate.from_dict(m.to_dict())._constant_value) != wire(c._constant_value):
            return entry, 'StudentTUnivariate.from_dict:constant-value-taken-from-fitted-loc'
        if not const:
            m2 = Univariate.from_dict(m.to_dict())
            if is_constant_obj(m2):
                exact = c._params.get('scale', None)
                if isinstance(exact, (int, float)) and exact == 0:
                    # e.g. a standard deviation that underflowed to 0.0 on non-constant data
                    return entry, f'{name}.from_dict:non-constant-fit-with-zero-scale-detected-as-constant'
                return entry, f'{name}.from_dict:non-constant-fit-detected-as-constant'
    if ':' in what:                 # e.g. 'pdf:float32' -> pdf differs on float32 query points
        base, q = what.split(':', 1)
        what_txt = f'{base}-differs:{q}-query'
    else:
        what_txt = f'{what}-differs'
    if hist:
        st = stale_state(m)
        if st == 'constant-with-stale-_model' and what == 'log_pdf':
            # the constant refit left the kernel estimate of the EARLIER data in `_model`, and log_probability_density
            # (not among the replaced methods) still evaluates it; the rebuilt constant model has no `_model`
            return entry, f'{entry}:log_pdf-differs:constant-refit-keeps-stale-_model'
        return entry, f'{entry}:{what_txt}:' + ('after-query-and-refit' if '>q' in hist else 'after-refit')
    return entry, f'{entry}:{what_txt}'


def search_univariate(ctx, deep, found):
    tmp = scratch_dir(ctx, 'search-uni')
    checked = 0
    try:
        specs = list(uni_specs(ctx, 100 if deep else 4, deep=deep))
        # the contrived edge: non-constant data whose standard deviation underflows to 0
        C = uni_classes()
        specs.append((('GaussianUnivariate', '[]', 'underflow', 3), (lambda: C['GaussianUnivariate']()), 'GaussianUnivariate', {},
                      np.array([1e-170, 2e-170, 3e-170]), 'underflow'))
        for c in (CONSTANTS if deep else (0.0, 7.0, 1e10)):
            specs.append((('StudentTUnivariate', '[]', 'const', repr(c)), (lambda: C['StudentTUnivariate']()), 'StudentTUnivariate',
                          {}, np.full(8, c), 'const'))
        for key, factory, name, opts, data, kind in specs:
            m = factory()
            if outcome(lambda: m.fit(data))[0] == 'err':
                continue
            hist = key[4] if len(key) > 4 else ''
            pre = getattr(factory, 'pre', ())
            d = m.to_dict()
            rs = ctx.nprng('search-uni-probe', *map(str, key))
            x, u = uni_probe_inputs(rs, data)
            if deep:
                x = np.concatenate([x, rs.normal(np.mean(data), np.std(data) + 1e-9, 60)])
                u = np.concatenate([u, rs.uniform(0, 1, 40)])
            b0 = uni_behaviour(m, x, u, 23, nsamp=40 if deep else 12)
            for vname, robj in uni_variants(ctx, m, d, tmp, 5 if deep else 3).items():
                checked += 1
                inp = {'class': name, 'options': {k: (v.tolist() if isinstance(v, np.ndarray) else v) for k, v in opts.items()},
                       'data': data.tolist() if len(data) <= 40 else {'kind': kind, 'n': len(data), 'seed_path': [str(k) for k in key],
                                                                        'head': data[:6].tolist(), 'min': float(np.min(data)),
                                                                        'max': float(np.max(data))},
                       'variant': vname}
                if hist:
                    inp['history'] = {'fits': hist, 'earlier_data': [(p.tolist() if len(p) <= 40 else
                                                                      {'n': len(p), 'head': p[:6].tolist()}) for p in pre]}
                if robj[0] == 'err':
                    e, cls = _uni_class_key(m, vname, 'raises')
                    cls = f'{e}:raises-{robj[1]}'
                    cm = concrete(m)
                    if vname == 'save_load' and type(cm).__name__ == 'GaussianKDE' and not is_constant_obj(m) \
                            and isinstance(getattr(cm, 'bw_method', None), (int, float)):
                        # scipy's gaussian_kde keeps a local lambda for a scalar bandwidth: pickle refuses it
                        cls = 'GaussianKDE.save:scalar-bw_method-model-not-picklable'
                    _report(ctx, found, e, inp, robj[1], 'the rebuilt model exists', cls)
                    continue
                o = robj[1]
                want = type(m) if vname == 'save_load' else type(concrete(m))
                if type(o) is not want:
                    e, cls = _uni_class_key(m, vname, 'class')
                    _report(ctx, found, e, inp, type(o).__name__, f'class {want.__name__}', f'{e}:wrong-class')
                    continue
                diff = compare_behaviour(b0, uni_behaviour(o, x, u, 23, nsamp=40 if deep else 12))
                if diff:
                    e, cls = _uni_class_key(m, vname, diff, hist, rebuilt=o)
                    b1 = uni_behaviour(o, x, u, 23)
                    obs = {'differs': diff, 'original': _brief(b0[diff]), 'rebuilt': _brief(b1.get(diff))}
                    _report(ctx, found, e, inp, obs, f'{diff} identical to the original model\'s', cls)
    finally:
        shutil.rmtree(tmp, ignore_errors=True)
    return checked


def _brief(r):
    if r is None:
        return None
    if r[0] == 'err':
        return r
    v = r[1]
    if isinstance(v, str):
        return v[:80]
    return np.ravel(np.asarray(v, dtype=float))[:4].tolist()


def search_bivariate(ctx, deep, found):
    tmp = scratch_dir(ctx, 'search-biv')
    checked = 0
    try:
        for key, m, how in biv_specs(ctx, 10 if deep else 1, deep=deep):
            d = m.to_dict()
            rs = ctx.nprng('search-biv-probe', *map(str, key))
            X = np.vstack([rs.uniform(0, 1, (40 if deep else 8, 2)), [[0.5, 0.5], [0.0, 0.4], [1.0, 1.0], [1e-9, 1 - 1e-9]]])
            y, v = rs.uniform(0.02, 0.98, 6), rs.uniform(0.02, 0.98, 6)
            b0 = biv_behaviour(m, X, y, v, 9)
            for vname, robj in biv_variants(m, d, tmp, 5 if deep else 3).items():
                checked += 1
                inp = {'class': type(m).__name__, 'theta': m.theta, 'tau': m.tau, 'variant': vname}
                sfx = ''
                if how == 'refused':
                    inp['state'] = {'history': key[1], 'refusing_data': key[2]}
                    sfx = ':after-refused-fit'
                e = f'{type(m).__name__}.{"save/load" if vname == "save_load" else "from_dict"}'
                if robj[0] == 'err':
                    _report(ctx, found, e, inp, robj[1], 'the rebuilt copula exists', f'{e}:raises-{robj[1]}' + sfx)
                    continue
                o = robj[1]
                if type(o) is not type(m):
                    _report(ctx, found, e, inp, type(o).__name__, f'class {type(m).__name__}', f'{e}:wrong-class')
                    continue
                diff = compare_behaviour(b0, biv_behaviour(o, X, y, v, 9))
                if diff:
                    b1 = biv_behaviour(o, X, y, v, 9)
                    _report(ctx, found, e, inp, {'differs': diff, 'original': _brief(b0[diff]), 'rebuilt': _brief(b1.get(diff))},
                            f'{diff} identical', f'{e}:{diff}-differs' + sfx)
    finally:
        shutil.rmtree(tmp, ignore_errors=True)
    return checked


def search_gaussian(ctx, deep, found, tab_like):
    from copulas.multivariate import GaussianMultivariate
    tmp = scratch_dir(ctx, 'search-gauss')
    checked = 0
    try:
        for key, g, data, df in gauss_specs(ctx, 20 if deep else 2, deep=deep):
            if outcome(lambda: g.fit(data))[0] == 'err':
                continue
            d = g.to_dict()
            X = (pd.DataFrame(data, columns=g.columns) if not isinstance(data, pd.DataFrame) else data).iloc[:(25 if deep else 6)]
            skip = () if gauss_cdf_reproducible(g, X) else ('cdf2',)
            b0 = gauss_behaviour(g, X, 4)
            for vname, robj in gauss_variants(g, d, tmp, 5 if deep else 3).items():
                checked += 1
                marg = [type(concrete(u)).__name__ + ('(const)' if is_constant_obj(u) else '') for u in g.univariates]
                inp = {'labels': [str(c) for c in g.columns], 'marginals': marg, 'rows': len(df), 'variant': vname,
                       'seed_path': [str(k) for k in key]}
                e = 'GaussianMultivariate.' + ('save/load' if vname == 'save_load' else 'from_dict')
                if robj[0] == 'err':
                    _report(ctx, found, e, inp, robj[1], 'the rebuilt model exists', f'{e}:raises-{robj[1]}')
                    continue
                o = robj[1]
                if type(o) is not GaussianMultivariate or not o.fitted:
                    _report(ctx, found, e, inp, {'class': type(o).__name__, 'fitted': o.fitted}, 'a fitted GaussianMultivariate',
                            f'{e}:not-a-fitted-GaussianMultivariate')
                    continue
                diff = compare_behaviour(b0, gauss_behaviour(o, X, 4), skip)
                if diff:
                    # attribute the divergence to a marginal when one of them is a known-divergent shape
                    what = 'conditional-sample' if diff.startswith('conditional-sample') else diff
                    cls = (f'{e}:correlation-labels-differ' if diff == 'correlation-labels' else f'{e}:{what}-differs') + \
                        ((':after-query-and-refit' if str(key[2][0]).endswith('+q') else ':after-refit')
                         if str(key[2][0]).startswith('refit:') else '')
                    if vname != 'save_load':
                        for u in g.univariates:
                            eq, why = model_predicts_equal_quick(tab_like, u)
                            if not eq:
                                _, cls = _uni_class_key(u, 'from_dict', diff)
                                break
                    b1 = gauss_behaviour(o, X, 4)
                    _report(ctx, found, e, inp, {'differs': diff, 'original': _brief(b0[diff]), 'rebuilt': _brief(b1.get(diff))},
                            f'{diff} identical', cls)
    finally:
        shutil.rmtree(tmp, ignore_errors=True)
    return checked


def search_vine(ctx, deep, found):
    from copulas.multivariate import VineCopula
    tmp = scratch_dir(ctx, 'search-vine')
    checked = 0
    try:
        for key, v, df, trunc in vine_specs(ctx, 5 if deep else 1, deep=deep):
            if outcome(lambda: v.fit(df, truncated=trunc))[0] == 'err':
                continue
            d = v.to_dict()
            rs = ctx.nprng('search-vine-probe', *map(str, key))
            u = rs.uniform(0.05, 0.95, (1, v.n_var))
            b0 = vine_behaviour(v, u, 6)
            skip = () if same_outcome(b0['likelihood_a'], b0['likelihood_b']) else ('likelihood_a', 'likelihood_b')
            for vname, robj in vine_variants(v, d, tmp, 4 if deep else 3).items():
                checked += 1
                inp = {'vine_type': key[0], 'columns': key[1], 'rows': key[2], 'truncated': trunc, 'variant': vname,
                       'seed_path': [str(k) for k in key]}
                e = 'VineCopula.' + ('save/load' if vname == 'save_load' else 'from_dict')
                if vname == 'generic_from_dict' and robj[0] == 'err':
                    _report(ctx, found, 'Multivariate.from_dict', inp, robj[1],
                            'Multivariate.from_dict(vine.to_dict()) builds a VineCopula (dispatch on the recorded type)',
                            f'Multivariate.from_dict:vine-dict-raises-{robj[1]}')
                    continue
                if robj[0] == 'err':
                    _report(ctx, found, e, inp, robj[1], 'the rebuilt vine exists', f'{e}:raises-{robj[1]}')
                    continue
                o = robj[1]
                if type(o) is not VineCopula or not o.fitted:
                    _report(ctx, found, e, inp, type(o).__name__, 'a fitted VineCopula', f'{e}:not-a-fitted-VineCopula')
                    continue
                diff = compare_behaviour(b0, vine_behaviour(o, u, 6), skip)
                if diff:
                    _report(ctx, found, e, inp, {'differs': diff}, f'{diff} identical',
                            f'{e}:{diff}-differs' + ({'refit': ':after-refit', 'refit+q': ':after-query-and-refit'}.get(key[4], '')))
    finally:
        shutil.rmtree(tmp, ignore_errors=True)
    return checked


def _tab_from_source():
    """what `model_predicts_equal_quick` needs, without the Lean driver (search must not depend on Lean):
    usesModel / modelOptions per family, read from the real classes."""
    tab = {}
    for name, cls in uni_classes().items():
        uses = name == 'GaussianKDE'
        tab[cls.__module__ + '.' + name] = {'usesModel': uses, 'modelOptions': ['bw_method', 'weights'] if uses else []}
    return tab


def search(ctx, deep):
    found = []
    n1 = search_univariate(ctx, deep, found)
    n2 = search_bivariate(ctx, deep, found)
    n3 = search_gaussian(ctx, deep, found, _tab_from_source())
    n4 = search_vine(ctx, deep, found)
    ctx.support = {'rebuilt_objects_compared': {'univariate': n1, 'bivariate': n2, 'gaussian': n3, 'vine': n4},
                   'failures': len(found), 'classes': sorted(set(found)), 'deep': deep}


def replay(ctx, payload):
    before = len(ctx.failing)
    search(ctx, True)
    return any(f['class'] == payload.get('class') for f in ctx.failing[before:])
