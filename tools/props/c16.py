"""C16 — A fitted vine is a regular vine of the requested type and depth.

Tie (K, refinement): every generated table is fitted by the REAL `VineCopula` for the three vine
types; `Tree.fit` is wrapped (in this process only) to snapshot the tau matrix each tree received
(the trees then mutate it in place).  From the fitted object the trees are extracted
(L, R, D, parent indices, tau, family, theta) and
  (i)   `Model.Vine.trainVine` is replayed in Lean on the snapshots + the observed tie-breaking and
        must reproduce every edge (L, R, D, parents in sort_edge order, edge.tau bit for bit);
  (ii)  the replay only succeeds if every under-specified step (numpy's unstable argsort of tied
        keys, CPython's `sorted(set, key=…)[0]`) is ACCEPTED by the model's step acceptors;
  (iii) the decidable checker `isRegularVine` + the type predicate (star / path in every tree) is
        evaluated in Lean on the extracted real structure, and every edge's theta must pass the
        generated `check_theta` tables and the real `check_theta`.
Search: the property's own statement as a pure-Python oracle on real fitted vines.
"""
import contextlib
import os
import signal
import warnings

import numpy as np
import pandas as pd

import vcommon as vc

warnings.filterwarnings('ignore')

GEN_TARGETS = ('Bivariate', 'VineBuild')
DRIVER_MAIN = 'Main/Vine.lean'
DRIVER_TARGETS = ['CopVerif.Driver.Vine']
ALWAYS_SEARCH = True
RULE = ('tables of 2-7 columns (quick: mostly 3-5) x 60-120 rows from a random correlation (Cholesky), in the '
        'modes plain / swap (half the rows are a column-permuted copy => exactly tied taus, no perfect '
        'dependence) / cyclic (all cyclic column shifts => circulant tau matrix) / small (8-14 rows => taus on a '
        'coarse lattice, many ties) / discrete (rounded => tau-b with row ties) / neardup / dup (an exactly '
        'duplicated column) / indep / zero (Kendall tau with column 0 EXACTLY 0: x on a symmetric grid with '
        'x**2, rows mirrored in column 0, 9-row permutation grids; the first 8 tables of every run) / ties (yes-no flags, 3-5 level ratings, rounded columns next to '
        'continuous ones, re-drawn until the maximum spanning tree of |tau-a| is not one of |tau-b|; tables 9-14 of '
        'every run) / neareq (rank tables in which the two candidate edges for attaching a column have |tau-b| '
        '1e-9..6e-8 apart - concordance counts equal up to a few units, a tie group in one column - in all six column '
        'orders; tables 15-20 of every run) / antitone (one noisy column, one exactly decreasing and d-2 exactly '
        'increasing functions of z => taus of exactly -1 and +1, fitted with truncated=1; tables 21-26 of every run, '
        'all 24 column orders of a 4-column table in the search); every table is relabelled (values untouched): column labels default / '
        'RangeIndex / descending or shuffled strings / permuted or non-contiguous ints / tuples / mixed types / '
        'floats, row index default / DatetimeIndex / strings / offset ints / shuffled ints - all references are by '
        'POSITION of the table as given; the search also fits LONG tables (1999..4000 rows x 4 columns, rows '
        'alternating between two sub-populations so that every 2nd / 4th row has another |tau| ranking, plus a '
        'homogeneous one; truncated=1) against full-table tau-b, and runs REFUSED fits (exactly monotone-related / duplicated / '
        'constant columns: ValueError part-way through the tree build) on a never-fitted and on a previously fitted '
        'instance and checks that a never-fitted model does not claim to be fitted; the truncation t in 1..d+1 is passed as fit(X, t), fit(X, truncated=t), fit(X=X, truncated=t) or omitted '
        '(then t = the default 3); the search additionally runs every t in 1..d+1 in every call form on small '
        'tables; about 1 fit in 3 is a SECOND fit of an object first fitted on another table (columns permuted / '
        'fresh same width / narrower / wider, own truncation) and is compared with a fresh object; the tau matrix '
        'the first Tree.fit received is compared (1e-12) with Kendall tau-b computed independently by '
        'scipy.stats.kendalltau, which is also the weight of the MST clause; each fitted as center, direct and regular vine with truncation t in 1..d. '
        'A case is distinct by (type, d, t, extracted structure, first-tree tau matrix) and non-trivial when '
        'd >= 3 and the fit returned; fits that raise (perfectly dependent columns make a later '
        '`Bivariate.fit` raise ValueError) are counted as refused.  Unit stream: random and vine-shaped edge '
        'pairs (adjacent and malformed) for _identify_eds_ing / _check_constraint / is_adjacent / sort_edge / '
        '_get_constraints.')
PARTIAL = ['prim_is_max_spanning_tree_partial: proved = spanning tree + greedy-cut property of every Prim step; the '
           'exchange argument (maximum total weight) is not formalised; search-supported (Kruskal weight multiset)',
           'pairs_once for ARBITRARY regular vines (pairs_once_regular_partial): proved for center and direct vines '
           '(and for any C-vine/D-vine shaped structure); for regular vines the sound checker isRegularVine is '
           'evaluated on every real fitted vine instead',
           'edge_theta_admissible: not a theorem about fit (that is C10/C11); every edge of every fitted vine is '
           'checked against the generated check_theta tables (meaning: theta_admissible_iff) and the real check_theta',
           'NaN keys (np.argmax / sorted() with NaN) are not modelled: Kendall matrices of fitted tables are NaN-free; '
           'if an uninitialised np.empty cell of a k-th regular tree happens to be NaN the replay is cut at that tree '
           '(counted in the histogram; structure still checked by isRegularVine)']
ASSUMPTIONS = ['the tau matrices are DATA: the harness sends the matrix each Tree.fit received (snapshot taken by '
               'wrapping Tree.fit in the harness process); theorems assume ChoicesOK: center - the |tau| keys of '
               'column 0 exceed the NaN marker -10 (true of every real matrix, colOK_real); direct, first tree - '
               'square matrix with entries > -10; regular - nothing',
               'pair-copula selection (select_copula) does not influence the structure; only (family, theta) '
               'admissibility is checked here (C10/C11/C17 cover the values)',
               'Edge.index equals the position in Tree.edges (checked on every extracted vine)',
               'a fit that does not return within 20 s (normal: < 1 s) is reported as non-terminating']
TRUSTED_EXTRA = ['harness-side wrapper of Tree.fit that copies tau_matrix before the tree edits it in place']

FIT_TIMEOUT_S = 20       # a fit takes < 1 s; only a non-terminating loop gets here
FIT_TIMEOUT_AFTER_FIRST_S = 3
MAX_TIMEOUTS_PER_TYPE = 2
_TIMEOUTS = {}
MODES = ('plain', 'swap', 'cyclic', 'small', 'discrete', 'neardup', 'dup', 'indep', 'zero', 'ties', 'neareq', 'antitone')
MODE_W = (5, 5, 3, 4, 3, 2, 1, 2, 5, 6, 3, 2)
TYPES = ('center', 'direct', 'regular')


# ----------------------------------------------------------------------------- independent reference taus
def tau_b_matrix(M):
    """Pairwise Kendall tau-b (tie-corrected: what `Kendall's tau` of tied data means and what scipy/pandas
    compute), straight from the data with scipy.stats.kendalltau - independent of the model's own matrix."""
    import scipy.stats
    M = np.asarray(M, dtype=float)
    d = M.shape[1]
    T = np.eye(d)
    for i in range(d):
        for j in range(i):
            T[i, j] = T[j, i] = scipy.stats.kendalltau(M[:, i], M[:, j])[0]
    return T


def tau_a_matrix(M):
    """Kendall tau-a (no tie correction) - only used to make sure a generated table is one on which
    forgetting the tie correction changes the maximum spanning tree."""
    M = np.asarray(M, dtype=float)
    n = len(M)
    sg = np.stack([np.sign(np.subtract.outer(c, c)).ravel() for c in M.T])
    return sg @ sg.T / (n * (n - 1))


def kruskal_edges(w):
    d = w.shape[0]
    es = sorted(((w[i, j], i, j) for i in range(d) for j in range(i)), reverse=True)
    par = list(range(d))

    def find(x):
        while par[x] != x:
            par[x] = par[par[x]]
            x = par[x]
        return x
    out = []
    for wt, i, j in es:
        a, b = find(i), find(j)
        if a != b:
            par[a] = b
            out.append((i, j))
    return out


def tie_correction_matters(M):
    """the maximum spanning tree of |tau-a| is NOT a maximum spanning tree of |tau-b|."""
    A, B = np.abs(tau_a_matrix(M)), np.abs(tau_b_matrix(M))
    wa, wb = sorted(B[i, j] for i, j in kruskal_edges(A)), sorted(B[i, j] for i, j in kruskal_edges(B))
    return any(abs(a - b) > 1e-6 for a, b in zip(wa, wb))


def tied_columns(rng, rs, Z):
    """yes/no flags, 3-5 level ratings and rounded measurements next to continuous columns."""
    d = Z.shape[1]
    Z = Z.copy()
    for c in rng.sample(range(d), rng.randint(1, max(1, d - 1))):
        kind = rng.choice(['flag', 'flag', 'rating', 'round'])
        if kind == 'flag':
            Z[:, c] = (Z[:, c] > np.quantile(Z[:, c], rng.choice([0.5, 0.3, 0.7]))).astype(float)
        elif kind == 'rating':
            lv = rng.randint(3, 5)
            Z[:, c] = np.searchsorted(np.quantile(Z[:, c], np.linspace(0, 1, lv + 1)[1:-1]), Z[:, c]).astype(float)
        else:
            Z[:, c] = np.round(Z[:, c])
    return Z


# ----------------------------------------------------------------------------- column labels and row index
COL_SCHEMES = ('default', 'range', 'descending-str', 'shuffled-str', 'permuted-int', 'noncontiguous-int', 'tuples',
               'mixed', 'floats')
ROW_SCHEMES = ('default', 'datetime', 'strings', 'offset-int', 'shuffled-int')


def relabel(rng, X, col=None, row=None):
    """Same values, other labels.  The tau matrix, the edge indices and every reference of the oracle are BY
    POSITION of the table as given; labels (ascending or not, any hashable type) and the row index must not matter."""
    d, n = X.shape[1], X.shape[0]
    col = col or rng.choice(COL_SCHEMES)
    row = row or rng.choice(ROW_SCHEMES)
    words = ['alpha', 'beta', 'delta', 'gamma', 'kappa', 'mu', 'omega', 'zeta']
    if col == 'range':
        cols = None
    elif col == 'descending-str':
        cols = sorted(rng.sample(words, d), reverse=True)
    elif col == 'shuffled-str':
        cols = rng.sample(words, d)
        if cols == sorted(cols) and d > 1:
            cols = cols[::-1]
    elif col == 'permuted-int':
        cols = list(range(d))
        rng.shuffle(cols)
        if cols == sorted(cols) and d > 1:
            cols = cols[::-1]
    elif col == 'noncontiguous-int':
        cols = rng.sample(range(-5, 40), d)
        if cols == sorted(cols) and d > 1:
            cols = cols[::-1]
    elif col == 'tuples':
        cols = [(rng.choice('abg'), k) for k in rng.sample(range(9), d)]
        if cols == sorted(cols) and d > 1:
            cols = cols[::-1]
    elif col == 'mixed':
        pool = [3, 'b', ('t', 1), 1.5, 'a', 0, ('s', 2), -2.5]
        cols = rng.sample(pool, d)
    elif col == 'floats':
        cols = rng.sample([2.5, 0.1, 9.0, -1.0, 4.25, 7.5, -3.0, 0.5], d)
        if cols == sorted(cols) and d > 1:
            cols = cols[::-1]
    else:
        cols = list(X.columns)
    if row == 'datetime':
        idx = pd.date_range('2021-03-01', periods=n, freq='h')
    elif row == 'strings':
        idx = [f'r{i:04d}' for i in range(n)][::-1]
    elif row == 'offset-int':
        idx = range(500, 500 + n)
    elif row == 'shuffled-int':
        idx = list(range(n))
        rng.shuffle(idx)
    else:
        idx = None
    Y = pd.DataFrame(X.to_numpy(), columns=cols, index=idx)
    Y.attrs['labels'] = f'columns:{col} rows:{row}'
    return Y


def enc_labels(index):
    out = []
    for x in index:
        if isinstance(x, tuple):
            out.append({'tuple': [v.item() if hasattr(v, 'item') else v for v in x]})
        elif isinstance(x, pd.Timestamp):
            out.append({'timestamp': x.isoformat()})
        else:
            out.append(x.item() if hasattr(x, 'item') else x)
    return out


def dec_labels(lst):
    out = []
    for x in lst:
        if isinstance(x, dict) and 'tuple' in x:
            out.append(tuple(x['tuple']))
        elif isinstance(x, dict) and 'timestamp' in x:
            out.append(pd.Timestamp(x['timestamp']))
        else:
            out.append(x)
    return out


def enc_frame(X):
    e = {'columns': enc_labels(X.columns), 'rows': X.to_numpy().tolist()}
    if not (isinstance(X.index, pd.RangeIndex) and X.index.start == 0 and X.index.step == 1):
        e['row_index'] = enc_labels(X.index)
    return e


def dec_frame(e):
    idx = dec_labels(e['row_index']) if e.get('row_index') is not None else None
    return pd.DataFrame(np.array(e['rows'], dtype=float), columns=dec_labels(e['columns']), index=idx)


# ----------------------------------------------------------------------------- near-equal |tau| tables
_NEAREQ = None


def _neareq_candidates():
    """(n, g, S_ac, S_bc): a, c untied ranks of n rows, b with one group of g tied values; with these
    concordance sums tau_b(a,c) = S_ac/n0 and tau_b(b,c) = S_bc/sqrt(n0 (n0 - g(g-1)/2)) differ by 1e-9..5e-8 and
    become equal or swap order when rounded to float32."""
    global _NEAREQ
    if _NEAREQ is None:
        import math
        out = []
        for g in (3, 4, 5):
            tb = g * (g - 1) // 2
            for n in range(120, 241):
                n0 = n * (n - 1) // 2
                for dl in range(1, tb):
                    tgt = 2 * dl * n0 / tb
                    if tgt > 0.85 * n0:
                        continue
                    for sa in range(int(tgt) - 30, int(tgt) + 31):
                        if (sa - n0) % 2:
                            continue
                        for sb in range(sa - 2 * dl - 2, sa + 1):
                            if (sb - (n0 - tb)) % 2:
                                continue
                            t1, t2 = sa / n0, sb / math.sqrt(n0 * (n0 - tb))
                            if 1e-9 < abs(t1 - t2) < 5e-8:
                                f1, f2 = np.float32(t1), np.float32(t2)
                                if f1 == f2 or (f1 < f2) != (t1 < t2):
                                    out.append((n, g, sa, sb))
        _NEAREQ = out
    return _NEAREQ


def _conc_sum(x):
    """con - dis of x against the position order."""
    n = len(x)
    return int((np.sign(np.subtract.outer(x, x)) * np.sign(np.subtract.outer(np.arange(n), np.arange(n)))).sum() // 2)


def _value_swaps(x, rng, target, k=0):
    """x: ranks by position (the position order plays the third column c).  Exchanging the positions of two
    consecutive untied values changes con - dis against c by exactly 2 (and tau with any other column by at most
    2/n0): first k random such moves, then moves towards con - dis = target."""
    x = x.copy()
    vals, counts = np.unique(x, return_counts=True)
    ok = [i for i in range(len(vals) - 1) if counts[i] == 1 and counts[i + 1] == 1]
    pos = {int(v): int(np.where(x == v)[0][0]) for v, cn in zip(vals, counts) if cn == 1}
    s_, done = _conc_sum(x), 0
    for _ in range(5_000_000):
        if s_ == target and done >= k:
            return x
        i = rng.choice(ok)
        u, w = int(vals[i]), int(vals[i + 1])
        p, q = pos[u], pos[w]
        conc = p < q
        if done >= k and (s_ > target) != conc:
            continue
        x[p], x[q] = w, u
        pos[u], pos[w] = q, p
        s_ += -2 if conc else 2
        done += 1
    raise RuntimeError('near-equal table: target concordance not reached')


def near_equal_columns(rng):
    """Three rank columns a, b, c: tau_b(a,b) is the strongest dependence, and |tau_b(a,c)| and |tau_b(b,c)| - the
    two candidates for attaching c in Prim's algorithm - differ by 1e-9..6e-8 (verified with scipy.stats.kendalltau),
    a difference that float32 cannot see.  Equal concordance counts up to a few units; the tie group in b makes the
    tau-b denominators differ slightly."""
    import scipy.stats
    for _ in range(40):
        n, g, sa, sb = rng.choice(_neareq_candidates())
        n0 = n * (n - 1) // 2
        rs = np.random.RandomState(rng.getrandbits(32))
        z = np.arange(n) / n + rs.randn(n) * 0.35 * (1 - sa / n0)
        a = _value_swaps(np.argsort(np.argsort(z, kind='stable'), kind='stable'), rng, sa)
        b = a.copy()
        v = rng.randrange(n // 4, 3 * n // 4)
        b[(b >= v) & (b < v + g)] = v
        goal = rng.uniform(min(0.9, sa / n0 + 0.08), 0.93)
        b = _value_swaps(b, rng, sb, k=int(n0 * (1 - goal) * 1.2))
        a, b, c = a.astype(float), b.astype(float), np.arange(n).astype(float)
        tac, tbc, tab = (scipy.stats.kendalltau(a, c)[0], scipy.stats.kendalltau(b, c)[0],
                         scipy.stats.kendalltau(a, b)[0])
        f1, f2 = np.float32(tac), np.float32(tbc)
        if 0 < abs(tac - tbc) < 6e-8 and abs(tac - tbc) > 1e-9 and tab > max(tac, tbc) + 0.02 and \
                (f1 == f2 or (f1 < f2) != (tac < tbc)):
            return a, b, c
    raise RuntimeError('near-equal table: construction failed')


def near_equal_tables(rng, d=3):
    """the six column orders of one near-equal table (which of the two edges is enumerated first depends on the
    order); for d > 3 weakly dependent shuffled-rank columns are appended."""
    import itertools
    a, b, c = near_equal_columns(rng)
    rs = np.random.RandomState(rng.getrandbits(32))
    extra = [rs.permutation(len(a)).astype(float) for _ in range(max(0, d - 3))]
    out = []
    for order in itertools.permutations((a, b, c)):
        cols = list(order) + extra
        out.append(pd.DataFrame(np.column_stack(cols), columns=[f'c{i}' for i in range(len(cols))]))
    return out


# ----------------------------------------------------------------------------- generators
def antitone_columns(rng, d):
    """One noisy column, one exactly DEcreasing function of z and d-2 exactly increasing ones: Kendall taus of
    exactly -1 and +1 (the ends of the tau range).  Only the first tree can be estimated (fit with truncated=1)."""
    rs = np.random.RandomState(rng.getrandbits(32))
    n = rng.choice([40, 60, 90])
    z = rs.randn(n)
    inc = [z ** 3, 2 * z + 1, np.exp(z), np.arctan(z), z]
    rng.shuffle(inc)
    return [rng.uniform(0.3, 0.9) * z + rs.randn(n), -np.exp(z)] + inc[:d - 2]


def antitone_tables(rng, d, k=None):
    """column orders of one such table: all of them, or k random ones."""
    import itertools
    cols = antitone_columns(rng, d)
    orders = list(itertools.permutations(range(d)))
    if k is not None and k < len(orders):
        orders = rng.sample(orders, k)
    return [pd.DataFrame(np.column_stack([cols[i] for i in o]), columns=[f'c{i}' for i in range(d)]) for o in orders]


def gen_table(rng, d, mode):
    if mode == 'antitone':
        if d >= 3:
            return antitone_tables(rng, d, 1)[0]
        mode = 'plain'
    if mode == 'neareq':
        if d >= 3:
            return rng.choice(near_equal_tables(rng, d))
        mode = 'plain'
    rs = np.random.RandomState(rng.getrandbits(32))
    n = rng.randint(60, 120)
    A = rs.randn(d, d)
    S = A @ A.T + 0.05 * np.eye(d)
    s = np.sqrt(np.diag(S))
    L = np.linalg.cholesky(S / np.outer(s, s))
    Z = rs.randn(n, d) @ L.T
    if mode == 'indep':
        Z = rs.randn(n, d)
    elif mode == 'ties':
        # unequal tie densities; for d >= 3 re-drawn until the tie correction changes the maximum spanning
        # tree of the |Kendall tau| graph (tau-a MST != tau-b MST), so the case is non-trivial for the MST clause
        base = Z
        for _ in range(60):
            Z = tied_columns(rng, rs, base)
            if d < 3 or tie_correction_matters(Z):
                break
            A = rs.randn(d, d)
            S = A @ A.T + 0.05 * np.eye(d)
            s = np.sqrt(np.diag(S))
            base = rs.randn(n, d) @ np.linalg.cholesky(S / np.outer(s, s)).T
    elif mode == 'zero':
        # Kendall tau with column 0 EXACTLY 0 (concordant = discordant), so that the key of such a column
        # in _sort_tau_by_y(0) is 0.0 and only the -10 sentinel keeps variable 0 itself last
        kind = rng.choice(['even', 'even-rev', 'mirror', 'tiny'])
        if kind == 'tiny':
            Z = np.column_stack([rs.permutation(9) for _ in range(d)]) * 1.0
        elif kind == 'mirror':      # rows (x, y..) and (-x, y..): tau(col 0, every column) = 0
            A = Z[: n // 2]
            B = A.copy()
            B[:, 0] = -B[:, 0]
            Z = np.vstack([A, B])
        else:                       # x on a symmetric grid and the even function x**2
            m = rng.choice([21, 40, 41, 61])
            x = np.arange(m) - (m - 1) / 2.0
            Z = rs.randn(m, d) @ L.T
            j = rng.randrange(1, d)
            Z[:, 0] = x
            Z[:, j] = x ** 2
            if kind == 'even-rev':
                Z[:, [0, j]] = Z[:, [j, 0]]
            Z = Z[rs.permutation(m)]
    elif mode == 'swap' and d >= 3:
        half = Z[: n // 2]
        perm = list(range(d))
        if d >= 4 and rng.random() < 0.4:
            a, b, c = rng.sample(range(d), 3)
            perm[a], perm[b], perm[c] = perm[b], perm[c], perm[a]
        else:
            a, b = rng.sample(range(d), 2)
            perm[a], perm[b] = perm[b], perm[a]
        Z = np.vstack([half, half[:, perm]])
    elif mode == 'cyclic':
        base = Z[: max(8, n // d)]
        Z = np.vstack([np.roll(base, s_, axis=1) for s_ in range(d)])
    elif mode == 'small':
        Z = Z[: rng.randint(8, 14)]
    elif mode == 'discrete':
        Z = np.round(Z * rng.choice([1.0, 1.5, 3.0]))
    elif mode == 'neardup' and d >= 3:
        i, j = rng.sample(range(d), 2)
        Z[:, j] = Z[:, i] + 1e-3 * rs.randn(len(Z))
    elif mode == 'dup' and d >= 3:
        i, j = rng.sample(range(d), 2)
        Z[:, j] = Z[:, i]
    return pd.DataFrame(Z, columns=[f'c{i}' for i in range(d)])


def pick_d(rng, deep):
    if deep:
        return rng.choice([2, 3, 3, 4, 4, 5, 5, 6, 6, 7, 7])
    return rng.choice([2, 3, 3, 3, 4, 4, 4, 4, 5, 5, 5, 6, 7])


# ----------------------------------------------------------------------------- real code access
class FitTimeout(Exception):
    pass


@contextlib.contextmanager
def capture_tree_fits():
    """Wrap Tree.fit (harness process only) to snapshot its inputs before the tree edits them."""
    from copulas.multivariate import tree as T
    orig = T.Tree.fit
    log = []

    def fit(self, index, n_nodes, tau_matrix, previous_tree, edges=None):
        log.append({'tree': self, 'index': int(index), 'n_nodes': int(n_nodes),
                    'tau': np.array(tau_matrix, dtype=float, copy=True)})
        return orig(self, index, n_nodes, tau_matrix, previous_tree, edges)

    T.Tree.fit = fit
    try:
        yield log
    finally:
        T.Tree.fit = orig


@contextlib.contextmanager
def time_limit(seconds):
    def handler(signum, frame):
        raise FitTimeout()
    old = signal.signal(signal.SIGALRM, handler)
    signal.setitimer(signal.ITIMER_REAL, seconds)
    try:
        yield
    finally:
        signal.setitimer(signal.ITIMER_REAL, 0)
        signal.signal(signal.SIGALRM, old)


FORMS = ('keyword', 'positional', 'default', 'x-keyword')
FORM_W = (8, 7, 3, 2)
DEFAULT_TRUNCATED = 3       # `def fit(self, X, truncated=3)` (vine.py); what a call without the argument means
FORM_TEXT = {'keyword': 'fit(X, truncated=t)', 'positional': 'fit(X, t)', 'default': 'fit(X)',
             'x-keyword': 'fit(X=X, truncated=t)'}


def pick_call(rng, d):
    """(call form, truncation the CALLER asked for): t in 1..d+1, or the default when the argument is omitted."""
    form = rng.choices(FORMS, FORM_W)[0]
    return form, (DEFAULT_TRUNCATED if form == 'default' else rng.randint(1, d + 1))


def call_fit(v, X, t, form):
    if form == 'positional':
        return v.fit(X, t)
    if form == 'default':
        return v.fit(X)
    if form == 'x-keyword':
        return v.fit(X=X, truncated=t)
    return v.fit(X, truncated=t)


def real_fit(X, vt, t, history=(), form='keyword'):
    """Fit ONE VineCopula object on every (table, truncated) of `history` and then on (X, t); the Tree.fit
    snapshots are those of the LAST fit only.
    -> ('ok', vine, snapshots) | ('timeout', None, None) | ('exc', exception, None)"""
    from copulas.multivariate.vine import VineCopula
    if _TIMEOUTS.get(vt, 0) >= MAX_TIMEOUTS_PER_TYPE:
        return 'skipped', None, None
    limit = FIT_TIMEOUT_S if not _TIMEOUTS else FIT_TIMEOUT_AFTER_FIRST_S
    try:
        stage = 'history'
        with time_limit(limit * (1 + len(history)) * max(1, len(X) // 400)):   # long tables: ~1 s per 1000 rows
            v = VineCopula(vt)
            for Xh, th, fh in history:
                call_fit(v, Xh, th, fh)
            stage = 'last'
            with capture_tree_fits() as log:
                call_fit(v, X, t, form)
        return 'ok', v, log
    except FitTimeout:
        _TIMEOUTS[vt] = _TIMEOUTS.get(vt, 0) + 1
        return 'timeout', None, None
    except Exception as e:  # noqa
        return 'exc', e, stage


def _idx(lst, obj):
    for i, x in enumerate(lst):
        if x is obj:
            return i
    return 999


def extract(vine):
    """trees -> list of list of dict(L, R, D(sorted), parents(idx pair | None), fam, theta, tau, index)."""
    out = []
    prev = None
    for tr in vine.trees:
        es = []
        for e in tr.edges:
            par = None
            if e.parents is not None:
                par = tuple(_idx(prev.edges, p) for p in e.parents) if prev is not None else (999, 999)
            fam = e.name.value if hasattr(e.name, 'value') else int(e.name)
            es.append({'index': int(e.index), 'L': int(e.L), 'R': int(e.R), 'D': sorted(int(x) for x in e.D),
                       'parents': par, 'fam': int(fam), 'theta': float(np.ravel(e.theta)[0]),
                       'tau': float(np.ravel(e.tau)[0])})
        out.append(es)
        prev = tr
    return out


def struct_key(trees):
    return tuple(tuple((e['L'], e['R'], tuple(e['D']), e['parents']) for e in t) for t in trees)


# ----------------------------------------------------------------------------- protocol encoding
def enc_edge(e, with_parents=True):
    ws = [str(e['L']), str(e['R']), str(len(e['D']))] + [str(x) for x in e['D']]
    if with_parents:
        ws += ['_', '_'] if e['parents'] is None else [str(e['parents'][0]), str(e['parents'][1])]
    return ws


def enc_trees(trees):
    ws = [str(len(trees))]
    for t in trees:
        ws.append(str(len(t)))
        for e in t:
            ws += enc_edge(e)
    return ws


def enc_choice(tau, picks):
    n = tau.shape[0]
    return [str(n), str(len(picks))] + [str(p) for p in picks] + [vc.f2h(x) for x in tau.ravel()]


def parse_train(reply):
    """'ok m (ne (L R nD D* p1 p2 tau)*)*' -> list of trees of dicts, or ('err', text)"""
    ws = reply.split()
    if not ws or ws[0] != 'ok':
        return ('err', reply)
    pos = 1
    m = int(ws[pos]); pos += 1
    trees = []
    for _ in range(m):
        ne = int(ws[pos]); pos += 1
        es = []
        for _ in range(ne):
            L, R, nD = int(ws[pos]), int(ws[pos + 1]), int(ws[pos + 2]); pos += 3
            D = [int(x) for x in ws[pos:pos + nD]]; pos += nD
            p1, p2 = ws[pos], ws[pos + 1]; pos += 2
            par = None if p1 == '_' else (int(p1), int(p2))
            tau = vc.h2f(ws[pos]); pos += 1
            es.append({'L': L, 'R': R, 'D': D, 'parents': par, 'tau': tau})
        trees.append(es)
    return trees


def same_float(a, b):
    return (a != a and b != b) or vc.f2h(a) == vc.f2h(b)


# ----------------------------------------------------------------------------- observed tie-breaking
def picks_for(vt, k, tree, prev_len_nodes):
    """The tie-breaking visible in the fitted object for tree k (0-based) -> list of ints, or None."""
    n = prev_len_nodes
    if vt == 'center':
        if k == 0:
            return [e['R'] if e['L'] == 0 else e['L'] for e in tree]
        out = []
        for e in tree:
            i, j = e['parents']
            out.append(j if i == 0 else i)
        return out
    if vt == 'direct':
        if k > 0:
            return []
        if n == 2:
            e = tree[0]
            return [e['R'] if e['L'] == 0 else e['L'], 0]
        # node sequence T1 from the ordered edge list
        e0, e1 = tree[0], tree[1]
        s1 = {e1['L'], e1['R']}
        start = e0['L'] if e0['R'] in s1 else e0['R']
        seq = [start]
        for e in tree:
            a, b = e['L'], e['R']
            if a == seq[-1]:
                seq.append(b)
            elif b == seq[-1]:
                seq.append(a)
            else:
                return None
        if 0 not in seq:
            return None
        p = seq.index(0)
        if p == 0 or p == len(seq) - 1:
            return None
        return [seq[p - 1], seq[p + 1]]
    # regular: orient each step by the visited set
    vis = {0}
    out = []
    for e in tree:
        a, b = (e['L'], e['R']) if k == 0 else e['parents']
        if a in vis and b not in vis:
            x, y = a, b
        elif b in vis and a not in vis:
            x, y = b, a
        else:
            return None
        out += [x, y]
        vis.add(y)
    return out


def compare_trees(model, real):
    """first difference between the model's trees and the real ones (structure + edge.tau)."""
    if len(model) != len(real):
        return f'tree count model={len(model)} real={len(real)}'
    for k, (mt, rt) in enumerate(zip(model, real)):
        if len(mt) != len(rt):
            return f'tree {k}: edge count model={len(mt)} real={len(rt)}'
        for i, (me, re_) in enumerate(zip(mt, rt)):
            for f in ('L', 'R', 'D', 'parents'):
                mv = me[f]
                rv = re_[f]
                if (tuple(mv) if isinstance(mv, (list, tuple)) else mv) != \
                        (tuple(rv) if isinstance(rv, (list, tuple)) else rv):
                    return f'tree {k} edge {i} {f}: model={mv} real={rv}'
            if not same_float(me['tau'], re_['tau']):
                return f'tree {k} edge {i} tau: model={me["tau"]!r} real={re_["tau"]!r}'
            if re_['index'] != i:
                return f'tree {k} edge {i}: Edge.index={re_["index"]}'
    return None


def table_input(X, vt, t, history=(), form='keyword'):
    inp = dict(enc_frame(X), vine_type=vt, truncated=int(t), call_form=form, call=FORM_TEXT[form],
               labels=X.attrs.get('labels', 'columns:default rows:default'))
    if history:
        inp['fitted_before_on_the_same_object'] = [dict(enc_frame(Xh), truncated=int(th), call_form=fh)
                                                   for Xh, th, fh in history]
    return inp


def gen_history(rng, X, d):
    """A table the SAME object is fitted on first: same width with another dependence ordering (the columns of X
    permuted, or a fresh table), or a different width; with its own truncation."""
    kind = rng.choice(['permuted', 'fresh-same-width', 'narrower', 'wider'])
    if kind == 'permuted' and d >= 3:
        perm = list(range(d))
        while perm == list(range(d)):
            rng.shuffle(perm)
        A = pd.DataFrame(X.to_numpy()[:, perm])
    elif kind == 'narrower' and d >= 3:
        A = gen_table(rng, d - 1, rng.choice(['plain', 'discrete', 'small']))
    elif kind == 'wider' and d <= 6:
        A = gen_table(rng, d + 1, rng.choice(['plain', 'discrete', 'small']))
    else:
        kind = 'fresh-same-width'
        A = gen_table(rng, d, rng.choice(['plain', 'swap', 'ties']))
    fh, th = pick_call(rng, A.shape[1])
    return kind, [(relabel(rng, A), th, fh)]


def tau_matrix_diff(tau_first, tau_ref):
    """first disagreement (> 1e-12) between the matrix the first Tree.fit received and the independent tau-b."""
    if tau_first.shape != tau_ref.shape:
        return {'shape': tau_first.shape, 'expected': tau_ref.shape}
    with np.errstate(all='ignore'):
        bad = ~((np.abs(tau_first - tau_ref) <= 1e-12) | (np.isnan(tau_first) & np.isnan(tau_ref)))
    if bad.any():
        i, j = map(int, np.argwhere(bad)[0])
        return {'cell': (i, j), 'model_tau_matrix': float(tau_first[i, j]), 'kendall_tau_b': float(tau_ref[i, j])}
    return None


def refit_vs_fresh(vt, real, log, fresh, flog):
    """first structural difference between the state after the last fit of a re-used object and a fresh
    object's fit on the same table.  Trees of a regular vine from index 2 on are compared only while the tau
    matrices the two runs saw are bit-identical (uninitialised np.empty cells may steer them: C17/C19)."""
    if len(real) != len(fresh):
        return f'tree count refit={len(real)} fresh={len(fresh)}'
    for k, (a, b) in enumerate(zip(real, fresh)):
        if vt == 'regular' and k >= 2:
            ta, tb = log[k]['tau'], flog[k]['tau']
            if ta.shape != tb.shape or not np.array_equal(ta, tb, equal_nan=True):
                return None
        if len(a) != len(b):
            return f'tree {k}: edge count refit={len(a)} fresh={len(b)}'
        for i, (x, y) in enumerate(zip(a, b)):
            for f in ('L', 'R', 'D', 'parents', 'fam'):
                if x[f] != y[f]:
                    return f'tree {k} edge {i} {f}: refit={x[f]} fresh={y[f]}'
            if not (same_float(x['theta'], y['theta']) or abs(x['theta'] - y['theta']) <= 1e-9 * max(1, abs(y['theta']))):
                return f'tree {k} edge {i} theta: refit={x["theta"]!r} fresh={y["theta"]!r}'
    return None


# ----------------------------------------------------------------------------- the tie
def run(ctx, lean):
    unit_corr(ctx, lean)
    rng = ctx.rng('tables')
    n_tables = 80 * ctx.scale
    deep = ctx.tier == 'thorough'
    bad = {f'corr:train({vt})': None for vt in TYPES}
    bad.update({'corr:isRegularVine(real fitted vine)': None, 'corr:edge_theta_admissible': None,
                'corr:tree_count': None, 'corr:fit-terminates': None,
                'corr:tau_matrix = independent Kendall tau-b': None,
                'corr:second fit on the same object = fit on a fresh object': None,
                'tv:VineBuild(generated train_vine vs real fitted vine)': None})
    if lean is None:
        for k in bad:
            ctx.ob(k, False, 'tie', 'driver unavailable')
        return

    def note(name, detail):
        if bad[name] is None:
            bad[name] = detail

    near_eq = anti = None
    for it in range(n_tables):
        d = pick_d(rng, deep)
        mode = rng.choices(MODES, MODE_W)[0]
        if it < 8:                      # every run: exact-zero taus with column 0, d = 2..5
            d, mode = 2 + it % 4, 'zero'
        elif it < 14:                   # every run: tie densities for which tau-a and tau-b MSTs differ
            d, mode = 3 + it % 3, 'ties'
        elif it < 20:                   # every run: the six column orders of a table with two |tau| 1e-9..6e-8 apart
            d, mode = 3, 'neareq'
            near_eq = near_eq or near_equal_tables(rng, 3)
        elif it < 26:                   # every run: taus of exactly -1 / +1, six column orders, first tree only
            d, mode = 4, 'antitone'
            anti = anti or antitone_tables(rng, 4, 6)
        X = near_eq[it - 14] if 14 <= it < 20 else anti[it - 20] if 20 <= it < 26 else gen_table(rng, d, mode)
        # labels: every column scheme in turn on the first tables, then at random; values untouched
        X = relabel(rng, X, COL_SCHEMES[it % len(COL_SCHEMES)] if it < 27 else None,
                    ROW_SCHEMES[it % len(ROW_SCHEMES)] if it < 27 else None)
        ctx.count('labels ' + X.attrs['labels'].split()[0])
        ctx.count('labels ' + X.attrs['labels'].split()[1])
        tau0 = tau_b_matrix(X.to_numpy())       # independent reference (scipy.stats.kendalltau, tau-b)
        if any(tau0[0, j] == 0.0 for j in range(1, d)):
            ctx.count('table with tau(col 0, col j) == 0 exactly')
        if d >= 3 and mode in ('ties', 'discrete', 'zero', 'small') and tie_correction_matters(X.to_numpy()):
            ctx.count('table on which the tau-a MST is not a tau-b MST')
        off = sorted(abs(tau0[i, j]) for i in range(d) for j in range(i))
        tied = any(a == b for a, b in zip(off, off[1:]))
        for vt in TYPES:
            form, t = pick_call(rng, d)     # t = the truncation the caller's call means
            if mode == 'antitone':          # deeper trees cannot be estimated on exactly monotone columns
                form, t = rng.choice(['keyword', 'positional']), 1
            ctx.count(f'call: {FORM_TEXT[form]}')
            ctx.count(f'type={vt}')
            ctx.count(f'd={d}')
            ctx.count(f'mode={mode}')
            hist, hkind = (), None
            if it % 4 == 1 or rng.random() < 0.2:   # refit history: the same object was fitted on another table
                hkind, hist = gen_history(rng, X, d)
                ctx.count(f'history: second fit on the same object, first table {hkind}')
            st, v, log = real_fit(X, vt, t, hist, form)
            if st == 'skipped':
                ctx.count(f'skipped after {MAX_TIMEOUTS_PER_TYPE} non-terminating fits: {vt}')
                continue
            if st == 'timeout':
                ctx.case()
                note('corr:fit-terminates', {'mode': mode, 'type': vt, 'd': d, 't': t, 'history': hkind})
                ctx.fail_input('VineCopula.fit', table_input(X, vt, t, hist, form),
                               'no result within the time limit (a fit takes < 1 s)', 'fit terminates',
                               'VineCopula.fit:does-not-terminate' if not hist else 'VineCopula.refit:does-not-terminate')
                continue
            fresh = real_fit(X, vt, t) if hist else None
            if st == 'exc':
                ctx.case()
                ctx.count(f'refused:{type(v).__name__}:{str(v)[:40]}')
                if hist and log == 'last' and fresh[0] == 'ok':
                    note('corr:second fit on the same object = fit on a fresh object',
                         {'type': vt, 'd': d, 't': t, 'history': hkind, 'refit_raises': f'{type(v).__name__}: {str(v)[:100]}'})
                continue
            real = extract(v)
            if hist and fresh[0] == 'ok':
                df = refit_vs_fresh(vt, real, log, extract(fresh[1]), fresh[2])
                if df:
                    note('corr:second fit on the same object = fit on a fresh object',
                         {'type': vt, 'd': d, 't': t, 'history': hkind, 'first_difference': df})
            if log:
                df = tau_matrix_diff(log[0]['tau'], tau0)
                if df:
                    note('corr:tau_matrix = independent Kendall tau-b', dict(df, type=vt, d=d, mode=mode))
            ctx.case((vt, d, t, struct_key(real), tau0.tobytes(), hkind), nontrivial=d >= 3)
            ctx.count(f't={"<d-1" if t < d - 1 else "=d-1" if t == d - 1 else ">d-1"}')
            if tied:
                ctx.count('first-tree |tau| ties')
            want = max(1, min(d - 1, t))
            if len(real) != want or len(log) != len(real):
                note('corr:tree_count', {'type': vt, 'd': d, 't': t, 'call': FORM_TEXT[form], 'trees': len(real),
                                         'expected': want})
            # (i)+(ii) replay (of the trees the last fit built; a count mismatch was noted above)
            m = min(len(real), len(log))
            reqs = []
            n_nodes = d
            cut = None
            for k in range(m):
                tau = log[k]['tau']
                if log[k]['n_nodes'] != n_nodes or tau.shape != (n_nodes, n_nodes):
                    note(f'corr:train({vt})', {'d': d, 't': t, 'tree': k, 'n_nodes': log[k]['n_nodes'],
                                               'tau_shape': tau.shape, 'expected': n_nodes})
                if vt == 'regular' and k > 0 and np.isnan(tau[~np.eye(n_nodes, dtype=bool)]).any():
                    cut = k
                    ctx.count('regular: replay cut at a tree with NaN in uninitialised cells')
                    break
                if k > 0:
                    written = sum(1 for i_, e in enumerate(v.trees[k - 1].edges) for _ in e.neighbors)
                    if written < n_nodes * (n_nodes - 1):
                        ctx.count(f'{vt}: k-th tree tau has uninitialised cells')
                try:
                    picks = picks_for(vt, k, real[k], n_nodes)
                except Exception:   # malformed tree (wrong node count / parents): reported below
                    picks = None
                if picks is not None:
                    try:
                        tie_stats(ctx, vt, k, tau, picks, n_nodes, v.trees[k - 1].edges if k > 0 else None)
                    except Exception:  # statistics only; malformed trees are reported by the obligations below
                        ctx.count('tie statistics not computable (malformed tree)')
                if picks is None:
                    note(f'corr:train({vt})', {'d': d, 't': t, 'tree': k,
                                               'problem': 'construction order not recognisable',
                                               'edges': [(e['L'], e['R'], e['parents']) for e in real[k]]})
                    picks = []
                reqs += enc_choice(tau, picks)
                n_nodes -= 1
            mm = m if cut is None else cut
            tt = t if cut is None else mm
            reply = lean.ask(' '.join(['vine train', vt, str(d), str(tt), str(mm)] + reqs))
            model = parse_train(reply)
            if isinstance(model, tuple):
                note(f'corr:train({vt})', {'mode': mode, 'd': d, 't': t, 'model': reply[:200],
                                           'real': [[(e['L'], e['R'], e['D'], e['parents']) for e in t_] for t_ in real]})
            else:
                diff = compare_trees(model, real[:mm] if len(real) == len(log) else real)
                if diff:
                    note(f'corr:train({vt})', {'mode': mode, 'd': d, 't': t, 'diff': diff})
            # translation validation: the same request answered from the GENERATED construction (Gen/VineBuild.lean)
            greply = lean.ask(' '.join(['vine gtrain', vt, str(d), str(tt), str(mm)] + reqs))
            gmodel = parse_train(greply)
            if isinstance(gmodel, tuple):
                note('tv:VineBuild(generated train_vine vs real fitted vine)',
                     {'type': vt, 'mode': mode, 'd': d, 't': t, 'generated': greply[:200], 'model': reply[:200]})
            else:
                diff = compare_trees(gmodel, real[:mm] if len(real) == len(log) else real)
                if diff:
                    note('tv:VineBuild(generated train_vine vs real fitted vine)',
                         {'type': vt, 'mode': mode, 'd': d, 't': t, 'diff': diff})
            # (iii) checker on the real structure
            r = lean.ask(' '.join(['vine check', vt, str(d), str(t)] + enc_trees(real)))
            if not r.endswith('all=1'):
                note('corr:isRegularVine(real fitted vine)',
                     {'mode': mode, 'type': vt, 'd': d, 't': t, 'reply': r,
                      'trees': [[(e['L'], e['R'], e['D'], e['parents']) for e in t_] for t_ in real]})
            for k, t_ in enumerate(real):
                for e in t_:
                    ctx.count(f'family={e["fam"]}')
                    rt = real_theta_ok(e['fam'], e['theta'])
                    lt = lean.ask(f'vine theta {e["fam"]} {vc.f2h(e["theta"])}')
                    if not (rt and lt == 'ok 1'):
                        note('corr:edge_theta_admissible', {'type': vt, 'd': d, 'tree': k, 'family': e['fam'],
                                                             'theta': e['theta'], 'real_check_theta': rt, 'model': lt})
            if vt == 'direct' and d >= 4:
                ctx.count('direct greedy loop iterations', d - 3)
            ctx.sample({'type': vt, 'd': d, 't': t, 'mode': mode,
                        'trees': [[f'{e["L"]},{e["R"]}|{"".join(map(str, e["D"]))}' for e in t_] for t_ in real]})
    for k, b in bad.items():
        ctx.ob(k, b is None, 'tie', b or 'ok')


def tie_stats(ctx, vt, k, tau, picks, n, prev_edges):
    """How often the under-specified decisions were real decisions (equal keys), and which branch of the
    direct greedy loop ran.  Statistics only."""
    with np.errstate(all='ignore'):
        if vt == 'center' or (vt == 'direct' and k == 0):
            keys = np.abs(tau[:, 0]).copy()
            keys[0] = np.nan
            keys[np.isnan(keys)] = -10
            chosen = [keys[p] for p in picks]
            others = [keys[i] for i in range(n) if i not in picks]
            tied = len(set(chosen)) < len(chosen) or any(o == chosen[-1] for o in others)
            ctx.count(f'{vt}: sort order {"with" if tied else "without"} tied keys')
        if vt == 'direct' and k == 0 and n >= 4:
            m = tau.copy()
            T1 = [picks[0], 0, picks[1]]
            m[:, T1] = -10
            for _ in range(2, n - 1):
                vl, vr = np.max(m[T1[0], :]), np.max(m[T1[-1], :])
                ctx.count('direct greedy: ' + ('valL > valR' if vl > vr else 'valL == valR' if vl == vr else 'valL < valR'))
                if vl > vr:
                    c = int(np.argmax(m[T1[0], :]))
                    T1 = [c] + T1
                else:
                    c = int(np.argmax(m[T1[-1], :]))
                    T1 = T1 + [c]
                m[:, c] = -10
        if vt == 'regular':
            vis = {0}
            for x, y in zip(picks[0::2], picks[1::2]):
                cands = [(a, b) for a in vis for b in range(n) if b not in vis and b != a]
                if prev_edges is not None:
                    def full(a, b):
                        ea, eb = prev_edges[a], prev_edges[b]
                        return len({ea.L, ea.R, eb.L, eb.R} | set(ea.D) | set(eb.D))
                    cands = [(a, b) for a, b in cands if full(a, b) == k + 2]
                same = sum(1 for a, b in cands if abs(tau[a, b]) == abs(tau[x, y]))
                ctx.count(f'regular: step with {"tied" if same > 1 else "unique"} minimal key')
                if prev_edges is not None and len(cands) < len([1 for a in vis for b in range(n) if b not in vis]):
                    ctx.count('regular: _check_constraint excluded a pair')
                vis.add(y)


def real_theta_ok(fam, theta):
    from copulas.bivariate.base import Bivariate, CopulaTypes
    try:
        c = Bivariate(copula_type=CopulaTypes(fam))
        c.theta = theta
        c.check_theta()
        return True
    except Exception:  # noqa
        return False


# ----------------------------------------------------------------------------- unit correspondences
def _mk_edge(L, R, D, idx=0):
    from copulas.multivariate.tree import Edge
    e = Edge(idx, L, R, 'x', 1.0)
    e.D = set(D)
    return e


def _rand_pair(rng):
    """(L, R, D) x 2: vine-shaped adjacent, vine-shaped non-adjacent, or arbitrary."""
    kind = rng.random()
    pool = list(range(8))
    rng.shuffle(pool)
    if kind < 0.45:      # share all but one variable each (what get_child_edge sees in a vine)
        k = rng.randint(0, 4)
        C, x, y = pool[:k + 1], pool[k + 1], pool[k + 2]
        A, B = C + [x], C + [y]
    elif kind < 0.7:     # same size, overlap too small / identical sets
        k = rng.randint(1, 3)
        A = pool[:k + 1]
        B = rng.choice([pool[k + 1: 2 * k + 2], pool[:k + 1], pool[1:k + 2], pool[2:k + 3]])
        if len(B) < 2:
            B = pool[-2:]
    else:
        A = rng.sample(range(8), rng.randint(2, 5))
        B = rng.sample(range(8), rng.randint(2, 5))
    out = []
    for S in (A, B):
        S = list(S)
        rng.shuffle(S)
        L, R = sorted(S[:2]) if rng.random() < 0.85 else S[:2]
        out.append((L, R, sorted(S[2:])))
    if rng.random() < 0.05:
        out[0] = (out[0][0], out[0][0], out[0][2])      # degenerate L == R
    return out


def unit_corr(ctx, lean):
    from copulas.multivariate.tree import CenterTree, Edge
    names = ['corr:_identify_eds_ing', 'corr:_check_constraint', 'corr:is_adjacent', 'corr:sort_edge',
             'corr:_get_constraints', 'tv:VineBuild(generated edge functions vs real)']
    if lean is None:
        for nme in names:
            ctx.ob(nme, False, 'tie', 'driver unavailable')
        return
    rng = ctx.rng('unit')
    bad = dict.fromkeys(names)
    for _ in range(250 * ctx.scale):
        (L1, R1, D1), (L2, R2, D2) = _rand_pair(rng)
        e, f = _mk_edge(L1, R1, D1), _mk_edge(L2, R2, D2)
        enc = ' '.join(enc_edge({'L': L1, 'R': R1, 'D': D1}, False) + enc_edge({'L': L2, 'R': R2, 'D': D2}, False))
        ctx.case(('unit', L1, R1, tuple(D1), L2, R2, tuple(D2)))
        # identify
        try:
            l, r, D = Edge._identify_eds_ing(e, f)
            real = 'ok ' + ' '.join(enc_edge({'L': int(l), 'R': int(r), 'D': sorted(D), 'parents': None}))
            ctx.count('identify: ok')
        except ValueError:
            real = 'err ValueError'
            ctx.count('identify: ValueError')
        got = lean.ask('vine ident ' + enc)
        if got != real and bad[names[0]] is None:
            bad[names[0]] = {'first': (L1, R1, D1), 'second': (L2, R2, D2), 'real': real, 'model': got}
        got = lean.ask('vine gident ' + enc)
        if got != real and bad[names[5]] is None:
            bad[names[5]] = {'fn': '_identify_eds_ing', 'first': (L1, R1, D1), 'second': (L2, R2, D2), 'real': real,
                             'generated': got}
        # check_constraint
        lv = rng.randint(1, 6)
        tr = CenterTree()
        tr.level = lv
        real = 'ok ' + ('1' if tr._check_constraint(e, f) else '0')
        ctx.count(f'check_constraint: {real[3:]}')
        got = lean.ask(f'vine cc {lv} ' + enc)
        if got != real and bad[names[1]] is None:
            bad[names[1]] = {'level': lv, 'e1': (L1, R1, D1), 'e2': (L2, R2, D2), 'real': real, 'model': got}
        got = lean.ask(f'vine gcc {lv} ' + enc)
        if got != real and bad[names[5]] is None:
            bad[names[5]] = {'fn': '_check_constraint', 'level': lv, 'e1': (L1, R1, D1), 'e2': (L2, R2, D2),
                             'real': real, 'generated': got}
        real = 'ok ' + ('1' if e.is_adjacent(f) else '0')
        got = lean.ask('vine adj ' + enc)
        if got != real and bad[names[2]] is None:
            bad[names[2]] = {'e1': (L1, R1, D1), 'e2': (L2, R2, D2), 'real': real, 'model': got}
        got = lean.ask('vine gadj ' + enc)
        if got != real and bad[names[5]] is None:
            bad[names[5]] = {'fn': 'is_adjacent', 'e1': (L1, R1, D1), 'e2': (L2, R2, D2), 'real': real,
                             'generated': got}
        s = Edge.sort_edge([e, f])
        real = 'ok 0 1' if s[0] is e else 'ok 1 0'
        got = lean.ask('vine sortedge ' + enc)
        if got != real and bad[names[3]] is None:
            bad[names[3]] = {'e1': (L1, R1, D1), 'e2': (L2, R2, D2), 'real': real, 'model': got}
        got = lean.ask('vine gsortedge ' + enc)
        if got != real and bad[names[5]] is None:
            bad[names[5]] = {'fn': 'sort_edge', 'e1': (L1, R1, D1), 'e2': (L2, R2, D2), 'real': real,
                             'generated': got}
    for _ in range(20 * ctx.scale):
        ne = rng.randint(1, 6)
        es = []
        for i in range(ne):
            (L, R, D), _ = _rand_pair(rng)
            es.append({'L': L, 'R': R, 'D': D, 'parents': None})
        tr = CenterTree()
        tr.edges = [_mk_edge(x['L'], x['R'], x['D'], i) for i, x in enumerate(es)]
        tr._get_constraints()
        real = 'ok ' + ' | '.join(' '.join(str(j) for j in e.neighbors) for e in tr.edges)
        got = lean.ask('vine neighbors ' + ' '.join(enc_trees([es])[1:]))
        ctx.case(('nbr', tuple((x['L'], x['R']) for x in es)))
        if got.split() != real.split() and bad[names[4]] is None:
            bad[names[4]] = {'edges': [(x['L'], x['R']) for x in es], 'real': real, 'model': got}
    for nme in names:
        ctx.ob(nme, bad[nme] is None, 'tie', bad[nme] or 'ok')


# ----------------------------------------------------------------------------- oracle on the real object
def oracle(vine, vt, d, t, tau_ref, tau_first=None):
    """The statement of C16 evaluated on a real fitted VineCopula.  `tau_ref` is the Kendall tau-b matrix
    computed independently from the data (scipy.stats.kendalltau); `tau_first` the matrix the first Tree.fit
    of the last fit received.  -> list of (what, detail)."""
    from copulas.bivariate.base import Bivariate
    out = []
    trees = vine.trees
    tau_abs = np.abs(tau_ref)
    if tau_first is not None:
        df = tau_matrix_diff(tau_first, tau_ref)
        if df:
            out.append(('tau-matrix-not-kendall-tau-b', df))

    want = min(d - 1, t)
    if not (len(trees) == want and want >= 1):
        out.append(('tree-count', {'trees': len(trees), 'expected': want}))
    seen_pairs = {}
    prev = None
    for k, tr in enumerate(trees, start=1):
        edges = tr.edges
        n_nodes = d - k + 1
        if len(edges) != d - k:
            out.append(('edge-count', {'tree': k, 'edges': len(edges), 'expected': d - k}))
        ends = []
        for e in edges:
            D = set(int(x) for x in e.D)
            L, R = int(e.L), int(e.R)
            if L == R or L in D or R in D or not (0 <= L < d and 0 <= R < d):
                out.append(('conditioned-pair', {'tree': k, 'edge': (L, R, sorted(D))}))
            if len(D) != k - 1:
                out.append(('conditioning-size', {'tree': k, 'edge': (L, R, sorted(D))}))
            if k == 1:
                if e.parents is not None:
                    out.append(('first-tree-parents', {'edge': (L, R)}))
                ends.append((L, R))
            else:
                ps = e.parents or []
                idx = [_idx(prev.edges, p) for p in ps]
                if len(idx) != 2 or 999 in idx or idx[0] == idx[1]:
                    out.append(('parents-not-edges-of-previous-tree', {'tree': k, 'edge': (L, R, sorted(D))}))
                    ends.append((None, None))
                    continue
                p, q = ps
                A = {int(p.L), int(p.R)} | set(int(x) for x in p.D)
                B = {int(q.L), int(q.R)} | set(int(x) for x in q.D)
                if k == 2:
                    share = bool({int(p.L), int(p.R)} & {int(q.L), int(q.R)})
                else:
                    share = any(a is b for a in p.parents for b in q.parents)
                if not share:
                    out.append(('proximity', {'tree': k, 'edge': (L, R, sorted(D)), 'parents': idx}))
                if D != (A & B):
                    out.append(('conditioning-set', {'tree': k, 'edge': (L, R, sorted(D)), 'A&B': sorted(A & B)}))
                if {L, R} != (A ^ B):
                    out.append(('conditioned-set', {'tree': k, 'edge': (L, R, sorted(D)), 'A^B': sorted(A ^ B)}))
                ends.append(tuple(idx))
            key = (min(L, R), max(L, R))
            if key in seen_pairs:
                out.append(('pair-conditioned-twice', {'pair': key, 'trees': (seen_pairs[key], k)}))
            seen_pairs[key] = k
            try:
                c = Bivariate(copula_type=e.name)
                c.theta = e.theta
                c.check_theta()
            except Exception as ex:  # noqa
                out.append(('theta-inadmissible', {'tree': k, 'edge': (L, R, sorted(D)), 'family': str(e.name),
                                                   'theta': repr(e.theta), 'error': str(ex)[:80]}))
        if any(a is None for a, _ in ends):
            prev = tr
            continue
        # spanning tree on n_nodes nodes: n_nodes - 1 edges, connected (union-find)
        par = list(range(n_nodes))

        def find(x):
            while par[x] != x:
                par[x] = par[par[x]]
                x = par[x]
            return x
        okr = all(0 <= a < n_nodes and 0 <= b < n_nodes for a, b in ends)
        comps = n_nodes
        if okr:
            for a, b in ends:
                ra, rb = find(a), find(b)
                if ra != rb:
                    par[ra] = rb
                    comps -= 1
        if not okr or comps != 1 or len(ends) != n_nodes - 1:
            out.append(('spanning', {'tree': k, 'ends': ends, 'nodes': n_nodes}))
        deg = {}
        for a, b in ends:
            deg[a] = deg.get(a, 0) + 1
            deg[b] = deg.get(b, 0) + 1
        if vt == 'center' and ends and max(deg.values()) != len(ends):
            out.append(('center-not-star', {'tree': k, 'ends': ends}))
        if vt == 'direct' and ends and max(deg.values()) > 2:
            out.append(('direct-not-path', {'tree': k, 'ends': ends}))
        if vt == 'regular' and k == 1 and okr and comps == 1:
            w = sorted(tau_abs[a, b] for a, b in ends)
            best = sorted(kruskal_max(tau_abs))
            # all maximum spanning trees have the same sorted weights; 1e-10 absorbs the last-ulp asymmetry of
            # scipy's kendalltau(x, y) vs kendalltau(y, x) between the reference and the model's own matrix
            if len(w) != len(best) or any(abs(a - b) > 1e-10 for a, b in zip(w, best)):
                out.append(('first-tree-not-maximum-spanning', {'weights': w, 'kruskal': best}))
        prev = tr
    return out


def kruskal_max(w):
    d = w.shape[0]
    es = sorted(((w[i, j], i, j) for i in range(d) for j in range(i)), reverse=True)
    par = list(range(d))

    def find(x):
        while par[x] != x:
            par[x] = par[par[x]]
            x = par[x]
        return x
    out = []
    for wt, i, j in es:
        a, b = find(i), find(j)
        if a != b:
            par[a] = b
            out.append(wt)
    return out


STRUCTURE_FILES = ('/copulas/multivariate/tree.py', '/copulas/multivariate/vine.py')


def raised_in_structure_code(exc):
    """'tree.py:<function>' when the innermost frame of the traceback that lies inside the copulas package is in
    the vine/tree construction code (not in a pair copula's fit, which is where degenerate data is refused)."""
    import traceback
    frames = [f for f in traceback.extract_tb(exc.__traceback__) if '/copulas/' in f.filename.replace(os.sep, '/')]
    if not frames:
        return None
    f = frames[-1]
    fn = f.filename.replace(os.sep, '/')
    if any(fn.endswith(s) for s in STRUCTURE_FILES):
        return f'{fn.rsplit("/", 1)[-1]}:{f.name}'
    return None


def chain_table(rng, d, n=None):
    """d columns of a noisy random walk across the columns in a shuffled order: the first regular tree is a path
    (or nearly), so deeper trees hold pairs of edges that share one conditioned variable but not their conditioning
    sets - the case the proximity condition exists for (needs d >= 5 and full depth to matter)."""
    n = n or rng.choice([40, 60, 90])
    rs = np.random.RandomState(rng.getrandbits(32))
    Z = np.empty((n, d))
    Z[:, 0] = rs.randn(n)
    for j in range(1, d):
        Z[:, j] = Z[:, j - 1] * rng.uniform(0.5, 0.9) + rs.randn(n) * rng.uniform(0.4, 0.9)
    perm = list(range(d))
    rng.shuffle(perm)
    return pd.DataFrame(Z[:, perm], columns=[f'c{i}' for i in range(d)])


def check_real(ctx, X, vt, t, counts, history=(), form='keyword'):
    """Oracle on the state after the LAST fit of one object (fitted on `history` first, if any); `t` is the
    truncation the caller's call means (the default when the argument is omitted), `form` how it was passed."""
    d = X.shape[1]
    tau_ref = tau_b_matrix(X.to_numpy())
    st, v, log = real_fit(X, vt, t, history, form)
    if st == 'skipped':
        return False
    counts['fits'] += 1
    ep = 'VineCopula.fit' if not history else 'VineCopula.fit (second fit on the same object)'
    pre = f'VineCopula.fit[{vt}]' if not history else f'VineCopula.refit[{vt}]'
    inp = table_input(X, vt, t, history, form)
    if st == 'timeout':
        counts['failures'] += 1
        ctx.fail_input(ep, inp, 'no result within the time limit (a fit takes < 1 s)',
                       'fit terminates', 'VineCopula.fit:does-not-terminate' if not history
                       else 'VineCopula.refit:does-not-terminate')
        return True
    fresh = None
    if history:
        fst, fv, flog = real_fit(X, vt, t)
        fresh = (fst, fv, flog)
    if st == 'exc':
        counts['refused'] += 1
        where = raised_in_structure_code(v)
        if where and (not history or log == 'last'):
            # the fit did not refuse the data (every refusal of the unchanged code is raised by a pair copula's
            # fit in bivariate/): the tree construction itself broke down, so no vine of the requested depth exists
            counts['failures'] += 1
            ctx.fail_input(ep, inp, {'raises': f'{type(v).__name__}: {str(v)[:120]}', 'raised_in': where},
                           'fit builds min(d-1, t) valid trees: the construction of tree k from a valid tree k-1 '
                           'always finds d-k proximate pairs and identifies their conditioned/conditioning sets',
                           f'{pre}:tree-construction-raises')
            return True
        if history and log == 'last' and fresh[0] == 'ok':
            counts['failures'] += 1
            ctx.fail_input(ep, inp, f'{type(v).__name__}: {str(v)[:120]}',
                           'a second fit on the same object behaves like a fit on a fresh object',
                           f'{pre}:raises-where-fresh-fit-succeeds')
            return True
        return False
    probs = oracle(v, vt, d, t, tau_ref, log[0]['tau'] if log else None)
    got, dflt = len(v.trees), max(1, min(d - 1, DEFAULT_TRUNCATED))
    if not history and form != 'default' and got != max(1, min(d - 1, t)) and got == dflt:
        # the depth is that of the default truncation, not of the one passed
        ctx.fail_input(ep, inp, {'trees': got, 'expected': max(1, min(d - 1, t)), 'depth_of_default_truncation': dflt},
                       'the vine has max(1, min(d-1, t)) trees for the truncation t the caller passed',
                       'VineCopula.fit:truncation-argument-ignored')
    if history and fresh[0] == 'ok':
        df = refit_vs_fresh(vt, extract(v), log, extract(fresh[1]), fresh[2])
        if df:
            probs.append(('differs-from-fresh-fit', {'first_difference': df}))
    counts['checked'] += 1
    seen = set()
    for what, detail in probs:
        if what in seen:
            continue
        seen.add(what)
        counts['failures'] += 1
        ctx.fail_input(ep, inp, detail,
                       'a regular vine of the requested type and depth for the table of the last fit (C16)',
                       f'{pre}:{what}')
    return bool(probs)


# ----------------------------------------------------------------------------- long tables
def mst_deficit(full, other):
    """how much |tau| weight (under `full`) the maximum spanning tree of `other` loses against that of `full`."""
    return sum(full[i, j] for i, j in kruskal_edges(full)) - sum(full[i, j] for i, j in kruskal_edges(other))


def long_alternating_table(rng, n):
    """4 columns, rows alternating between two sub-populations: even rows - columns (0,1) strongly dependent,
    (2,3) independent; odd rows - (2,3) (or (0,3)) strongly dependent, (0,1) independent; (1,2) moderately dependent
    throughout.  Re-drawn until the |Kendall tau| graph of every 2nd and every 4th row has a maximum spanning tree
    that is NOT one of the full table (deficit > 0.02): any row thinning changes the first regular tree."""
    for _ in range(30):
        rs = np.random.RandomState(rng.getrandbits(32))
        other = rng.choice([(2, 3), (0, 3)])
        Z = rs.randn(n, 4)
        even = np.arange(n) % 2 == 0
        s1, s2, m = rng.uniform(1.5, 3.0), rng.uniform(1.5, 3.0), rng.uniform(0.5, 0.9)
        Z[:, 2] += m * Z[:, 1]
        Z[even, 1] += s1 * Z[even, 0]
        a, b = other
        Z[~even, b] += s2 * Z[~even, a]
        full = np.abs(tau_b_matrix(Z))
        if all(mst_deficit(full, np.abs(tau_b_matrix(Z[::k]))) > 0.02 for k in (2, 4)):
            return pd.DataFrame(Z, columns=[f'c{i}' for i in range(4)])
    raise RuntimeError('long alternating table: construction failed')


# ----------------------------------------------------------------------------- refused fits
def refusal_tables(rng, deep):
    """Tables on which the unchanged fit raises ValueError part-way through the tree build: exactly monotone-related
    columns (tau = +-1), an exactly duplicated column, a constant column."""
    for d in ((3, 4, 5) if not deep else (3, 4, 5, 6, 7)):
        rs = np.random.RandomState(rng.getrandbits(32))
        n = rng.choice([40, 50, 80])
        z = rs.randn(n)
        fs = [z, np.exp(z), -np.exp(z), z ** 3, 2 * z + 1, -z, np.arctan(z)]
        order = list(rs.permutation(len(fs)))
        yield 'monotone', np.column_stack([fs[i] for i in order[:d]])
        yield 'monotone+noise', np.column_stack([fs[i] for i in order[:d - 1]] + [rs.randn(n)])[:, rs.permutation(d)]
        Z = rs.randn(n, d) @ rs.randn(d, d)
        i, j = rng.sample(range(d), 2)
        Z[:, j] = Z[:, i]
        yield 'duplicate', Z
        Z = rs.randn(n, d) @ rs.randn(d, d)
        Z[:, rng.randrange(d)] = 3.0
        yield 'constant', Z


def check_refused(ctx, X, vt, t, form, counts, prior=None, kind=''):
    """A fit that is REFUSED.  On a never-fitted instance the model must not claim to be fitted afterwards
    (fitted false, check_fit raises NotFittedError, to_dict()['fitted'] false); and whenever `fitted` is true the
    structural oracle must hold for the requested type and depth.  On a previously fitted instance the unchanged
    code keeps fitted=True next to partially rebuilt trees - counted, not flagged (reported to the coordinator)."""
    from copulas.errors import NotFittedError
    from copulas.multivariate.vine import VineCopula
    d = X.shape[1]
    key = lambda k: counts.__setitem__(k, counts.get(k, 0) + 1)  # noqa: E731
    exc = None
    try:
        with time_limit(FIT_TIMEOUT_S * 2):
            v = VineCopula(vt)
            if prior is not None:
                v.fit(prior[0], truncated=prior[1])
            with capture_tree_fits() as log:
                try:
                    call_fit(v, X, t, form)
                except FitTimeout:
                    raise
                except Exception as e:  # noqa
                    exc = e
    except FitTimeout:
        key('refused-fit scenario timed out')
        return False
    except Exception:  # the PRIOR fit failed: not a scenario
        return False
    if exc is None:
        key(f'refusal table not refused ({kind})')
        return False
    key('refused during the tree build' if log else 'refused before the tree build')
    state = {'exception': f'{type(exc).__name__}: {str(exc)[:60]}', 'fitted': bool(v.fitted),
             'trees': len(getattr(v, 'trees', []) or []), 'expected_trees_if_fitted': max(1, min(d - 1, t))}
    try:
        v.check_fit()
        state['check_fit'] = 'passes'
    except NotFittedError:
        state['check_fit'] = 'NotFittedError'
    except Exception as e:  # noqa
        state['check_fit'] = type(e).__name__
    try:
        state['to_dict_fitted'] = bool(v.to_dict().get('fitted'))
    except Exception as e:  # noqa
        state['to_dict_fitted'] = type(e).__name__
    claims = state['fitted'] or state['check_fit'] == 'passes' or state['to_dict_fitted'] is True
    if prior is not None:
        if claims and state['trees'] != state['expected_trees_if_fitted']:
            key('previously fitted instance after a refused refit: fitted=True with a partial vine (not flagged)')
        return False
    if not claims:
        key('fresh instance after a refused fit: not fitted (ok)')
        return False
    inp = dict(table_input(X, vt, t, (), form), scenario='refused-fit on a never-fitted instance', table_kind=kind)
    counts['failures'] += 1
    ctx.fail_input('VineCopula.fit (refused)', inp, state,
                   'after a fit that raised, a never-fitted model does not claim to be fitted; whenever fitted is '
                   'true the vine is a regular vine of the requested type and depth',
                   'VineCopula.fit:fitted-true-after-refused-fit')
    if state['fitted']:
        try:
            probs = oracle(v, vt, d, t, tau_b_matrix(X.to_numpy()))
        except Exception as e:  # noqa
            probs = [('structure-unreadable', {'error': f'{type(e).__name__}: {str(e)[:80]}'})]
        seen = set()
        for what, detail in probs:
            if what not in seen:
                seen.add(what)
                ctx.fail_input('VineCopula.fit (refused)', inp, detail,
                               'whenever fitted is true: a regular vine of the requested type and depth (C16)',
                               f'VineCopula.fit[{vt}]:fitted-after-refused-fit:{what}')
    return True


def search(ctx, deep):
    rng = ctx.rng('search')
    counts = {'fits': 0, 'checked': 0, 'refused': 0, 'failures': 0}
    n_tables = 150 if deep else 12
    for it in range(n_tables):
        d = pick_d(rng, deep)
        mode = rng.choices(MODES, MODE_W)[0]
        if it < (16 if deep else 4):    # exact-zero taus with column 0 first, d = 2..5
            d, mode = 2 + it % 4, 'zero'
        nz = 16 if deep else 4
        if nz <= it < nz + (12 if deep else 3):     # then heavily tied tables on which tau-a and tau-b MSTs differ
            d, mode = 3 + it % 3, 'ties'
        X = relabel(rng, gen_table(rng, d, mode), COL_SCHEMES[(it + 2) % len(COL_SCHEMES)],
                    ROW_SCHEMES[(it + 1) % len(ROW_SCHEMES)])
        for vt in TYPES:
            for t in ([1] if mode == 'antitone' else [rng.randint(1, d + 1)] if not deep
                      else sorted({1, rng.randint(1, d), d - 1 if d > 2 else 1, d + 1})):
                check_real(ctx, X, vt, t, counts, form=rng.choices(FORMS[:2] + FORMS[3:], (4, 4, 1))[0])
            if it % 3 == 0 or deep:                 # the same object fitted on another table first
                kind, hist = gen_history(rng, X, d)
                counts['refits'] = counts.get('refits', 0) + 1
                fr, tr = pick_call(rng, d)
                check_real(ctx, X, vt, tr, counts, hist, fr)
    # chain-like dependence on 5..7 columns at full depth (regular vines: proximity between edges whose conditioning
    # sets differ only arises from tree 3 of such tables on)
    for it in range(30 if deep else 8):
        d = 5 + it % 3
        X = relabel(rng, chain_table(rng, d))
        counts['chain-table fits'] = counts.get('chain-table fits', 0) + 1
        check_real(ctx, X, 'regular', d + (it % 2), counts, form=rng.choice(['keyword', 'positional']))
        if it % 4 == 0:
            for vt in ('center', 'direct'):
                check_real(ctx, X, vt, d, counts)
    # every truncation 1..d+1 on small tables, passed positionally / by keyword / with X by keyword / omitted
    for d in ((2, 3, 4) if not deep else (2, 3, 4, 5, 6)):
        X = relabel(rng, gen_table(rng, d, rng.choice(['plain', 'discrete', 'swap'])))
        for vt in TYPES:
            for t in range(1, d + 2):
                for form in (('positional', 'keyword') if not deep else ('positional', 'keyword', 'x-keyword')):
                    counts['call-form fits'] = counts.get('call-form fits', 0) + 1
                    check_real(ctx, X, vt, t, counts, form=form)
            check_real(ctx, X, vt, DEFAULT_TRUNCATED, counts, form='default')
    # Kendall taus of exactly -1 / +1 (sentinels of the direct tree must stay below every real tau): every order
    for dd, k in (((4, None),) if not deep else ((4, None), (5, 40), (3, None))):
        for X in antitone_tables(rng, dd, k):
            X = relabel(rng, X)
            for vt in (('direct',) if not deep else TYPES):
                counts['tau=-1 fits'] = counts.get('tau=-1 fits', 0) + 1
                check_real(ctx, X, vt, 1, counts, form=rng.choice(['keyword', 'positional']))
    # long tables (>= 2000 rows), two alternating sub-populations: the first regular tree is a maximum spanning tree
    # of |Kendall tau-b| of the FULL table, and the matrix the first Tree.fit received is the full-table tau
    for n in (1999, 2000, 2001, 2400, 4000):
        X = long_alternating_table(rng, n)
        for vt in (('regular',) if not deep else TYPES):
            counts['long-table fits'] = counts.get('long-table fits', 0) + 1
            check_real(ctx, relabel(rng, X, 'default' if n != 2400 else None, 'default' if n != 2001 else None),
                       vt, 1, counts, form=rng.choice(['keyword', 'positional']))
    rs_ = np.random.RandomState(rng.getrandbits(32))
    counts['long-table fits'] = counts.get('long-table fits', 0) + 1
    check_real(ctx, pd.DataFrame(rs_.randn(2000, 4) @ rs_.randn(4, 4), columns=[f'c{i}' for i in range(4)]),
               'regular', 1, counts)
    # refused fits: on a never-fitted instance and on a previously fitted one
    for kind, Z in refusal_tables(rng, deep):
        X = relabel(rng, pd.DataFrame(Z))
        dd = X.shape[1]
        for vt in TYPES:
            form, t = pick_call(rng, dd)
            check_refused(ctx, X, vt, t, form, counts, None, kind)
            A = gen_table(rng, dd if rng.random() < 0.7 else max(2, dd - 1), 'plain')
            check_refused(ctx, X, vt, t, form, counts, (A, rng.randint(1, A.shape[1])), kind)
    # two competing |tau| values 1e-9..6e-8 apart, every column order (MST clause with weights in double precision)
    for rep_ in range(1 if not deep else 6):
        for X in near_equal_tables(rng, 3 if rep_ % 2 == 0 else 4):
            X = relabel(rng, X)
            for vt in (TYPES if rep_ == 0 else ('regular',)):
                counts['near-equal-tau fits'] = counts.get('near-equal-tau fits', 0) + 1
                check_real(ctx, X, vt, rng.randint(1, X.shape[1]), counts)
    ctx.support = dict(counts, deep=deep)


def replay(ctx, payload):
    inp = payload['input']
    X = dec_frame(inp)
    counts = {'fits': 0, 'checked': 0, 'refused': 0, 'failures': 0}
    before = len(ctx.failing)
    if str(inp.get('scenario', '')).startswith('refused-fit'):
        check_refused(ctx, X, inp['vine_type'], inp['truncated'], inp.get('call_form', 'keyword'), counts, None,
                      inp.get('table_kind', ''))
        return any(f['class'] == payload.get('class') for f in ctx.failing[before:])
    hist = [(dec_frame(h), h['truncated'], h.get('call_form', 'keyword'))
            for h in inp.get('fitted_before_on_the_same_object', [])]
    check_real(ctx, X, inp['vine_type'], inp['truncated'], counts, hist, inp.get('call_form', 'keyword'))
    return any(f['class'] == payload.get('class') for f in ctx.failing[before:])
