"""C18 — Vectorised root finders return a bracketed root for every lane.

Tie: the Lean model `CopVerif.Model.bisect / chandrupatla / chandrupatlaScalar` run at Float on functions
given in a spec language that this file and `lean/CopVerif/Driver/RootFind.lean` interpret identically,
against the REAL `copulas.optimize.bisect / chandrupatla`.
Search: the C18 statement as an executable oracle on the real functions.
"""
import math
import warnings

import numpy as np

import vcommon as vc

warnings.filterwarnings('ignore')

GEN_TARGETS = ('RootFind',)
DRIVER_MAIN = 'Main/RootFind.lean'
DRIVER_TARGETS = ['CopVerif.Driver.RootFind']
ALWAYS_SEARCH = True
RULE = ('function specs kind in {lin, aff, cubic(flat root), sat(urating), kink, expm} with per-lane slope '
        '10^U(-6,6), root 0 or +-10^U(-3,3), bracket width max(1,|root|)*10^U(-4,3), root strictly inside / at '
        'the lower end / at the upper end; batches of 1..1000 lanes mixing kinds and difficulty; bisect with '
        'tol in {1e-8 (mostly), 1e-3, 1e-12, 0} and maxiter in {50 (mostly), 0, 1, 7, 100}; chandrupatla with '
        'default and explicit eps_m/eps_a and maxiter in {50 (mostly), 1, 3, 12, 100}; a separate malformed '
        'stream (lane with both ends on one side of the root, reversed bracket, NaN end). A case is distinct by '
        '(method, parameters, lanes) and non-trivial when it has at least one lane that needs more than one '
        'iteration. Arithmetic-only batches must agree BIT FOR BIT with the Lean Float run (result, iteration '
        'count, and for bisect the final xmin/xmax); batches containing expm lanes agree within a tolerance '
        'sized from the property (bisect 1e-8, chandrupatla 1e-9 of the width) plus the flat zone 4.5e-16/slope. '
        'Bracket representation stream (tie and search, quick tier too): the same numbers handed over as float64 / '
        'float32 / int64 / int32 arrays (integer-valued ends, fractional root or root at either end), non-integer '
        'float32 brackets, and scalar calls with Python int, Python float, np.float64, np.float32, np.int64; '
        'chandrupatla with integer-valued ends must be bit-identical to the model run on the float64 image, '
        'non-integer float32 brackets within tolerance; a search failure that disappears when the same brackets '
        'are float64 gets the class <method>:integer-bracket-dtype-truncates / '
        '<method>:float32-bracket-dtype-tolerance. GaussianKDE.percent_point (tie and search): 7 fitted data sets '
        'including data located at 100 and 1e4, both solvers, probabilities that are exact float32 numbers handed over '
        'as float64 / float32 / float16 arrays, np.float32 / np.float64 scalars, 0-d arrays (Python floats and lists '
        'are not accepted by the code: counted), reference roots by scipy brentq on cdf(x) - u with u converted exactly '
        'to float64; a failure that disappears with float64 U gets kde.percent_point:<method>:<representation>-U:<what>. '
        'Object-state histories of ONE GaussianKDE (tie and quick search): fit(A) -> percent_point (both solvers) -> '
        'fit(B) with B shifted up / down by 8..60 spreads, 20..200 times wider, 20..200 times narrower, inside, same '
        'size -> percent_point, and the states from_dict / pickle / get_instance clone / restored-used-refitted, each '
        'compared (bit for bit or within twice the solver tolerance, never raising) with a FRESH model fitted on the '
        'data the instance holds; classes kde.percent_point:<method>:depends-on-fit-history and '
        ':depends-on-state:<state>. Quick search also: option combinations (eps_m only / eps_a only / both / neither, '
        'maxiter; tol / maxiter for bisect) on narrow brackets near zero and slowly converging functions with the '
        'tolerance the caller is entitled to (documented defaults for what was not passed); one float64 bracket '
        'table solved 2-3 times (table untouched, same roots); output form (scalar brackets of chandrupatla give a '
        'scalar numpy.float64 equal to lane 0 of the one-element vector; vector calls give a float64 ndarray of the '
        'shape of the brackets)')
PARTIAL = ['chandrupatla_converges_partial: termination of every lane within the iteration cap is not a theorem '
           '(the IQI step has no proved rate); proved instead: success, containment, sign bracket, smaller-|f| end, '
           'exact zero when fm == 0, a root within |a-b| of the result. The cap is exercised by the tie; the search '
           'counts (does not report) tolerance misses of the piecewise-linear `kink` family, which is outside the '
           "property's family and on which 50 iterations can leave up to ~2e-9 of the width",
           'chandrupatla_tlim_partial: the 2*tol bound is proved for the iteration at which the lane is flagged '
           '(and for a lane solved alone: chandrupatla_single_lane), not for later iterations of a lane that keeps '
           'being iterated while other lanes are unfinished',
           'chandrupatla_rejects covers same-sign brackets only; a reversed bracket (xmin > xmax) is accepted and a '
           'non-root returned: chandrupatla_reversed_bracket_counterexample (search class '
           'chandrupatla:invalid-bracket-accepted:reversed)',
           'all theorems are about the real-number reading of the model; rounding, NaN/inf behaviour and the '
           'scalar `phi**2` through libm pow are covered by the tie only']
ASSUMPTIONS = ['real-number semantics of binary64 formulas (DESIGN 3.1)',
               'the user function is element-wise (lane i of f(x) depends on lane i of x only)',
               'numpy ufunc semantics of sign/clip/maximum/minimum/choose as modelled in Model/RootFind.lean, '
               'validated bit for bit on every run']

EXACT_KINDS = ('lin', 'aff', 'cubic', 'sat', 'kink')
LIBM_KINDS = ('expm',)
ORACLE_KINDS = ('lin', 'aff', 'cubic', 'sat', 'expm', 'quint')     # the property's family (closeness oracle)
SLOW_KINDS = ('cubic', 'quint', 'expm')     # slowly converging: flat roots (x**3, x**5), exp-type
BIT_KINDS = ('lin', 'aff', 'cubic', 'sat', 'kink', 'quint')     # + - * / only: bit-identical to the Lean Float run
EPS = float(np.finfo(float).eps)


# ------------------------------------------------------------------------------ the spec language
def fam_eval(kind, x, p, q):
    """Same operations in the same order as `specFn` in Driver/RootFind.lean."""
    if kind == 'lin':
        return p * (x - q)
    if kind == 'aff':
        return p * x - q
    if kind == 'cubic':
        d = x - q
        return p * (d * d * d)
    if kind == 'quint':
        d = x - q
        return p * (d * d * d * d * d)
    if kind == 'sat':
        d = x - q
        return p * d / (1.0 + np.abs(d))
    if kind == 'kink':
        d = x - q
        return np.where(d < 0.0, d, p * d)
    if kind == 'expm':
        return np.exp(p * (x - q)) - 1.0
    raise KeyError(kind)


def lane_root(l):
    k, p, q = l[0], l[1], l[2]
    return q / p if k == 'aff' else q


def lane_slack(l):
    """half-width of the zone around the root where the computed f may be 0 / of the wrong sign."""
    k, p, q = l[0], l[1], l[2]
    r = abs(lane_root(l))
    ulp = 4 * EPS * max(r, abs(l[3]), abs(l[4]))
    if k == 'expm':
        return 4.5e-16 / p + ulp
    if k == 'aff':
        return ulp + 4 * EPS * abs(q) / p
    return ulp


class VecFn:
    """element-wise vector function of a list of lanes (kind, p, q, lo, hi); counts calls and can
    record every evaluation point."""

    def __init__(self, lanes, record=False):
        self.lanes = lanes
        kinds = np.array([l[0] for l in lanes])
        self.p = np.array([l[1] for l in lanes], dtype=float)
        self.q = np.array([l[2] for l in lanes], dtype=float)
        self.groups = [(k, np.nonzero(kinds == k)[0]) for k in sorted(set(kinds.tolist()))]
        self.calls = 0
        self.points = [] if record else None

    def __call__(self, x):
        self.calls += 1
        x = np.asarray(x, dtype=float)
        if self.points is not None:
            self.points.append(x.copy())
        out = np.empty(x.shape, dtype=float)
        with np.errstate(all='ignore'):
            for k, idx in self.groups:
                out[idx] = fam_eval(k, x[idx], self.p[idx], self.q[idx])
        return out


class ScalarFn:
    def __init__(self, lane):
        self.k, self.p, self.q = lane[0], lane[1], lane[2]
        self.calls = 0

    def __call__(self, x):
        self.calls += 1
        if not isinstance(x, float):     # int / np.int64 / np.float32 arguments: the function itself is a double function
            x = np.float64(x)
        with np.errstate(all='ignore'):
            r = fam_eval(self.k, x, self.p, self.q)
        if isinstance(r, np.ndarray):   # np.where on a scalar gives a 0-d array
            r = r[()]
        return r


def lane_words(l):
    return f'{l[0]} {vc.f2h(l[1])} {vc.f2h(l[2])} {vc.f2h(l[3])} {vc.f2h(l[4])}'


DTYPES = {'float64': np.float64, 'float32': np.float32, 'int64': np.int64, 'int32': np.int32}
SCALAR_TYPES = {'pyfloat': float, 'pyint': int, 'np.float64': np.float64, 'np.float32': np.float32,
                'np.int64': np.int64}


def arrays(lanes, dtype=None):
    """the bracket arrays handed to the real code; `dtype` (a key of DTYPES) is the caller's representation
    of the SAME numbers (the generator makes the ends exactly representable in it)."""
    lo = np.array([l[3] for l in lanes], dtype=float)
    hi = np.array([l[4] for l in lanes], dtype=float)
    if dtype not in (None, 'float64'):
        lo, hi = lo.astype(DTYPES[dtype]), hi.astype(DTYPES[dtype])
    return lo, hi


STYPE_DTYPE = {'pyfloat': 'float64', 'pyint': 'int64', 'np.float64': 'float64', 'np.float32': 'float32',
               'np.int64': 'int64'}


def f64(a):
    return np.asarray(a, dtype=float)


# ------------------------------------------------------------------------------ generators
def logu(rng, a, b):
    return 10.0 ** rng.uniform(a, b)


def gen_lane(rng, kinds, hard=None):
    for _ in range(50):
        kind = rng.choice(kinds)
        r = 0.0 if rng.random() < 0.1 else logu(rng, -3, 3) * rng.choice([-1, 1])
        if hard is None:
            p = logu(rng, -6, 6)
            w = max(1.0, abs(r)) * logu(rng, -4, 3)
        elif hard:       # steep or very shallow, wide bracket, root near an end
            p = logu(rng, 4, 6) if rng.random() < 0.5 else logu(rng, -6, -4)
            w = max(1.0, abs(r)) * logu(rng, 1, 3)
        else:            # easy: moderate slope, narrow bracket
            p = logu(rng, -1, 1)
            w = max(1.0, abs(r)) * logu(rng, -4, -2)
        where = rng.random()
        if where < 0.12:
            lo, hi, pos = r, r + w, 'root-at-lo'
        elif where < 0.24:
            lo, hi, pos = r - w, r, 'root-at-hi'
        else:
            u = rng.random() if rng.random() < 0.7 else rng.choice([1e-9, 1e-3, 1 - 1e-3, 1 - 1e-9])
            lo = r - u * w
            hi = lo + w
            pos = 'interior'
        q = p * r if kind == 'aff' else r
        lane = (kind, p, q, lo, hi)
        with np.errstate(all='ignore'):
            flo, fhi = float(fam_eval(kind, lo, p, q)), float(fam_eval(kind, hi, p, q))
        if flo <= 0.0 <= fhi and lo < hi and math.isfinite(flo):
            return lane, pos
    return ('lin', 1.0, 0.0, -1.0, 1.0), 'interior'


LANE_COUNTS_QUICK = [1, 1, 1, 2, 2, 3, 5, 8, 17, 40, 100]


def _valid(kind, p, q, lo, hi):
    with np.errstate(all='ignore'):
        flo, fhi = float(fam_eval(kind, lo, p, q)), float(fam_eval(kind, hi, p, q))
    return flo <= 0.0 <= fhi and lo < hi and math.isfinite(flo)


def gen_lane_int(rng, kinds):
    """integer-valued bracket ends (exactly representable as float64, float32, int64, int32) with a fractional
    root strictly inside, or the root at either end."""
    for _ in range(50):
        kind = rng.choice(kinds)
        lo = rng.randint(-40, 40)
        hi = lo + rng.randint(1, 60)
        where = rng.random()
        if where < 0.15:
            r, pos = float(lo), 'root-at-lo'
        elif where < 0.30:
            r, pos = float(hi), 'root-at-hi'
        else:
            r, pos = lo + rng.uniform(0.02, 0.98) * (hi - lo), 'interior'
        p = logu(rng, -6, 6)
        q = p * r if kind == 'aff' else r
        if _valid(kind, p, q, float(lo), float(hi)):
            return (kind, p, q, float(lo), float(hi)), pos
    return ('lin', 1.0, 0.3, 0.0, 1.0), 'interior'


def gen_lane_f32(rng, kinds):
    """non-integer bracket ends that are exactly float32 numbers; root inside or exactly at an end."""
    for _ in range(50):
        kind = rng.choice(kinds)
        r = 0.0 if rng.random() < 0.1 else logu(rng, -3, 3) * rng.choice([-1, 1])
        w = max(1.0, abs(r)) * logu(rng, -3, 2)
        where = rng.random()
        if where < 0.15:
            lo = float(np.float32(r))
            r, hi, pos = lo, float(np.float32(lo + w)), 'root-at-lo'
        elif where < 0.30:
            hi = float(np.float32(r))
            r, lo, pos = hi, float(np.float32(hi - w)), 'root-at-hi'
        else:
            u = rng.uniform(0.02, 0.98)
            lo = float(np.float32(r - u * w))
            hi = float(np.float32(lo + w))
            pos = 'interior'
        p = logu(rng, -6, 6)
        q = p * r if kind == 'aff' else r
        if _valid(kind, p, q, lo, hi):
            return (kind, p, q, lo, hi), pos
    return ('lin', 1.0, 0.30000001192092896, 0.10000000149011612, 0.8999999761581421), 'interior'


DTYPE_STREAM = ['float64', 'float32', 'int64', 'int32', 'float32-frac']


def gen_dtype_batch(ctx, rng, exact, n, which=None):
    """(lanes, dtype key, tag): the same numbers handed over in another representation."""
    kinds = EXACT_KINDS if exact else EXACT_KINDS + LIBM_KINDS * 3
    tag = which or rng.choice(DTYPE_STREAM)
    gen = gen_lane_f32 if tag == 'float32-frac' else gen_lane_int
    lanes = []
    for _ in range(n):
        lane, pos = gen(rng, kinds)
        ctx.count(f'dtype-lane:{pos}')
        lanes.append(lane)
    ctx.count(f'dtype-batch:{tag}')
    return lanes, ('float32' if tag == 'float32-frac' else tag), tag


def gen_batch(ctx, rng, exact, n=None):
    kinds = EXACT_KINDS if exact else EXACT_KINDS + LIBM_KINDS * 3
    if n is None:
        n = rng.choice(LANE_COUNTS_QUICK)
    mode = rng.choice(['mixed', 'mixed', 'one-hard', 'one-easy', 'uniform'])
    lanes = []
    for i in range(n):
        if mode == 'one-hard':
            hard = (i == n // 2)
        elif mode == 'one-easy':
            hard = (i != n // 2)
        elif mode == 'uniform':
            hard = None
        else:
            hard = rng.choice([True, False, None])
        lane, pos = gen_lane(rng, kinds, hard)
        ctx.count(f'lane:{lane[0]}')
        ctx.count(f'lane:{pos}')
        lanes.append(lane)
    if not exact and not any(l[0] in LIBM_KINDS for l in lanes):
        lane, pos = gen_lane(rng, LIBM_KINDS)
        lanes[rng.randrange(n)] = lane
    ctx.count(f'batch:{mode}')
    return lanes


def corrupt(rng, lanes):
    """make one lane's bracket invalid; returns (lanes, kind-of-corruption)."""
    lanes = list(lanes)
    i = rng.randrange(len(lanes))
    k, p, q, lo, hi = lanes[i]
    r = lane_root(lanes[i])
    w = hi - lo
    how = rng.choice(['lo-above-root', 'hi-below-root', 'reversed', 'nan-lo', 'nan-hi'])
    if how == 'lo-above-root':
        lo, hi = r + 0.25 * w + 1e-3, r + 1.25 * w + 1e-3
    elif how == 'hi-below-root':
        lo, hi = r - 1.25 * w - 1e-3, r - 0.25 * w - 1e-3
    elif how == 'reversed':
        lo, hi = r + 0.5 * w + 1e-3, r - 0.5 * w - 1e-3
    elif how == 'nan-lo':
        lo = float('nan')
    else:
        hi = float('nan')
    lanes[i] = (k, p, q, lo, hi)
    return lanes, how, i


# ------------------------------------------------------------------------------ calls
def same_bits(a, b):
    return vc.f2h(a) == vc.f2h(b) or (a != a and b != b)


def real_bisect(lanes, tol, maxiter, record=False, dtype=None):
    from copulas.optimize import bisect
    f = VecFn(lanes, record)
    xa, xb = arrays(lanes, dtype)
    orig = (xa.copy(), xb.copy())
    kw = {}
    if tol is not None:
        kw['tol'] = tol
    if maxiter is not None:
        kw['maxiter'] = maxiter
    try:
        with np.errstate(all='ignore'):
            res = bisect(f, xa, xb, **kw)
        return {'st': 'ok', 'res': np.asarray(res, dtype=float), 'xa': xa, 'xb': xb, 'orig': orig,
                'iters': f.calls - 2, 'f': f}
    except Exception as e:  # noqa
        return {'st': 'err', 'kind': vc.exc_kind(e), 'xa': xa, 'xb': xb, 'orig': orig, 'f': f}


def lean_bisect(lean, lanes, tol, maxiter):
    tol = 1e-8 if tol is None else tol
    maxiter = 50 if maxiter is None else maxiter
    r = lean.ask(f'rootfind bisect {vc.f2h(tol)} {maxiter} {len(lanes)} ' + ' '.join(lane_words(l) for l in lanes))
    ws = r.split()
    if ws and ws[0] == 'ok':
        n = len(lanes)
        vals = [vc.h2f(w) for w in ws[2:]]
        if len(vals) != 3 * n:
            return {'st': 'bad', 'text': r[:200]}
        return {'st': 'ok', 'iters': int(ws[1]), 'res': vals[:n], 'xmin': vals[n:2 * n], 'xmax': vals[2 * n:]}
    if ws and ws[0] == 'err':
        return {'st': 'err', 'kind': ws[1]}
    return {'st': 'bad', 'text': r[:200]}


def real_chand(lanes, eps_m, eps_a, maxiter, record=False, dtype=None):
    from copulas.optimize import chandrupatla
    f = VecFn(lanes, record)
    xa, xb = arrays(lanes, dtype)
    orig = (xa.copy(), xb.copy())
    kw = {}
    if eps_m is not None:
        kw['eps_m'] = eps_m
    if eps_a is not None:
        kw['eps_a'] = eps_a
    if maxiter is not None:
        kw['maxiter'] = maxiter
    try:
        with np.errstate(all='ignore'):
            res = chandrupatla(f, xa, xb, **kw)
        return {'st': 'ok', 'res': np.asarray(res, dtype=float), 'iters': f.calls - 2, 'xa': xa, 'xb': xb,
                'orig': orig, 'f': f}
    except Exception as e:  # noqa
        return {'st': 'err', 'kind': vc.exc_kind(e), 'f': f}


def real_chand_scalar(lane, eps_m, eps_a, maxiter, stype='pyfloat'):
    from copulas.optimize import chandrupatla
    f = ScalarFn(lane)
    kw = {}
    if eps_m is not None:
        kw['eps_m'] = eps_m
    if eps_a is not None:
        kw['eps_a'] = eps_a
    if maxiter is not None:
        kw['maxiter'] = maxiter
    try:
        with np.errstate(all='ignore'):
            conv = SCALAR_TYPES[stype]
            res = chandrupatla(f, conv(lane[3]), conv(lane[4]), **kw)
        return {'st': 'ok', 'res': float(res), 'iters': f.calls - 2, 'shape': np.shape(res)}
    except Exception as e:  # noqa
        return {'st': 'err', 'kind': vc.exc_kind(e)}


def lean_chand(lean, lanes, eps_m, eps_a, maxiter, scalar=False):
    eps_m = EPS if eps_m is None else eps_m
    eps_a = 2 * EPS if eps_a is None else eps_a
    maxiter = 50 if maxiter is None else maxiter
    if scalar:
        r = lean.ask(f'rootfind chands {vc.f2h(eps_m)} {vc.f2h(eps_a)} {maxiter} ' + lane_words(lanes[0]))
    else:
        r = lean.ask(f'rootfind chand {vc.f2h(eps_m)} {vc.f2h(eps_a)} {maxiter} {len(lanes)} ' +
                     ' '.join(lane_words(l) for l in lanes))
    ws = r.split()
    if ws and ws[0] == 'ok':
        vals = [vc.h2f(w) for w in ws[2:]]
        if len(vals) != len(lanes):
            return {'st': 'bad', 'text': r[:200]}
        return {'st': 'ok', 'iters': int(ws[1]), 'res': vals}
    if ws and ws[0] == 'err':
        return {'st': 'err', 'kind': ws[1]}
    return {'st': 'bad', 'text': r[:200]}


def prop_tol(method, lane):
    """the property's tolerance for one lane, plus the zone where the computed f cannot see the root."""
    w = abs(lane[4] - lane[3])
    base = 1e-8 if method == 'bisect' else 1e-9 * w
    return base + lane_slack(lane)


def first_diff(xs, ys, lanes, tols=None):
    for i, (a, b) in enumerate(zip(xs, ys)):
        a, b = float(a), float(b)
        if tols is None:
            if not same_bits(a, b):
                return i, a, b
        else:
            if not ((a != a and b != b) or abs(a - b) <= tols[i]):
                return i, a, b
    return None


# ------------------------------------------------------------------------------ the tie
def run(ctx, lean):
    names = ['corr:spec-language', 'corr:bisect.exact', 'corr:bisect.libm', 'corr:bisect.caller-arrays',
             'corr:bisect.rejects', 'corr:chandrupatla.exact', 'corr:chandrupatla.libm',
             'corr:chandrupatla.rejects', 'corr:chandrupatla.scalar', 'corr:chandrupatla.dtype', 'corr:bisect.dtype',
             'corr:options', 'corr:lane-position',
             'corr:kde.percent_point']
    if lean is None:
        for n in names[:-1]:
            ctx.ob(n, False, 'tie', 'driver unavailable')
    else:
        tie_spec(ctx, lean)
        tie_bisect(ctx, lean)
        tie_chand(ctx, lean)
        tie_scalar(ctx, lean)
        tie_dtype(ctx, lean)
        tie_rejects(ctx, lean)
    tie_kde(ctx)


def tie_spec(ctx, lean):
    rng = ctx.rng('spec')
    bad = None
    for _ in range(30 * ctx.scale):
        lanes = [gen_lane(rng, EXACT_KINDS + LIBM_KINDS + ('quint',))[0] for _ in range(12)]
        xs = []
        for l in lanes:
            c = rng.random()
            xs.append(l[3] if c < 0.1 else l[4] if c < 0.2 else lane_root(l) if c < 0.3
                      else rng.uniform(l[3], l[4]))
        f = VecFn(lanes)
        ys = f(np.array(xs))
        r = lean.floats(f'rootfind eval {len(lanes)} ' +
                        ' '.join(f'{l[0]} {vc.f2h(l[1])} {vc.f2h(l[2])} {vc.f2h(x)}' for l, x in zip(lanes, xs)))
        ctx.case(('spec', tuple(lanes), tuple(xs)))
        if r[0] != 'ok' or len(r[1]) != len(lanes):
            bad = bad or {'reply': r}
            continue
        for l, x, y, z in zip(lanes, xs, ys, r[1]):
            y = float(y)
            if l[0] in BIT_KINDS:
                ok = same_bits(y, z)
            else:   # exp through two libm implementations: a few ulp of exp(.) ~ 1, absolute after the -1
                ok = (y != y and z != z) or y == z or abs(y - z) <= 8 * EPS * max(1.0, abs(y))
            if not ok and bad is None:
                bad = {'lane': l, 'x': x, 'python': y, 'lean': z}
    ctx.ob('corr:spec-language', bad is None, 'tie', bad or 'ok')


BISECT_PARAMS = [(None, None)] * 6 + [(1e-3, None), (1e-12, None), (0.0, None), (None, 0), (None, 1), (None, 7),
                                       (1e-12, 100), (1e-8, 100)]
CHAND_PARAMS = [(None, None, None)] * 6 + [(None, None, 1), (None, None, 3), (None, None, 12), (None, None, 100),
                                            (1e-10, 1e-12, None), (1e-6, 1e-6, None), (0.0, 1e-9, None)]


# option combinations: eps_m only / eps_a only / both / neither, with and without maxiter; tol / maxiter for bisect
CHAND_OPTIONS = [(None, None, None), (1e-11, None, None), (1e-13, None, None), (1e-12, None, 100), (1e-6, None, None),
                 (None, 1e-15, None), (None, 1e-12, None), (None, 1e-13, 200), (1e-12, 1e-15, None),
                 (1e-10, 1e-12, None), (None, None, 100), (None, None, 200), (1e-9, None, 12)]
BISECT_OPTIONS = [(None, None), (1e-12, None), (1e-10, 100), (1e-6, None), (0.0, None), (None, 30), (None, 100),
                  (1e-14, 200)]


def combo_label(method, params):
    if method == 'bisect':
        keys = [k for k in ('tol', 'maxiter') if params.get(k) is not None]
    else:
        keys = [k for k in ('eps_m', 'eps_a', 'maxiter') if params.get(k) is not None]
    return '+'.join(keys) if keys else 'defaults'


def asked_tol(method, lane, params):
    """the closeness the CALLER is entitled to: the property's tolerance, relaxed only as far as the options the
    caller passed say so, every option the caller did not pass having its DOCUMENTED default (bisect tol=1e-8,
    maxiter=50; chandrupatla eps_m = machine eps, eps_a = 2 * machine eps, maxiter=50).  chandrupatla stops a lane
    when its bracket is below 2*tol, tol = 2*eps_m*|x| + eps_a."""
    if combo_label(method, params) == 'defaults':
        return prop_tol(method, lane)
    w = abs(lane[4] - lane[3])
    if method == 'bisect':
        t = 1e-8 if params.get('tol') is None else params['tol']
        m = 50 if params.get('maxiter') is None else params['maxiter']
        return max(t, w / 2.0 ** m) + lane_slack(lane)
    em = EPS if params.get('eps_m') is None else params['eps_m']
    ea = 2 * EPS if params.get('eps_a') is None else params['eps_a']
    cap = 50 if params.get('maxiter') is None else params['maxiter']
    base = max(1e-9 * w, 2 * (2 * em * max(abs(lane[3]), abs(lane[4])) + ea))
    if cap < 50:      # fewer iterations than the documented cap: only containment is promised
        base = max(base, w)
    return base + lane_slack(lane)


def gen_options_batch(ctx, rng, n):
    """narrow brackets near zero (width 1e-2..1e-6, where eps_a decides) or wide brackets with slowly converging
    functions (cubic / quintic flat root, exp-type)."""
    lanes = []
    mode = rng.choice(['narrow', 'narrow', 'wide-slow', 'mixed'])
    for _ in range(n):
        m = rng.choice(['narrow', 'wide-slow']) if mode == 'mixed' else mode
        for _ in range(50):
            if m == 'narrow':
                kind = rng.choice(('cubic', 'quint', 'expm', 'lin', 'sat'))
                w = logu(rng, -6, -2)
                r = w * rng.uniform(-0.5, 0.5) if rng.random() < 0.85 else 0.0
                lo, hi = r - w * rng.uniform(0.05, 0.5), r + w * rng.uniform(0.05, 0.5)
                p = logu(rng, -2, 4) / (w ** 3 if kind == 'cubic' else w ** 5 if kind == 'quint' else w)
            else:
                kind = rng.choice(SLOW_KINDS)
                r = logu(rng, -2, 2) * rng.choice([-1, 1])
                w = max(1.0, abs(r)) * logu(rng, 0, 3)
                u = rng.uniform(0.02, 0.98)
                lo, hi = r - u * w, r + (1 - u) * w
                p = logu(rng, -4, 2) if kind != 'expm' else logu(rng, -3, 0)
            if _valid(kind, p, r, lo, hi):
                lanes.append((kind, p, r, lo, hi))
                break
        else:
            lanes.append(('lin', 1.0, 0.0, -1e-4, 1e-4))
    ctx.count(f'options-batch:{mode}')
    return lanes


POSITION_COUNTS = (256, 257, 300, 511, 513, 777, 1000)


def gen_position_batch(ctx, rng, n, where):
    """n - 1 easy lanes (linear / saturating, moderate slope, narrow bracket: a handful of iterations) and ONE slow
    lane (cubic / quintic flat root or steep exponential on a wide bracket: tens of iterations) at the first, middle
    or LAST position: `np.all(terminate)` / `.max()` must look at every lane.  Returns (lanes, index of the slow
    lane)."""
    lanes = []
    for _ in range(n):
        for _ in range(50):
            kind = rng.choice(('lin', 'lin', 'sat', 'aff'))
            r = logu(rng, -1, 2) * rng.choice([-1, 1])
            w = max(1.0, abs(r)) * logu(rng, -3, -1)
            u = rng.uniform(0.1, 0.9)
            lo, hi = r - u * w, r + (1 - u) * w
            p = logu(rng, -1, 1)
            q = p * r if kind == 'aff' else r
            if _valid(kind, p, q, lo, hi):
                lanes.append((kind, p, q, lo, hi))
                break
        else:
            lanes.append(('lin', 1.0, 0.3, 0.0, 1.0))
    k = {'first': 0, 'middle': n // 2, 'last': n - 1}[where]
    for _ in range(50):
        kind = rng.choice(('cubic', 'quint', 'cubic', 'expm'))
        r = logu(rng, -1, 2) * rng.choice([-1, 1])
        w = max(1.0, abs(r)) * logu(rng, 1, 3)
        u = rng.uniform(0.05, 0.95)
        lo, hi = r - u * w, r + (1 - u) * w
        p = logu(rng, -3, 1) if kind != 'expm' else logu(rng, 0, 2)
        if _valid(kind, p, r, lo, hi):
            lanes[k] = (kind, p, r, lo, hi)
            break
    ctx.count(f'position-batch:n={n}:{where}')
    return lanes, k


def lane_counts(ctx, rng, k):
    """k batch sizes; the quick tier has exactly one 1000-lane batch per stream."""
    out = [rng.choice(LANE_COUNTS_QUICK) for _ in range(k)]
    out[0] = 1000
    if ctx.scale > 1:
        for j in range(1, k, 7):
            out[j] = rng.choice([250, 500, 1000])
    return out


def tie_bisect(ctx, lean):
    bad = {'exact': None, 'libm': None, 'caller': None}
    for exact in (True, False):
        tag = 'exact' if exact else 'libm'
        rng = ctx.rng('bisect', tag)
        for n in lane_counts(ctx, rng, 22 * ctx.scale):
            lanes = gen_batch(ctx, rng, exact, n)
            tol, maxiter = rng.choice(BISECT_PARAMS)
            R = real_bisect(lanes, tol, maxiter)
            L = lean_bisect(lean, lanes, tol, maxiter)
            ctx.case(('bisect', tol, maxiter, tuple(lanes)), nontrivial=(R.get('iters', 0) > 1))
            ctx.count(f'bisect:{tag}:n={"1" if n == 1 else "2-9" if n < 10 else "10-99" if n < 100 else "100+"}')
            d = cmp_bisect(ctx, lanes, R, L, exact, tol, maxiter)
            if d and bad[tag] is None:
                bad[tag] = shrink(lanes, d, lambda ls: cmp_bisect(None, ls, real_bisect(ls, tol, maxiter),
                                                                 lean_bisect(lean, ls, tol, maxiter), exact, tol,
                                                                 maxiter), {'tol': tol, 'maxiter': maxiter})
            if R['st'] == 'ok' and L['st'] == 'ok':
                c = cmp_caller(ctx, lanes, R, L, exact)
                if c and bad['caller'] is None:
                    bad['caller'] = dict(c, tol=tol, maxiter=maxiter, lanes=lanes[:4])
            if len(ctx.samples) < 3 and R['st'] == 'ok' and n <= 3:
                ctx.sample({'method': 'bisect', 'lanes': lanes, 'tol': tol, 'maxiter': maxiter,
                            'result': R['res'].tolist(), 'iters': R['iters']})
    ctx.ob('corr:bisect.exact', bad['exact'] is None, 'tie', bad['exact'] or 'ok')
    ctx.ob('corr:bisect.libm', bad['libm'] is None, 'tie', bad['libm'] or 'ok')
    ctx.ob('corr:bisect.caller-arrays', bad['caller'] is None, 'tie', bad['caller'] or 'ok')


def cmp_bisect(ctx, lanes, R, L, exact, tol, maxiter):
    if L['st'] == 'bad':
        return {'what': 'driver reply', 'text': L['text']}
    if R['st'] != L['st']:
        return {'what': 'status', 'real': R['st'] + ' ' + R.get('kind', ''), 'model': L['st'] + ' ' + L.get('kind', '')}
    if R['st'] == 'err':
        return None if R['kind'] == L['kind'] else {'what': 'error kind', 'real': R['kind'], 'model': L['kind']}
    if exact:
        if R['iters'] != L['iters']:
            return {'what': 'iterations', 'real': R['iters'], 'model': L['iters']}
        d = first_diff(R['res'], L['res'], lanes)
        if d:
            return {'what': 'result bits', 'lane': d[0], 'real': d[1], 'model': d[2], 'spec': lanes[d[0]]}
        return None
    tol_ = 1e-8 if tol is None else tol
    it = 50 if maxiter is None else maxiter
    # both results are midpoints of brackets that contain the lane's root zone; each is within
    # width/2 of it where width <= max(tol, w/2^iters)
    tols = [max(tol_, abs(l[4] - l[3]) / 2.0 ** min(it, R['iters'], L['iters'])) + 2 * lane_slack(l) for l in lanes]
    d = first_diff(R['res'], L['res'], lanes, tols)
    if d:
        return {'what': 'result beyond tolerance', 'lane': d[0], 'real': d[1], 'model': d[2], 'tol': tols[d[0]],
                'spec': lanes[d[0]]}
    if ctx is not None:
        ctx.count('bisect:libm:bit-identical' if first_diff(R['res'], L['res'], lanes) is None
                  else 'bisect:libm:within-tolerance')
    return None


def cmp_caller(ctx, lanes, R, L, exact):
    """what the CALLER's arrays hold after the call: as found = the model's final xmin/xmax (aliasing,
    recorded under C20); repaired = unchanged.  Either is accepted, which one is recorded."""
    o_lo, o_hi = R['orig']
    unchanged = all(same_bits(a, b) for a, b in zip(R['xa'], o_lo)) and all(same_bits(a, b) for a, b in zip(R['xb'], o_hi))
    if exact:
        asfound = first_diff(R['xa'], L['xmin'], lanes) is None and first_diff(R['xb'], L['xmax'], lanes) is None
    else:
        tols = [abs(l[4] - l[3]) * 0 + max(1e-8, 2 * lane_slack(l)) + abs(l[4] - l[3]) / 2.0 ** min(R['iters'], L['iters'])
                for l in lanes]
        asfound = first_diff(R['xa'], L['xmin'], lanes, tols) is None and first_diff(R['xb'], L['xmax'], lanes, tols) is None
    if unchanged and asfound:
        ctx.count('bisect:caller-arrays:ambiguous(no update happened)')
        return None
    if asfound:
        ctx.count('bisect:caller-arrays:as-found(overwritten=model final xmin/xmax)')
        return None
    if unchanged:
        ctx.count('bisect:caller-arrays:repaired(unchanged)')
        return None
    d = first_diff(R['xa'], L['xmin'], lanes) or first_diff(R['xb'], L['xmax'], lanes)
    return {'what': 'caller arrays are neither the model final xmin/xmax nor unchanged', 'lane': d[0] if d else None,
            'real': d[1] if d else None, 'model': d[2] if d else None}


def shrink(lanes, d, again, extra):
    """try the disagreeing lane alone."""
    out = dict(d, n=len(lanes), **extra)
    i = d.get('lane')
    if i is not None and len(lanes) > 1:
        try:
            solo = again([lanes[i]])
            out['solo'] = solo or 'lane alone agrees'
        except Exception as e:  # noqa
            out['solo'] = repr(e)
    if len(lanes) <= 3:
        out['lanes'] = lanes
    return out


def tie_chand(ctx, lean):
    bad = {'exact': None, 'libm': None}
    for exact in (True, False):
        tag = 'exact' if exact else 'libm'
        rng = ctx.rng('chand', tag)
        for n in lane_counts(ctx, rng, 22 * ctx.scale):
            lanes = gen_batch(ctx, rng, exact, n)
            eps_m, eps_a, maxiter = rng.choice(CHAND_PARAMS)
            R = real_chand(lanes, eps_m, eps_a, maxiter)
            L = lean_chand(lean, lanes, eps_m, eps_a, maxiter)
            ctx.case(('chand', eps_m, eps_a, maxiter, tuple(lanes)), nontrivial=(R.get('iters', 0) > 1))
            ctx.count(f'chand:{tag}:n={"1" if n == 1 else "2-9" if n < 10 else "10-99" if n < 100 else "100+"}')
            if R['st'] == 'ok':
                ctx.count('chand:exit:cap' if R['iters'] >= (50 if maxiter is None else maxiter) else 'chand:exit:all-terminated')
            d = cmp_chand(ctx, lanes, R, L, exact, eps_m, eps_a, maxiter)
            if d and bad[tag] is None:
                bad[tag] = shrink(lanes, d, lambda ls: cmp_chand(None, ls, real_chand(ls, eps_m, eps_a, maxiter),
                                                                lean_chand(lean, ls, eps_m, eps_a, maxiter), exact,
                                                                eps_m, eps_a, maxiter),
                                  {'eps_m': eps_m, 'eps_a': eps_a, 'maxiter': maxiter})
            if R['st'] == 'ok' and not (all(same_bits(a, b) for a, b in zip(R['xa'], R['orig'][0])) and
                                        all(same_bits(a, b) for a, b in zip(R['xb'], R['orig'][1]))):
                bad[tag] = bad[tag] or {'what': 'chandrupatla changed the caller arrays (the model says it does not)'}
            if len(ctx.samples) < 6 and R['st'] == 'ok' and n <= 3:
                ctx.sample({'method': 'chandrupatla', 'lanes': lanes, 'eps_m': eps_m, 'eps_a': eps_a,
                            'maxiter': maxiter, 'result': R['res'].tolist(), 'iters': R['iters']})
    # option combinations on narrow brackets near zero / slowly converging functions: the model is run with the
    # DOCUMENTED default for every option the caller leaves out
    rng = ctx.rng('chand', 'options')
    bado = None
    for j in range(26 * ctx.scale):
        lanes = gen_options_batch(ctx, rng, rng.choice([1, 1, 2, 3, 5, 17, 60]))
        bitwise = all(l[0] in BIT_KINDS for l in lanes)
        eps_m, eps_a, maxiter = CHAND_OPTIONS[j % len(CHAND_OPTIONS)]
        R = real_chand(lanes, eps_m, eps_a, maxiter)
        L = lean_chand(lean, lanes, eps_m, eps_a, maxiter)
        lab = combo_label('chandrupatla', {'eps_m': eps_m, 'eps_a': eps_a, 'maxiter': maxiter})
        ctx.case(('chand-options', eps_m, eps_a, maxiter, tuple(lanes)), nontrivial=(R.get('iters', 0) > 1))
        d = cmp_chand(None, lanes, R, L, bitwise, eps_m, eps_a, maxiter)
        ctx.count(f'chand:options:{lab}:' + ('bit-identical' if R['st'] == 'ok' and L['st'] == 'ok' and
                                             first_diff(R['res'], L['res'], lanes) is None else
                                             'within-tolerance' if d is None else 'DIFFERS'))
        if d and bado is None:
            bado = shrink(lanes, d, lambda ls: cmp_chand(None, ls, real_chand(ls, eps_m, eps_a, maxiter),
                                                         lean_chand(lean, ls, eps_m, eps_a, maxiter), bitwise,
                                                         eps_m, eps_a, maxiter),
                          {'options': lab, 'eps_m': eps_m, 'eps_a': eps_a, 'maxiter': maxiter})
        tol, bmaxiter = BISECT_OPTIONS[j % len(BISECT_OPTIONS)]
        Rb = real_bisect(lanes, tol, bmaxiter)
        Lb = lean_bisect(lean, lanes, tol, bmaxiter)
        ctx.case(('bisect-options', tol, bmaxiter, tuple(lanes)), nontrivial=(Rb.get('iters', 0) > 1))
        db = cmp_bisect(None, lanes, Rb, Lb, bitwise, tol, bmaxiter)
        ctx.count(f'bisect:options:{combo_label("bisect", {"tol": tol, "maxiter": bmaxiter})}:' +
                  ('agrees' if db is None else 'DIFFERS'))
        if db and bado is None:
            bado = dict(db, method='bisect', tol=tol, maxiter=bmaxiter, n=len(lanes))
    ctx.ob('corr:chandrupatla.exact', bad['exact'] is None, 'tie', bad['exact'] or 'ok')
    ctx.ob('corr:chandrupatla.libm', bad['libm'] is None, 'tie', bad['libm'] or 'ok')
    ctx.ob('corr:options', bado is None, 'tie', bado or 'ok')
    # every lane counts for the stop test, wherever it sits: one slow lane among n - 1 easy ones
    rng = ctx.rng('chand', 'position')
    badp = None
    plan = [(n, 'last') for n in POSITION_COUNTS] + [(257, 'first'), (513, 'middle'), (777, 'first'), (300, 'middle')]
    if ctx.scale > 1:
        plan = [(n, w) for n in POSITION_COUNTS for w in ('first', 'middle', 'last')] * 2
    for n, where in plan:
        lanes, k = gen_position_batch(ctx, rng, n, where)
        bitwise = all(l[0] in BIT_KINDS for l in lanes)
        for method in ('chandrupatla', 'bisect'):
            if method == 'chandrupatla':
                R, L = real_chand(lanes, None, None, None), lean_chand(lean, lanes, None, None, None)
                d = cmp_chand(None, lanes, R, L, bitwise, None, None, None)
            else:
                R, L = real_bisect(lanes, None, None), lean_bisect(lean, lanes, None, None)
                d = cmp_bisect(None, lanes, R, L, bitwise, None, None)
            ctx.case((method + '-position', n, where, tuple(lanes[k])), nontrivial=(R.get('iters', 0) > 1))
            ctx.count(f'{method}:position:{where}:' + ('agrees' if d is None else 'DIFFERS'))
            if d and badp is None:
                badp = dict(d, method=method, n=n, slow_lane_at=k, slow_lane=lanes[k])
    ctx.ob('corr:lane-position', badp is None, 'tie', badp or 'ok')


def tie_dtype(ctx, lean):
    """brackets handed over as float32 / int64 / int32 arrays.  chandrupatla: with integer-valued ends every
    intermediate value is exact in the narrower type and the code is in float64 from the second body on, so the
    result must be BIT-identical to the model run on the float64 image of the brackets; non-integer float32
    brackets (first body in float32) agree within tolerance.  bisect (since the fix that works on float64
    copies of the brackets): the same, as obligation `corr:bisect.dtype`."""
    rng = ctx.rng('dtype')
    bad = badb = None
    for j in range(20 * ctx.scale):
        exact = rng.random() < 0.7
        n = 1000 if j == 0 else rng.choice(LANE_COUNTS_QUICK)
        lanes, dtype, tag = gen_dtype_batch(ctx, rng, exact, n, DTYPE_STREAM[j % len(DTYPE_STREAM)])
        bitwise = exact and tag != 'float32-frac'
        maxiter = rng.choice([None, None, None, 1, 3, 12])
        R = real_chand(lanes, None, None, maxiter, dtype=dtype)
        L = lean_chand(lean, lanes, None, None, maxiter)
        ctx.case(('chand-dtype', tag, maxiter, tuple(lanes)), nontrivial=(R.get('iters', 0) > 1))
        d = cmp_chand(None, lanes, R, L, bitwise, None, None, maxiter)
        ctx.count(f'chand:dtype:{tag}:' + ('bit-identical' if R['st'] == 'ok' and L['st'] == 'ok' and
                                            first_diff(R['res'], L['res'], lanes) is None else
                                            'within-tolerance' if d is None else 'DIFFERS'))
        if d and bad is None:
            bad = shrink(lanes, d, lambda ls: cmp_chand(None, ls, real_chand(ls, None, None, maxiter, dtype=dtype),
                                                        lean_chand(lean, ls, None, None, maxiter), bitwise, None,
                                                        None, maxiter), {'dtype': tag, 'maxiter': maxiter})
        # bisect works on float64 copies of the brackets (fix 3a0d9f2), so it IS the float64 model on the float64
        # image of the brackets: bit-identical for integer-valued ends, within tolerance for non-integer float32
        btol, bmaxiter = rng.choice([(None, None), (None, None), (1e-12, 100), (None, 7)])
        Rb = real_bisect(lanes, btol, bmaxiter, dtype=dtype)
        Lb = lean_bisect(lean, lanes, btol, bmaxiter)
        ctx.case(('bisect-dtype', tag, btol, bmaxiter, tuple(lanes)), nontrivial=(Rb.get('iters', 0) > 1))
        db = cmp_bisect(None, lanes, Rb, Lb, bitwise, btol, bmaxiter)
        same = Rb['st'] == Lb['st'] == 'ok' and first_diff(Rb['res'], Lb['res'], lanes) is None
        ctx.count(f'bisect:dtype:{tag}:' + ('bit-identical' if same else 'within-tolerance' if db is None else 'DIFFERS'))
        if db is None and Rb['st'] == 'ok' and not (
                Rb['xa'].dtype == Rb['orig'][0].dtype and np.array_equal(Rb['xa'], Rb['orig'][0]) and
                np.array_equal(Rb['xb'], Rb['orig'][1])):
            db = {'what': 'bisect changed the caller arrays'}
        if db and badb is None:
            badb = shrink(lanes, db, lambda ls: cmp_bisect(None, ls, real_bisect(ls, btol, bmaxiter, dtype=dtype),
                                                           lean_bisect(lean, ls, btol, bmaxiter), bitwise, btol,
                                                           bmaxiter), {'dtype': tag, 'tol': btol, 'maxiter': bmaxiter})
    ctx.ob('corr:chandrupatla.dtype', bad is None, 'tie', bad or 'ok')
    ctx.ob('corr:bisect.dtype', badb is None, 'tie', badb or 'ok')


def chand_tols(lanes, eps_m, eps_a, maxiter, iters):
    """both sides return an end of a sign bracket; after the loop exits by termination every lane's
    previous bracket is < 2*tol wide (or f is exactly 0 there); when the cap stops the loop the bracket can
    be as wide as w/2 (only the first step is a guaranteed bisection)."""
    em = EPS if eps_m is None else eps_m
    ea = 2 * EPS if eps_a is None else eps_a
    cap = 50 if maxiter is None else maxiter
    out = []
    for l in lanes:
        w = abs(l[4] - l[3])
        t = 2 * (2 * em * max(abs(l[3]), abs(l[4])) + ea)
        if iters >= cap:
            t = max(t, w)
        out.append(2 * t + 1e-9 * w + 2 * lane_slack(l))
    return out


def cmp_chand(ctx, lanes, R, L, exact, eps_m, eps_a, maxiter):
    if L['st'] == 'bad':
        return {'what': 'driver reply', 'text': L['text']}
    if R['st'] != L['st']:
        return {'what': 'status', 'real': R['st'] + ' ' + R.get('kind', ''), 'model': L['st'] + ' ' + L.get('kind', '')}
    if R['st'] == 'err':
        return None if R['kind'] == L['kind'] else {'what': 'error kind', 'real': R['kind'], 'model': L['kind']}
    if exact:
        if R['iters'] != L['iters']:
            return {'what': 'iterations', 'real': R['iters'], 'model': L['iters']}
        d = first_diff(R['res'], L['res'], lanes)
        if d:
            return {'what': 'result bits', 'lane': d[0], 'real': d[1], 'model': d[2], 'spec': lanes[d[0]]}
        return None
    tols = chand_tols(lanes, eps_m, eps_a, maxiter, max(R['iters'], L['iters']))
    d = first_diff(R['res'], L['res'], lanes, tols)
    if d:
        return {'what': 'result beyond tolerance', 'lane': d[0], 'real': d[1], 'model': d[2], 'tol': tols[d[0]],
                'spec': lanes[d[0]]}
    if ctx is not None:
        ctx.count('chand:libm:bit-identical' if first_diff(R['res'], L['res'], lanes) is None
                  else 'chand:libm:within-tolerance')
    return None


def tie_scalar(ctx, lean):
    """scalar input: real scalar call vs the model's scalar branch (pow through libm: tolerance, bit-identity
    counted), and real scalar call vs real one-element vector."""
    rng = ctx.rng('scalar')
    bad = None
    for _ in range(40 * ctx.scale):
        exact = rng.random() < 0.7
        if rng.random() < 0.5:
            lane, pos = gen_lane(rng, EXACT_KINDS if exact else LIBM_KINDS, rng.choice([True, False, None]))
            stype = rng.choice(['pyfloat', 'np.float64'])
        else:       # integer-valued ends: every scalar representation of the bracket is exact
            lane, pos = gen_lane_int(rng, EXACT_KINDS if exact else LIBM_KINDS)
            stype = rng.choice(sorted(SCALAR_TYPES))
        ctx.count(f'scalar:type:{stype}')
        eps_m, eps_a, maxiter = rng.choice(CHAND_PARAMS)
        S = real_chand_scalar(lane, eps_m, eps_a, maxiter, stype)
        V = real_chand([lane], eps_m, eps_a, maxiter, dtype=STYPE_DTYPE[stype])
        L = lean_chand(lean, [lane], eps_m, eps_a, maxiter, scalar=True)
        ctx.case(('chands', eps_m, eps_a, maxiter, lane), nontrivial=(S.get('iters', 0) > 1))
        d = None
        if L['st'] == 'bad':
            d = {'what': 'driver reply', 'text': L['text']}
        elif not (S['st'] == V['st'] == L['st']):
            d = {'what': 'status', 'scalar': S['st'], 'vector': V['st'], 'model': L['st']}
        elif S['st'] == 'err':
            if not (S['kind'] == V['kind'] == L['kind']):
                d = {'what': 'error kind', 'scalar': S['kind'], 'vector': V['kind'], 'model': L['kind']}
        else:
            if S['shape'] != ():
                d = {'what': 'scalar input did not give a scalar', 'shape': S['shape']}
            t = chand_tols([lane], eps_m, eps_a, maxiter, max(S['iters'], V['iters'], L['iters']))[0]
            sv = same_bits(S['res'], float(V['res'][0])) and S['iters'] == V['iters']
            sl = same_bits(S['res'], L['res'][0]) and S['iters'] == L['iters']
            ctx.count('scalar-vs-vector:' + ('bit-identical' if sv else 'within-tolerance'))
            ctx.count('scalar-vs-model:' + ('bit-identical' if sl else 'within-tolerance'))
            if not abs(S['res'] - float(V['res'][0])) <= t:
                d = {'what': 'scalar vs one-element vector', 'scalar': S['res'], 'vector': float(V['res'][0]), 'tol': t}
            elif not abs(S['res'] - L['res'][0]) <= t:
                d = {'what': 'scalar vs model scalar branch', 'scalar': S['res'], 'model': L['res'][0], 'tol': t}
        if d and bad is None:
            bad = dict(d, lane=lane, eps_m=eps_m, eps_a=eps_a, maxiter=maxiter, scalar_type=stype)
    ctx.ob('corr:chandrupatla.scalar', bad is None, 'tie', bad or 'ok')


def tie_rejects(ctx, lean):
    rng = ctx.rng('rejects')
    badb = badc = None
    for _ in range(25 * ctx.scale):
        lanes = gen_batch(ctx, rng, True, rng.choice([1, 1, 2, 3, 8, 30]))
        lanes, how, i = corrupt(rng, lanes)
        ctx.count(f'malformed:{how}')
        Rb, Lb = real_bisect(lanes, None, None), lean_bisect(lean, lanes, None, None)
        Rc, Lc = real_chand(lanes, None, None, None), lean_chand(lean, lanes, None, None, None)
        ctx.case(('rejects', how, tuple(lanes)))
        ctx.count(f'bisect:malformed:{how}:{Rb["st"]}')
        ctx.count(f'chand:malformed:{how}:{Rc["st"]}')
        d = cmp_bisect(None, lanes, Rb, Lb, True, None, None)
        if d is None and Rb['st'] == 'err':
            # nothing was written before the assertion failed
            if not (all(same_bits(a, b) for a, b in zip(Rb['xa'], Rb['orig'][0])) and
                    all(same_bits(a, b) for a, b in zip(Rb['xb'], Rb['orig'][1]))):
                d = {'what': 'arrays modified although the call was rejected'}
        if d and badb is None:
            badb = dict(d, how=how, bad_lane=lanes[i], n=len(lanes))
        d = cmp_chand(None, lanes, Rc, Lc, True, None, None, None)
        if d and badc is None:
            badc = dict(d, how=how, bad_lane=lanes[i], n=len(lanes))
    # the UnboundLocalError of chandrupatla(maxiter=0) and the zero-lane calls
    for lanes, mi in [([('lin', 1.0, 0.3, 0.0, 1.0)], 0), ([], None), ([], 0)]:
        Rc, Lc = real_chand(lanes, None, None, mi), lean_chand(lean, lanes, None, None, mi)
        d = cmp_chand(None, lanes, Rc, Lc, True, None, None, mi)
        ctx.case(('rejects', 'chand-degenerate', len(lanes), mi))
        if d and badc is None:
            badc = dict(d, how='degenerate', n=len(lanes), maxiter=mi)
        Rb, Lb = real_bisect(lanes, None, mi), lean_bisect(lean, lanes, None, mi)
        d = cmp_bisect(None, lanes, Rb, Lb, True, None, mi)
        ctx.case(('rejects', 'bisect-degenerate', len(lanes), mi))
        if d and badb is None:
            badb = dict(d, how='degenerate', n=len(lanes), maxiter=mi)
    ctx.ob('corr:bisect.rejects', badb is None, 'tie', badb or 'ok')
    ctx.ob('corr:chandrupatla.rejects', badc is None, 'tie', badc or 'ok')


# ------------------------------------------------------------------------------ GaussianKDE.percent_point
def kde_datasets(nprng):
    return {
        'normal': nprng.normal(0.0, 1.0, 60),
        'bimodal': np.concatenate([nprng.normal(-3.0, 0.5, 40), nprng.normal(4.0, 1.0, 40)]),
        'skewed': nprng.exponential(2.0, 80) + 10.0,
        'small': nprng.normal(100.0, 0.01, 5),
        'bimodal-at-100': np.concatenate([nprng.normal(95.0, 1.0, 40), nprng.normal(105.0, 2.0, 40)]),
        'skewed-at-1e4': 1e4 + nprng.exponential(25.0, 80),
        'narrow-at-1e4': nprng.normal(1e4, 0.5, 30),
        # offset / spread 1e5 .. 1e7: NOT constant data, although all values agree to 5-7 digits
        'unit-at-1e6': 1e6 + nprng.normal(0.0, 1.0, 50),
        'sd40-at-2.5e7': 2.5e7 + nprng.normal(0.0, 40.0, 60),
        'sd0.01-at-1e3': 1e3 + nprng.normal(0.0, 0.01, 40),
        'negative-sd3-at--3e6': -3e6 + nprng.normal(0.0, 3.0, 40),
    }


def kde_probabilities(nprng, n):
    """probabilities that are exactly float32 numbers (so the float64 / float32 variants of U are the SAME
    numbers), bulk + tails + the 0 / 1 boundary values."""
    u = np.concatenate([nprng.uniform(0.001, 0.999, n), [1e-4, 1e-3, 0.5, 0.25, 1 - 1e-3, 1 - 1e-4, 0.0, 1.0]])
    nprng.shuffle(u)
    return np.float32(u).astype(float)


KDE_VARIANTS = ('float64-array', 'float32-array', 'float16-array', 'np.float32-scalar', 'np.float64-scalar',
                '0d-array', 'pyfloat', 'list')


def kde_variant_inputs(variant, u64):
    """list of (index set, U object) to call percent_point with."""
    inner = [i for i in range(len(u64)) if 0.0 < u64[i] < 1.0]
    if variant == 'float64-array':
        return [(list(range(len(u64))), u64.copy())]
    if variant == 'float32-array':
        return [(list(range(len(u64))), u64.astype(np.float32))]
    if variant == 'float16-array':      # only the values that are exactly float16 numbers
        idx = [i for i in range(len(u64)) if float(np.float16(u64[i])) == u64[i]]
        return [(idx, u64[idx].astype(np.float16))] if idx else []
    pick = inner[:3]
    if variant == 'np.float32-scalar':
        return [([i], np.float32(u64[i])) for i in pick]
    if variant == 'np.float64-scalar':
        return [([i], np.float64(u64[i])) for i in pick]
    if variant == '0d-array':
        return [([i], np.array(u64[i], dtype=np.float32)) for i in pick[:2]]
    if variant == 'pyfloat':
        return [([i], float(u64[i])) for i in pick[:1]]
    if variant == 'list':
        return [(pick, [float(u64[i]) for i in pick])]
    raise KeyError(variant)


def kde_oracle(name, data, u64, variants=KDE_VARIANTS, count=None):
    """`kde_model_oracle` on a FRESH GaussianKDE fitted on `data`."""
    from copulas.univariate import GaussianKDE
    kde = GaussianKDE()
    kde.fit(data)
    fails = kde_independent_oracle(kde, name, data, u64, count)
    if fails:       # the model is not the KDE of its data: its own cdf is no reference either
        return fails
    return kde_model_oracle(kde, name, u64, variants, count)


def kde_independent_oracle(kde, name, data, u64, count=None):
    """cdf(percent_point(u)) = u against an INDEPENDENT CDF (scipy.stats.gaussian_kde built from the same data, same
    default bandwidth rule) for the default solver and both named solvers: no exception, finite, inside
    [min - 5 std, max + 5 std], residual within max-density * x-tolerance (+ 2e-6 for the lower-tail constant the
    model subtracts).  Returns (class suffix, detail) list."""
    from scipy.stats import gaussian_kde
    data = np.asarray(data, dtype=float).ravel()
    ref = gaussian_kde(data)
    bw = float(np.sqrt(ref.covariance[0, 0]))
    slope = 1.0 / (bw * math.sqrt(2 * math.pi))
    lo, hi = float(data.min() - 5 * data.std()), float(data.max() + 5 * data.std())
    u = u64[(u64 > 1e-4 * 0.99) & (u64 < 1 - 1e-4 * 0.99)]
    out = []
    for method in (None, 'chandrupatla', 'bisect'):
        tag = 'default' if method is None else method
        kw = {} if method is None else {'method': method}
        bad = None
        try:
            x = np.asarray(kde.percent_point(u.copy(), **kw), dtype=float)
        except Exception as e:  # noqa
            bad = ('raises', {'error': repr(e)[:160]})
        if bad is None:
            ulp = float(np.spacing(max(abs(lo), abs(hi))))
            xtol = (1e-8 if method == 'bisect' else 1e-9 * (hi - lo)) + 8 * ulp
            if x.shape != u.shape or not np.isfinite(x).all():
                bad = ('non-finite', {'shape': list(x.shape), 'x': x[:3].tolist()})
            elif (x < lo - 4 * ulp).any() or (x > hi + 4 * ulp).any():
                i = int(np.argmax((x < lo - 4 * ulp) | (x > hi + 4 * ulp)))
                bad = ('outside-bounds', {'u': float(u[i]), 'x': float(x[i]), 'bounds': [lo, hi]})
            else:
                cdf = np.array([ref.integrate_box_1d(-np.inf, xi) for xi in x])
                err = np.abs(cdf - u)
                bound = slope * xtol + 2e-6
                if (err > bound).any():
                    i = int(np.argmax(err))
                    bad = ('residual', {'u': float(u[i]), 'x': float(x[i]), 'independent_cdf(x)': float(cdf[i]),
                                        'allowed': bound, 'data_min': float(data.min()), 'data_max': float(data.max())})
        if count:
            count(f'kde-independent:{tag}:' + ('ok' if not bad else 'FAILS'))
        if bad:
            out.append((f'{tag}:independent-cdf:{bad[0]}',
                        dict(bad[1], dataset=name, method=tag, offset_over_spread=float(abs(data.mean()) / max(data.std(), 1e-300)))))
    return out


def kde_model_oracle(kde, name, u64, variants=KDE_VARIANTS, count=None):
    """C18 through GaussianKDE.percent_point: for both solvers and every representation of the probabilities,
    every lane comes back inside the bracket and within the property's tolerance of the root of cdf(x) - u
    (reference: scipy brentq on the same function with u converted exactly to float64), 0 / 1 map to -inf / +inf,
    the output has the shape of the input, a lane solved alone agrees with the lane in the batch.
    Returns a list of (class suffix, detail)."""
    from scipy.optimize import brentq
    lower, upper = (float(v) for v in kde._get_bounds())
    width = upper - lower
    inner = (u64 > 1e-6) & (u64 < 1 - 1e-6)
    roots = np.full(len(u64), np.nan)
    try:
        for i in np.nonzero(inner)[0]:
            roots[i] = brentq(lambda x: float(kde.cumulative_distribution(np.array([x]))[0]) - u64[i], lower, upper,
                              xtol=1e-14, rtol=4 * EPS, maxiter=500)
    except Exception as e:  # noqa
        return [('model-bounds-do-not-bracket-its-cdf', {'dataset': name, 'bounds': [lower, upper], 'error': repr(e)[:160]})]
    with np.errstate(all='ignore'):
        pdf = np.asarray(kde.probability_density(np.where(inner, roots, lower)), dtype=float)
    scale = max(1.0, abs(lower), abs(upper))
    out = []
    passed64 = {}
    for method in ('chandrupatla', 'bisect'):
        base = 1e-8 if method == 'bisect' else 1e-9 * width
        tol = base + 8 * EPS * scale + 32 * EPS / np.maximum(pdf, 1e-300)
        for variant in variants:
            bad = None
            for idx, U in kde_variant_inputs(variant, u64):
                try:
                    x = kde.percent_point(U, method=method)
                except (AttributeError, TypeError) as e:
                    if variant in ('pyfloat', 'list'):
                        if count:
                            count(f'kde:{variant}:not-accepted({type(e).__name__})')
                        bad = 'skip'
                        break
                    bad = ('raises', {'error': repr(e)[:200]})
                    break
                except Exception as e:  # noqa
                    bad = ('raises', {'error': repr(e)[:200]})
                    break
                if np.shape(x) != np.shape(U):
                    bad = ('shape', {'input_shape': list(np.shape(U)), 'output_shape': list(np.shape(x))})
                    break
                xv = np.asarray(x, dtype=float).reshape(-1)
                for k, i in enumerate(idx):
                    u, xi = u64[i], float(xv[k])
                    if u == 0.0 or u == 1.0:
                        if xi != (-math.inf if u == 0.0 else math.inf):
                            bad = ('boundary', {'u': u, 'x': xi})
                        continue
                    if not inner[i]:
                        continue
                    if not (lower <= xi <= upper):
                        bad = ('outside-bounds', {'u': u, 'x': xi, 'bounds': [lower, upper]})
                        break
                    resid = float(kde.cumulative_distribution(np.array([xi]))[0]) - u
                    if not (abs(xi - roots[i]) <= tol[i] or resid == 0.0):
                        bad = ('not-within-tolerance', {'u': u, 'x': xi, 'root': float(roots[i]),
                                                        'error': abs(xi - roots[i]), 'allowed': float(tol[i]),
                                                        'bracket_width': width, 'residual': resid})
                        break
                if bad:
                    break
                if variant.endswith('-array') and len(idx) > 1:      # each lane as if it were alone
                    for k in sorted({0, len(idx) // 2, len(idx) - 1}):
                        i = idx[k]
                        if not inner[i]:
                            continue
                        alone = np.asarray(kde.percent_point(U[k:k + 1], method=method), dtype=float)
                        if not abs(float(alone[0]) - float(xv[k])) <= 2 * tol[i]:
                            bad = ('lane-vs-alone', {'u': u64[i], 'batch': float(xv[k]), 'alone': float(alone[0]),
                                                     'allowed': 2 * float(tol[i])})
                            break
                if bad:
                    break
            if bad == 'skip':
                continue
            if count:
                count(f'kde:{method}:{variant}:' + ('ok' if not bad else 'FAILS'))
            if variant == 'float64-array':
                passed64[method] = bad is None
            if bad:
                what, detail = bad
                detail = dict(detail, dataset=name, method=method, U_representation=variant)
                if variant != 'float64-array' and passed64.get(method):
                    # the same numbers as a float64 array pass: attributable to the representation of U
                    cls = f'{method}:{variant}-U:{what}'
                    detail['with_float64_U'] = 'passes'
                else:
                    cls = f'{method}:{what}'
                out.append((cls, detail))
    return out


HISTORIES = ('shifted-up', 'shifted-down', 'much-wider', 'much-narrower', 'inside', 'same-size-shifted')


def kde_history_data(nprng, how):
    """(A, B): the data of the first and of the second fit of ONE instance."""
    loc = float(nprng.choice([0.0, 100.0, -40.0, 1e4]))
    sd = float(nprng.choice([0.5, 1.0, 7.0]))
    A = nprng.normal(loc, sd, int(nprng.choice([20, 40, 60])))
    nB = len(A) if how == 'same-size-shifted' else int(nprng.choice([15, 40, 90]))
    if how in ('shifted-up', 'same-size-shifted'):
        B = nprng.normal(loc + sd * nprng.uniform(8, 60), sd, nB)
    elif how == 'shifted-down':
        B = nprng.normal(loc - sd * nprng.uniform(8, 60), sd, nB)
    elif how == 'much-wider':
        B = nprng.normal(loc, sd * nprng.uniform(20, 200), nB)
    elif how == 'much-narrower':
        B = nprng.normal(loc + sd * nprng.uniform(-1, 1), sd / nprng.uniform(20, 200), nB)
    else:
        B = nprng.normal(loc, sd * 0.8, nB)
    return A, B


def _seeded(seed, fn):
    """run fn with numpy's global generator seeded (a re-fit of a used GaussianKDE resamples through it -
    recorded under C19) and restore the generator afterwards."""
    st = np.random.get_state()
    np.random.seed(seed)
    try:
        return fn()
    finally:
        np.random.set_state(st)


def kde_history_oracle(A, B, u64, how, seed=0, count=None):
    """object-state histories of ONE GaussianKDE: fit(A) -> percent_point (both methods) -> fit(B) ->
    percent_point.  The reference is a FRESH GaussianKDE fitted on the data the instance holds after the second
    fit (`to_dict()['dataset']`; as found a used instance re-samples B to the size of A, which belongs to C19 and is
    thereby factored out): the re-fitted instance must not raise, must give the fresh model's answer (bit for bit,
    or within twice the solver tolerance) and must satisfy the root oracle itself.  The same for the states
    restored by from_dict, by pickle, and re-created by get_instance, each taken from a USED instance.
    Returns a list of (class suffix, detail)."""
    import pickle
    from copulas.univariate import GaussianKDE
    from copulas.utils import get_instance
    out = []
    u = u64[(u64 > 1e-6) & (u64 < 1 - 1e-6)]
    inst = GaussianKDE()
    try:
        inst.fit(A)
        for method in ('chandrupatla', 'bisect'):
            inst.percent_point(u.copy(), method=method)
        _seeded(seed, lambda: inst.fit(B))
    except Exception as e:  # noqa
        return [('fresh-model-raises', {'history': how, 'raises': repr(e)[:160], 'phase': 'fit(A), percent_point, fit(B)'})]
    now = np.array(inst.to_dict()['dataset'], dtype=float).ravel()    # (a re-sampled data set is stored 1 x n)
    fresh = GaussianKDE()
    fresh.fit(now)
    lower, upper = (float(v) for v in fresh._get_bounds())
    states = {'refitted': inst}

    def build(state, make):
        try:
            states[state] = make()
        except Exception as e:  # noqa
            out.append((f'chandrupatla:depends-on-state:{state}',
                        {'state': state, 'history': how, 'raises': repr(e)[:200],
                         'required': 'the state can be built and used like a fresh model'}))

    def clone():
        c = get_instance(inst)
        c.fit(now)
        return c

    def restored_used_refitted():    # restoring must not freeze a bracket either
        m = pickle.loads(pickle.dumps(fresh))
        m.percent_point(u.copy())
        _seeded(seed, lambda: m.fit(A))
        return m
    build('from_dict', lambda: GaussianKDE.from_dict(inst.to_dict()))
    build('pickle', lambda: pickle.loads(pickle.dumps(inst)))
    build('get_instance-clone', clone)
    build('restored-then-refitted', restored_used_refitted)
    for state, model in states.items():
        ref_model = fresh
        if state == 'restored-then-refitted':
            ref_model = GaussianKDE()
            ref_model.fit(np.array(model.to_dict()['dataset'], dtype=float).ravel())
        rl, ru = (float(v) for v in ref_model._get_bounds())
        for method in ('chandrupatla', 'bisect'):
            tol = (1e-8 if method == 'bisect' else 1e-9 * (ru - rl)) + 8 * EPS * max(1.0, abs(rl), abs(ru))
            try:
                want = np.asarray(ref_model.percent_point(u.copy(), method=method), dtype=float)
            except Exception as e:  # noqa
                out.append((f'{method}:fresh-model-raises', {'history': how, 'state': state, 'raises': repr(e)[:120],
                                                             'data_range': [rl, ru]}))
                continue
            cls = (f'{method}:depends-on-fit-history' if state in ('refitted', 'restored-then-refitted')
                   else f'{method}:depends-on-state:{state}')
            try:
                got = np.asarray(model.percent_point(u.copy(), method=method), dtype=float)
            except Exception as e:  # noqa
                out.append((cls, {'state': state, 'history': how, 'raises': repr(e)[:120], 'method': method,
                                  'bracket_of_current_data': [rl, ru],
                                  'required': 'valid probabilities are solved, as by a fresh model on the same data'}))
                if count:
                    count(f'kde-history:{how}:{state}:{method}:RAISES')
                continue
            same = np.array_equal(got, want)
            if count:
                count(f'kde-history:{state}:{method}:' + ('bit-identical' if same else 'differs'))
            d = np.abs(got - want)
            if not np.all(d <= 2 * tol):
                i = int(np.argmax(d))
                out.append((cls, {'state': state, 'history': how, 'method': method, 'u': float(u[i]),
                                  'x': float(got[i]), 'fresh_model_x': float(want[i]), 'allowed': 2 * tol,
                                  'bracket_of_current_data': [rl, ru]}))
    # and the re-fitted instance is a bracketed root finder in its own right
    for what, detail in kde_model_oracle(inst, f'refitted({how})', u64, ('float64-array', 'float32-array'), None):
        out.append((what.replace(':', ':refitted:', 1), dict(detail, history=how)))
    return out


def tie_kde(ctx):
    nprng = ctx.nprng('kde')
    bad = None
    for j, how in enumerate(HISTORIES):
        A, B = kde_history_data(nprng, how)
        u64 = kde_probabilities(nprng, 6)
        fails = kde_history_oracle(A, B, u64, how, seed=j, count=ctx.count)
        ctx.case(('kde-history', how, tuple(A.tolist()), tuple(B.tolist())))
        if fails and bad is None:
            bad = {'history': how, 'fail': fails[0]}
    for name, data in kde_datasets(nprng).items():
        u64 = kde_probabilities(nprng, 10)
        fails = kde_oracle(name, data, u64, count=ctx.count)
        ctx.case(('kde', name, tuple(u64.tolist())))
        if fails and bad is None:
            bad = {'dataset': name, 'fail': fails[0]}
    ctx.ob('corr:kde.percent_point', bad is None, 'tie', bad or 'ok')


# ------------------------------------------------------------------------------ the oracle (search)
def oracle_case(method, lanes, params):
    """C18 on the REAL function for one valid batch.  Returns a list of (class, observed, required)."""
    fails = []
    n = len(lanes)
    if method == 'bisect':
        tol, maxiter = params.get('tol'), params.get('maxiter')
        R = real_bisect(lanes, tol, maxiter, record=True, dtype=params.get('dtype'))
    else:
        R = real_chand(lanes, params.get('eps_m'), params.get('eps_a'), params.get('maxiter'), record=True,
                       dtype=params.get('dtype'))
    if R['st'] != 'ok':
        return [(f'{method}:valid-bracket-rejected', R.get('kind'), 'a valid bracket is solved')], R
    res = R['res']
    lo, hi = f64(R['orig'][0]), f64(R['orig'][1])
    # containment of the result and of every evaluation point
    inside = (res >= lo) & (res <= hi)
    if not inside.all():
        i = int(np.argmin(inside))
        fails.append((f'{method}:result-outside-bracket', {'lane': lanes[i], 'x': float(res[i])}, 'xmin <= x <= xmax'))
    for pts in R['f'].points:
        ins = (pts >= lo) & (pts <= hi)
        if not ins.all():
            i = int(np.argmin(ins))
            fails.append((f'{method}:evaluation-outside-bracket', {'lane': lanes[i], 'x': float(pts[i])},
                          'every evaluation point inside [xmin, xmax]'))
            break
    # closeness to the root.  The property's family is linear / cubic / saturating / exponential; the
    # piecewise-linear `kink` family stays in the tie but its misses (cap reached before convergence: the
    # `chandrupatla_converges_partial` clause) are only counted.
    fres = VecFn(lanes)(res)
    misses = {}
    lab = combo_label(method, params)
    for i, l in enumerate(lanes):
        t = asked_tol(method, l, params)
        if not (abs(float(res[i]) - lane_root(l)) <= t or float(fres[i]) == 0.0):
            if l[0] in ORACLE_KINDS:
                cls = f'{method}:not-within-tolerance:{l[0]}' + ('' if lab == 'defaults' else f':options={lab}')
                fails.append((cls,
                              {'lane': l, 'x': float(res[i]), 'root': lane_root(l), 'f(x)': float(fres[i]), 'n': n,
                               'iters': R['iters'], 'error_over_width': abs(float(res[i]) - lane_root(l)) / abs(l[4] - l[3]),
                               'options': {k: params[k] for k in ('tol', 'maxiter', 'eps_m', 'eps_a') if params.get(k) is not None}},
                              f'|x - root| <= {t:g} or f(x) == 0 (options the caller did not pass have their '
                              'documented defaults)'))
                break
            misses[l[0]] = misses.get(l[0], 0) + 1
    R['misses'] = misses
    return fails, R


def oracle_lanes(method, lanes, params, R, rng, budget):
    """each lane solved as if alone: (a) the solo answer is within the property's tolerance of the batch
    answer; (b) the batch's stopping time is the maximum of the solo stopping times; (c) lane i of the batch
    is BIT-identical to lane i solved together with only the slowest lane (same stopping time)."""
    fails = []
    n = len(lanes)
    if n < 2 or R['st'] != 'ok':
        return fails
    idx = list(range(n)) if n <= budget else sorted(rng.sample(range(n), budget))

    def call(ls):
        if method == 'bisect':
            return real_bisect(ls, params.get('tol'), params.get('maxiter'), dtype=params.get('dtype'))
        return real_chand(ls, params.get('eps_m'), params.get('eps_a'), params.get('maxiter'), dtype=params.get('dtype'))
    solos = {i: call([lanes[i]]) for i in idx}
    for i in idx:
        S = solos[i]
        if S['st'] != 'ok':
            fails.append((f'{method}:solo-rejected', {'lane': lanes[i]}, 'lane alone behaves like the lane in a batch'))
            return fails
        t = 2 * asked_tol(method, lanes[i], params)
        fx = float(VecFn([lanes[i]])(np.array([R['res'][i]]))[0])
        fs = float(VecFn([lanes[i]])(S['res'])[0])
        if lanes[i][0] not in ORACLE_KINDS:
            continue     # outside the property's family: covered by (b), (c) below only
        if not (abs(float(S['res'][0]) - float(R['res'][i])) <= t or (fx == 0.0 and fs == 0.0)):
            fails.append((f'{method}:solo-vs-batch', {'lane': lanes[i], 'solo': float(S['res'][0]),
                                                      'batch': float(R['res'][i]), 'n': n},
                          f'|solo - batch| <= {t:g}'))
            return fails
    if len(idx) == n:
        kmax = max(solos[i]['iters'] for i in idx)
        if kmax != R['iters']:
            fails.append((f'{method}:stopping-time', {'batch_iters': R['iters'], 'max_solo_iters': kmax, 'n': n,
                                                      'lanes': lanes if n <= 4 else None},
                          'the batch stops when its slowest lane stops'))
            return fails
        j = max(idx, key=lambda i: solos[i]['iters'])
        for i in idx:
            if i == j:
                continue
            P = call([lanes[i], lanes[j]])
            if P['st'] != 'ok' or P['iters'] != R['iters'] or not same_bits(float(P['res'][0]), float(R['res'][i])):
                fails.append((f'{method}:lane-independence',
                              {'lane': lanes[i], 'slowest': lanes[j], 'pair': P.get('res', [None])[0] if P['st'] == 'ok' else P['st'],
                               'batch': float(R['res'][i]), 'n': n},
                              'lane i with the slowest lane alone == lane i in the full batch (bit for bit)'))
                return fails
    return fails


def oracle_invalid(method, lanes, how):
    """an invalid bracket must raise.  The class `…:reversed` is reserved for exactly the recorded situation:
    every invalid lane has xmin > xmax with sign(f(xmin)) * sign(f(xmax)) <= 0; any other accepted invalid
    bracket gets its own class."""
    if method == 'bisect':
        R = real_bisect(lanes, None, None)
    else:
        R = real_chand(lanes, None, None, None)
    if R['st'] != 'ok':
        return []
    lo, hi = arrays(lanes)
    f = VecFn(lanes)
    flo, fhi = f(lo), f(hi)
    invalid = [i for i in range(len(lanes)) if not (flo[i] <= 0.0 <= fhi[i])]
    only_reversed = bool(invalid) and all(lo[i] > hi[i] and np.sign(flo[i]) * np.sign(fhi[i]) <= 0 for i in invalid)
    what = 'reversed' if only_reversed else f'other({how})'
    return [(f'{method}:invalid-bracket-accepted:{what}',
             {'returned': R['res'].tolist()[:4], 'n': len(lanes),
              'invalid_lanes': [lanes[i] for i in invalid[:3]]}, 'an invalid bracket raises an error')]


PRECISION_CLASSES = ('not-within-tolerance', 'solo-vs-batch', 'stopping-time', 'lane-independence')


def oracle_dtype(method, lanes, params, rng, budget):
    """the oracle on brackets handed over in another dtype (`params['dtype']`).  A failure that disappears when
    the SAME numbers are handed over as float64 is attributed to the bracket dtype and gets the dedicated class
    `<method>:integer-bracket-dtype-truncates` / `<method>:float32-bracket-dtype-tolerance` (loss of precision:
    closeness / solo-vs-batch / stopping time) or `<orig>:dtype=<dtype>` (anything else); a failure that persists
    with float64 brackets keeps its ordinary class."""
    fails, R = oracle_case(method, lanes, params)
    if not fails:
        fails = oracle_lanes(method, lanes, params, R, rng, budget)
    dtype = params.get('dtype')
    if not fails or dtype in (None, 'float64'):
        return fails, R
    p64 = {k: v for k, v in params.items() if k != 'dtype'}
    f64fails, R64 = oracle_case(method, lanes, p64)
    if not f64fails:
        f64fails = oracle_lanes(method, lanes, p64, R64, rng, budget)
    if f64fails:
        return fails, R
    out = []
    for cls, obs, req in fails:
        core = cls.split(':')[1] if ':' in cls else cls
        if core in PRECISION_CLASSES:
            new = (f'{method}:integer-bracket-dtype-truncates' if dtype.startswith('int')
                   else f'{method}:float32-bracket-dtype-tolerance')
        else:
            new = f'{cls}:dtype={dtype}'
        o = dict(obs) if isinstance(obs, dict) else {'observed': obs}
        o.update({'bracket_dtype': dtype, 'oracle_class': cls, 'with_float64_brackets': 'passes'})
        out.append((new, o, req + f' (brackets given as {dtype}; the same brackets as float64 pass)'))
    return out, R


def oracle_scalar(lane, stype):
    """scalar chandrupatla input in the representation `stype`: a scalar comes back, inside the bracket, within
    tolerance of the root (or an exact zero), and equal (within tolerance) to the one-element vector call."""
    fails = []
    S = real_chand_scalar(lane, None, None, None, stype)
    V = real_chand([lane], None, None, None, dtype=STYPE_DTYPE[stype])
    t = prop_tol('chandrupatla', lane)
    if S['st'] != 'ok':
        return [(f'chandrupatla:scalar:{stype}:valid-bracket-rejected', S.get('kind'), 'a valid bracket is solved')]
    x = S['res']
    fx = float(ScalarFn(lane)(x))
    if S['shape'] != ():
        fails.append((f'chandrupatla:scalar:{stype}:not-a-scalar', {'shape': list(S['shape'])}, 'scalar in, scalar out'))
    if not (lane[3] <= x <= lane[4]):
        fails.append((f'chandrupatla:scalar:{stype}:result-outside-bracket', {'lane': lane, 'x': x}, 'xmin <= x <= xmax'))
    if lane[0] in ORACLE_KINDS and not (abs(x - lane_root(lane)) <= t or fx == 0.0):
        fails.append((f'chandrupatla:scalar:{stype}:not-within-tolerance',
                      {'lane': lane, 'x': x, 'root': lane_root(lane), 'f(x)': fx, 'scalar_type': stype},
                      f'|x - root| <= {t:g} or f(x) == 0'))
    if V['st'] != 'ok' or not abs(x - float(V['res'][0])) <= 2 * t:
        fails.append((f'chandrupatla:scalar:{stype}:scalar-vs-vector',
                      {'lane': lane, 'scalar': x, 'vector': V.get('res', [None])[0] if V['st'] == 'ok' else V['st']},
                      'scalar input behaves like a one-element vector'))
    return fails


def oracle_position(method, lanes, k, rng):
    """one slow lane at index k among easy lanes: containment / closeness of every lane, and the slow lane solved
    as if it were alone - the batch stops when IT stops, so the batch runs as many bodies as the slow lane alone
    and returns the same bits for it; sampled easy lanes agree with their solo run within tolerance."""
    fails, R = oracle_case(method, lanes, {})
    if fails:
        return fails

    def call(ls):
        return real_bisect(ls, None, None) if method == 'bisect' else real_chand(ls, None, None, None)
    S = call([lanes[k]])
    easy = [call([lanes[i]]) for i in rng.sample([i for i in range(len(lanes)) if i != k], 6)]
    if S['st'] != 'ok' or any(e['st'] != 'ok' for e in easy):
        return [(f'{method}:solo-rejected', {'lane': lanes[k]}, 'lane alone behaves like the lane in a batch')]
    if S['iters'] >= max(e['iters'] for e in easy) and True:
        if R['iters'] != S['iters']:
            return [(f'{method}:stopping-time',
                     {'batch_iters': R['iters'], 'slow_lane_solo_iters': S['iters'], 'n': len(lanes), 'slow_lane_at': k,
                      'lane': lanes[k]}, 'the batch stops when its slowest lane stops')]
        if not same_bits(float(S['res'][0]), float(R['res'][k])):
            return [(f'{method}:lane-independence',
                     {'lane': lanes[k], 'solo': float(S['res'][0]), 'batch': float(R['res'][k]), 'n': len(lanes),
                      'slow_lane_at': k}, 'the slowest lane in a batch == the lane alone (bit for bit)')]
    return []


def oracle_shared_table(method, lanes, rounds=3):
    """one float64 bracket table shared by several solves (the way a caller keeps its bracket arrays): after every
    solve the table is untouched bit for bit, no round rejects the (valid) brackets, every round returns the roots
    of the first round bit for bit."""
    from copulas.optimize import bisect, chandrupatla
    fn = bisect if method == 'bisect' else chandrupatla
    lo, hi = arrays(lanes)
    lo0, hi0 = lo.copy(), hi.copy()
    first = None
    for k in range(rounds):
        f = VecFn(lanes)
        try:
            with np.errstate(all='ignore'):
                res = np.array(fn(f, lo, hi), dtype=float)
        except Exception as e:  # noqa
            return [(f'{method}:shared-bracket-table:round-{min(k + 1, 2)}-rejected',
                     {'round': k + 1, 'raises': repr(e)[:120], 'n': len(lanes),
                      'xmin_now': lo[:3].tolist(), 'xmin_given': lo0[:3].tolist(), 'lane': lanes[0]},
                     'a valid bracket table can be solved again')]
        if not (lo.dtype == lo0.dtype and all(same_bits(a, b) for a, b in zip(lo, lo0)) and
                all(same_bits(a, b) for a, b in zip(hi, hi0))):
            i = next(i for i in range(len(lanes)) if not (same_bits(lo[i], lo0[i]) and same_bits(hi[i], hi0[i])))
            return [(f'{method}:shared-bracket-table:brackets-modified',
                     {'round': k + 1, 'lane': lanes[i], 'bracket_given': [float(lo0[i]), float(hi0[i])],
                      'bracket_after': [float(lo[i]), float(hi[i])], 'n': len(lanes)},
                     "the caller's xmin / xmax arrays are not written")]
        if first is None:
            first = res
        elif not all(same_bits(a, b) for a, b in zip(res, first)):
            i = next(i for i in range(len(lanes)) if not same_bits(res[i], first[i]))
            return [(f'{method}:shared-bracket-table:rounds-differ',
                     {'round': k + 1, 'lane': lanes[i], 'first': float(first[i]), 'now': float(res[i])},
                     'solving the same table again gives the same roots')]
    return []


SCALAR_FORM_TYPES = ('pyfloat', 'pyint', 'np.float64', 'np.int64', '0d-float64')


def _form_problems(x):
    """what a scalar root must be usable as: the clean tree returns np.float64."""
    import json
    bad = []
    if isinstance(x, np.ndarray):
        bad.append(f'is an ndarray of shape {x.shape}')
    if not isinstance(x, float):
        bad.append(f'{type(x).__name__} is not a float')
    if np.ndim(x) != 0:
        bad.append(f'ndim {np.ndim(x)}')
    if type(x) is not np.float64:
        bad.append(f'type {type(x).__name__}, not numpy.float64')
    for what, fn in (('format(x, ".6f")', lambda: format(x, '.6f')), ('json.dumps(x)', lambda: json.dumps(x)),
                     ('hash(x)', lambda: hash(x))):
        try:
            fn()
        except Exception as e:  # noqa
            bad.append(f'{what} raises {type(e).__name__}')
    return bad


def oracle_form(lane, maxiter=None, count=None):
    """output form.  Scalar brackets (Python float, Python int, np.float64, np.int64, 0-d float64 array) of
    chandrupatla give back a scalar np.float64 - an instance of float, ndim 0, not an ndarray, formattable,
    JSON-serialisable, hashable - whose value is lane 0 of the one-element-vector call; vector calls of both solvers
    (float64 and integer bracket arrays) give back a float64 ndarray of the shape of the brackets.  `lane` must have
    integer-valued ends.  (bisect does not accept scalar brackets as found: counted.)"""
    from copulas.optimize import bisect, chandrupatla
    fails = []
    kw = {} if maxiter is None else {'maxiter': maxiter}
    conv = {'pyfloat': float, 'pyint': int, 'np.float64': np.float64, 'np.int64': np.int64,
            '0d-float64': lambda v: np.array(float(v))}
    with np.errstate(all='ignore'):
        vec = chandrupatla(VecFn([lane]), *arrays([lane]), **kw)
    for st in SCALAR_FORM_TYPES:
        try:
            with np.errstate(all='ignore'):
                x = chandrupatla(ScalarFn(lane), conv[st](lane[3]), conv[st](lane[4]), **kw)
        except Exception as e:  # noqa
            fails.append((f'chandrupatla:scalar:{st}:valid-bracket-rejected', {'lane': lane, 'raises': repr(e)[:120]},
                          'a valid scalar bracket is solved'))
            continue
        bad = _form_problems(x)
        if bad:
            fails.append((f'chandrupatla:scalar:{st}:output-form',
                          {'lane': lane, 'returned': repr(x)[:80], 'type': type(x).__name__, 'problems': bad,
                           'options': kw},
                          'a scalar bracket gives back a scalar numpy.float64 (as the unchanged code does), usable as a float'))
            continue
        if not same_bits(float(x), float(vec[0])):
            # the scalar branch squares through libm pow: an ulp-level branch flip is legitimate, a real
            # difference is not
            t = 2 * asked_tol('chandrupatla', lane, kw)
            if count:
                count('form:scalar-differs-from-vector-within-tolerance(pow path)')
            if not abs(float(x) - float(vec[0])) <= t:
                fails.append((f'chandrupatla:scalar:{st}:scalar-vs-vector',
                              {'lane': lane, 'scalar': float(x), 'vector': float(vec[0])},
                              'scalar input behaves like a one-element vector'))
    # bisect with scalar brackets: not accepted as found (AttributeError / TypeError): counted only
    for st in ('pyfloat', 'np.float64', '0d-float64'):
        try:
            with np.errstate(all='ignore'):
                x = bisect(ScalarFn(lane), conv[st](lane[3]), conv[st](lane[4]), **kw)
            if count:
                count(f'form:bisect-scalar:{st}:accepted')
            bad = _form_problems(x)
            if bad:
                fails.append((f'bisect:scalar:{st}:output-form', {'lane': lane, 'returned': repr(x)[:80], 'problems': bad},
                              'a scalar bracket gives back a scalar numpy.float64'))
        except (AttributeError, TypeError) as e:
            if count:
                count(f'form:bisect-scalar:{st}:not-accepted({type(e).__name__})')
    # vector calls
    for method, fn in (('bisect', bisect), ('chandrupatla', chandrupatla)):
        for dt in ('float64', 'int64', 'int32'):
            for n in (1, 3):
                lo, hi = arrays([lane] * n, dt)
                try:
                    with np.errstate(all='ignore'):
                        r = fn(VecFn([lane] * n), lo, hi, **kw)
                except Exception as e:  # noqa
                    fails.append((f'{method}:valid-bracket-rejected:dtype={dt}', {'lane': lane, 'raises': repr(e)[:120]},
                                  'a valid bracket is solved'))
                    continue
                if not (isinstance(r, np.ndarray) and r.dtype == np.float64 and r.shape == lo.shape):
                    fails.append((f'{method}:vector-output-form',
                                  {'lane': lane, 'bracket_dtype': dt, 'n': n, 'type': type(r).__name__,
                                   'dtype': str(getattr(r, 'dtype', None)), 'shape': list(np.shape(r)), 'options': kw},
                                  'a bracket vector gives back a float64 ndarray of the same shape'))
    return fails


def search(ctx, deep):
    rng = ctx.rng('search')
    nb = 40 * (10 if deep else 1)
    checked = found = 0
    misses = {}

    def report(method, lanes, params, fails, extra=None):
        nonlocal found
        for cls, obs, req in fails:
            found += 1
            inp = {'method': method, 'params': params, 'lanes': lanes if len(lanes) <= 8 else None,
                   'n': len(lanes)}
            if extra:
                inp.update(extra)
            if len(lanes) > 8:     # keep the replay self-contained but small: the offending lane(s)
                o = obs if isinstance(obs, dict) else {}
                if o.get('invalid_lanes'):
                    inp['lanes'] = list(o['invalid_lanes'])
                elif o.get('lane') and o.get('slowest'):
                    inp['lanes'] = [o['lane'], o['slowest']]
                elif o.get('lane'):
                    inp['lanes'] = [o['lane']]
                else:
                    inp['lanes'] = lanes[:8]
                inp['truncated'] = True
            ctx.fail_input(f'copulas.optimize.{method}', inp, obs, req, cls)
    for b in range(nb):
        exact = rng.random() < 0.6
        n = rng.choice(LANE_COUNTS_QUICK + ([300, 1000] if deep or b == 0 else []))
        lanes = gen_batch(ctx, rng, exact, n)
        for method in ('bisect', 'chandrupatla'):
            params = {}
            fails, R = oracle_case(method, lanes, params)
            checked += 1
            for k, c in (R.get('misses') or {}).items():
                misses[f'{method}:{k}'] = misses.get(f'{method}:{k}', 0) + c
                ctx.count(f'search:{method}:not-within-tolerance(counted only):{k}', c)
            if not fails:
                fails = oracle_lanes(method, lanes, params, R, rng, 12 if not deep else 40)
                checked += 1
            report(method, lanes, params, fails)
        # scalar == one-element vector
        lane = lanes[rng.randrange(n)]
        stype = rng.choice(['pyfloat', 'np.float64'])
        checked += 1
        report('chandrupatla', [lane], {'scalar': stype}, oracle_scalar(lane, stype))
        # malformed
        bl, how, i = corrupt(rng, lanes if n <= 40 else lanes[:40])
        for method in ('bisect', 'chandrupatla'):
            checked += 1
            report(method, bl, {}, oracle_invalid(method, bl, how), {'invalid': how})
    # option combinations (eps_m only / eps_a only / both / neither / maxiter; tol / maxiter) on narrow brackets
    # near zero and on wide brackets with slowly converging functions
    orng = ctx.rng('search-options')
    for b in range(len(CHAND_OPTIONS) * 2 * (8 if deep else 1)):
        lanes = gen_options_batch(ctx, orng, orng.choice([1, 2, 3, 5, 8, 17, 60] + ([300] if deep else [])))
        eps_m, eps_a, maxiter = CHAND_OPTIONS[b % len(CHAND_OPTIONS)]
        tol, bmaxiter = BISECT_OPTIONS[b % len(BISECT_OPTIONS)]
        for method, params in (('chandrupatla', {'eps_m': eps_m, 'eps_a': eps_a, 'maxiter': maxiter}),
                               ('bisect', {'tol': tol, 'maxiter': bmaxiter})):
            params = {k: v for k, v in params.items() if v is not None}
            fails, R = oracle_case(method, lanes, params)
            checked += 1
            if not fails:
                fails = oracle_lanes(method, lanes, params, R, orng, 8 if not deep else 24)
                checked += 1
            ctx.count(f'search:options:{method}:{combo_label(method, params)}:' + ('ok' if not fails else 'FAILS'))
            report(method, lanes, params, fails)
    # lane counts around the multiples of 256 with one slow lane at the first / middle / last position
    prng = ctx.rng('search-position')
    for rep_ in range(3 if deep else 1):
        for n in POSITION_COUNTS:
            for where in ('first', 'middle', 'last'):
                lanes, k = gen_position_batch(ctx, prng, n, where)
                for method in ('chandrupatla', 'bisect'):
                    checked += 1
                    fails = oracle_position(method, lanes, k, prng)
                    ctx.count(f'search:position:{method}:{where}:' + ('ok' if not fails else 'FAILS'))
                    for cls, obs, req in fails:
                        o = obs if isinstance(obs, dict) else {}
                        keep = [o['lane']] if o.get('lane') else [lanes[k]]
                        found += 1
                        # self-contained replay: the batch is regenerated from (n, where, seed path); the lane is kept
                        ctx.fail_input(f'copulas.optimize.{method}',
                                       {'method': method, 'params': {'position': where}, 'n': n, 'slow_lane_at': k,
                                        'lanes': [list(l) for l in lanes] if n <= 300 else keep, 'truncated': n > 300},
                                       obs, req, cls)
    # one bracket table shared by repeated solves; output form of scalar and vector calls
    frng = ctx.rng('search-form')
    for b in range(12 * (8 if deep else 1)):
        lanes = gen_batch(ctx, frng, True, frng.choice([1, 2, 3, 8, 40])) if b % 2 else \
            gen_options_batch(ctx, frng, frng.choice([1, 2, 5, 17]))
        for method in ('bisect', 'chandrupatla'):
            checked += 1
            fails = oracle_shared_table(method, lanes, 3 if b % 3 else 2)
            ctx.count(f'search:shared-table:{method}:' + ('ok' if not fails else 'FAILS'))
            report(method, lanes, {'shared_table': 3 if b % 3 else 2}, fails)
        lane, pos = gen_lane_int(frng, ORACLE_KINDS)
        mi = [None, None, 1, 2, 100][b % 5]
        checked += 1
        fails = oracle_form(lane, mi, ctx.count)
        ctx.count('search:output-form:' + ('ok' if not fails else 'FAILS'))
        for cls, obs, req in fails:
            report(cls.split(':')[0], [lane], {'form': True, 'maxiter': mi}, [(cls, obs, req)])
    # brackets in other representations: float32 / int64 / int32 arrays, scalars of every type
    drng = ctx.rng('search-dtype')
    for b in range(len(DTYPE_STREAM) * 4 * (10 if deep else 1)):
        exact = drng.random() < 0.6
        n = 1000 if (b == 7 or (deep and b % 41 == 0)) else drng.choice(LANE_COUNTS_QUICK)
        lanes, dtype, tag = gen_dtype_batch(ctx, drng, exact, n, DTYPE_STREAM[b % len(DTYPE_STREAM)])
        for method in ('bisect', 'chandrupatla'):
            params = {'dtype': dtype}
            fails, R = oracle_dtype(method, lanes, params, drng, 12 if not deep else 40)
            checked += 1
            ctx.count(f'search:dtype:{method}:{tag}:' + ('ok' if not fails else 'FAILS'))
            report(method, lanes, params, fails)
    for b in range(15 * (10 if deep else 1)):
        stype = sorted(SCALAR_TYPES)[b % len(SCALAR_TYPES)]
        lane, pos = gen_lane_int(drng, ORACLE_KINDS)
        checked += 1
        ctx.count(f'search:scalar:{stype}')
        report('chandrupatla', [lane], {'scalar': stype}, oracle_scalar(lane, stype))
    # GaussianKDE.percent_point
    nprng = ctx.nprng('search-kde')
    for rep in range(3 if deep else 1):
        for name, data in kde_datasets(nprng).items():
            u64 = kde_probabilities(nprng, 120 if deep else 25)
            fails = kde_oracle(name, data, u64, count=ctx.count)
            checked += 1
            for what, detail in fails:
                found += 1
                ctx.fail_input('GaussianKDE.percent_point',
                               {'dataset': data.tolist(), 'U': u64.tolist(), 'detail': detail}, detail,
                               'every lane of percent_point(U, method) is inside the bracket and within the solver '
                               'tolerance of the root of cdf(x) - U, whatever the representation of U',
                               f'kde.percent_point:{what}')
    for rep_ in range(4 if deep else 1):
        for j, how in enumerate(HISTORIES):
            A, B = kde_history_data(nprng, how)
            u64 = kde_probabilities(nprng, 40 if deep else 10)
            fails = kde_history_oracle(A, B, u64, how, seed=j + 10 * rep_, count=ctx.count)
            checked += 1
            for what, detail in fails:
                found += 1
                ctx.fail_input('GaussianKDE.percent_point',
                               {'history': ['fit(A)', 'percent_point(U, chandrupatla)', 'percent_point(U, bisect)',
                                            'fit(B)', 'percent_point(U, method)'], 'how': how, 'A': A.tolist(),
                                'B': B.tolist(), 'U': u64.tolist(), 'seed': j + 10 * rep_, 'detail': detail}, detail,
                               'percent_point of a re-fitted / restored / cloned GaussianKDE equals a fresh model '
                               'fitted on the same data and never rejects valid probabilities',
                               f'kde.percent_point:{what}')
    ctx.support = {'oracle_checks': checked, 'failures': found, 'deep': deep,
                   'tolerance_misses_outside_property_family(counted only)': misses}


def replay(ctx, payload):
    inp = payload.get('input', {})
    cls = payload.get('class', '')
    lanes = [tuple(l) for l in (inp.get('lanes') or [])]
    if cls.startswith('kde.') and inp.get('A') is not None:
        return bool(kde_history_oracle(np.array(inp['A']), np.array(inp['B']), np.array(inp['U'], dtype=float),
                                       inp.get('how', '?'), seed=int(inp.get('seed', 0))))
    if cls.startswith('kde.'):
        data = np.array(inp['dataset'])
        u64 = np.array(inp['U'], dtype=float) if inp.get('U') else np.float32(np.linspace(0.01, 0.99, 25)).astype(float)
        return bool(kde_oracle('replay', data, u64))
    method = inp.get('method', 'bisect')
    if not lanes:
        return False
    if inp.get('invalid'):
        return bool(oracle_invalid(method, lanes, inp['invalid']))
    if (inp.get('params') or {}).get('position') and not inp.get('truncated') and inp.get('slow_lane_at') is not None:
        return bool(oracle_position(method, lanes, int(inp['slow_lane_at']), ctx.rng('replay')))
    if (inp.get('params') or {}).get('position'):
        return bool(oracle_case(method, lanes, {})[0])
    if (inp.get('params') or {}).get('shared_table'):
        return bool(oracle_shared_table(method, lanes, int(inp['params']['shared_table'])))
    if (inp.get('params') or {}).get('form'):
        return bool(oracle_form(lanes[0], inp['params'].get('maxiter')))
    if (inp.get('params') or {}).get('scalar'):
        st = inp['params']['scalar']
        return bool(oracle_scalar(lanes[0], st if st in SCALAR_TYPES else 'pyfloat'))
    params = {k: v for k, v in (inp.get('params') or {}).items()}
    fails, R = oracle_dtype(method, lanes, params, ctx.rng('replay'), 40)
    return any(c == cls for c, _, _ in fails) or bool(fails)
