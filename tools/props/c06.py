"""C06 — Clayton, Frank and Gumbel CDFs are genuine Archimedean copulas."""
import math

import numpy as np

import vcommon as vc
from props import bivlib as B

GEN_TARGETS = ('Bivariate',)
DRIVER_MAIN = 'Main/Biv.lean'
DRIVER_TARGETS = ['CopVerif.Driver.Biv']
ALWAYS_SEARCH = True
RULE = ('translation validation: generated Lean definitions (cdf, generator) evaluated at Float vs the real '
        'methods on theta grid + random theta in the |tau|<=0.8 ranges, batches of 0..64 rows drawn from the '
        'boundary set {0,1e-12,1e-4,.5,1-1e-4,1-1e-12,1} x random interior points, shortcut-triggering '
        'compositions and invalid thetas; a case is distinct by (family, method, theta, rows) and non-trivial '
        'when the batch is non-empty')
PARTIAL = ['Props/C06b: the Gumbel (and Clayton) closed forms extend continuously by 0 to the boundary u = 0 / v = 0 (one-sided limits, ContinuousOn the closed square); the value of the real formula AT 0 is a totalisation artefact (gumbel_formula_at_zero_is_junk); the IEEE evaluation there stays a Float-level tie',
           'two_increasing / frechet_lower: proved only where listed in Props/C06.lean',
           'theta_ordered: not proved (search-supported only)',
           'gumbel cdf_zero: boundary u=0 or v=0 goes through IEEE log(0)=-inf; Float-level tie only']
ASSUMPTIONS = ['real-number semantics of binary64 formulas (DESIGN 3.1)',
               'numpy elementwise ops = per-row scalar ops']


def run(ctx, lean):
    n = 6 * ctx.scale
    for fam in B.FAMS:
        B.tv_method(ctx, lean, fam, 'cdf', 'closed', n)
        tv_generator(ctx, lean, fam, n)
        tv_checkfit(ctx, lean, fam)


def tv_generator(ctx, lean, fam, n):
    rng = ctx.rng('gen', fam)
    name = f'tv:{fam}.generator'
    if lean is None:
        return ctx.ob(name, False, 'tie', 'driver unavailable')
    bad = None
    for th in B.theta_grid(fam) + [B.theta_random(fam, rng) for _ in range(n)]:
        # t >= 1e-4: below that exp(-theta t)-1 cancels and a 1-ulp libm difference is amplified to ~1e-4 relative
        ts = [rng.choice([1e-4, 0.5, 1 - 1e-12, 1.0]) if rng.random() < 0.3 else rng.uniform(1e-4, 1) for _ in range(6)]
        r1 = B.real_call(fam, 'gen', th, ts)
        r2 = B.lean_call(lean, fam, 'gen', th, ts)
        if fam == 'clayton' and r1[0] == 'err':
            # Clayton.generator calls check_fit; Gen.Clayton.generatorChecksFit records it
            continue
        d = B.compare(r1, r2, 1e-9, 1e-12)
        ctx.case((fam, 'gen', th, tuple(ts)))
        if d and bad is None:
            bad = {'theta': th, 't': ts, 'diff': d}
    ctx.ob(name, bad is None, 'tie', bad or 'ok')


def tv_checkfit(ctx, lean, fam):
    name = f'corr:{fam}.check_fit'
    if lean is None:
        return ctx.ob(name, False, 'tie', 'driver unavailable')
    bad = None
    for th in B.theta_grid(fam) + B.theta_invalid(fam) + [float('inf'), -float('inf'), -1.0, 0.5, 1.0, 1e-300]:
        c = B.make(fam, th)
        try:
            c.check_fit()
            r1 = 'ok'
        except Exception as e:  # noqa
            r1 = 'err ' + vc.exc_kind(e)
        r2 = lean.ask(f'biv checkfit {fam} {vc.f2h(th)}')
        ctx.case((fam, 'checkfit', repr(th)))
        if r1 != r2 and bad is None:
            bad = {'theta': th, 'real': r1, 'model': r2}
    ctx.ob(name, bad is None, 'tie', bad or 'ok')


# ------------------------------------------------------------------------ oracle on the real code
def cdf(c, pts):
    with np.errstate(all='ignore'):
        return np.asarray(c.cumulative_distribution(np.array(pts, dtype=float).reshape(-1, 2)), dtype=float)


def search(ctx, deep):
    rng = ctx.rng('search')
    n_theta = 10 * (6 if deep else 1)
    found = 0
    checked = 0
    for fam in B.FAMS:
        thetas = B.theta_all(fam) + [B.theta_random(fam, rng) for _ in range(n_theta)]
        for th in thetas:
            c = B.make(fam, th)

            def bad(kind, inp, obs, req):
                nonlocal found
                found += 1
                cls = f'{fam}.cdf:{kind}'
                if fam == 'gumbel' and th == 1.0:
                    cls += ':theta=1'
                ctx.fail_input(f'{fam}.cumulative_distribution', dict(inp, theta=th), obs, req, cls)
            try:
                grid = [rng.random() for _ in range(8)] + [1e-12, 1e-4, 0.5, 1 - 1e-4, 1 - 1e-12]
                # boundary
                for u in grid + [0.0, 1.0]:
                    checked += 4
                    vals = cdf(c, [(u, 0.0), (0.0, u), (u, 1.0), (1.0, u)])
                    if not (abs(vals[0]) <= 1e-12 and abs(vals[1]) <= 1e-12):
                        bad('boundary0', {'u': u}, vals[:2].tolist(), 'C(u,0)=C(0,u)=0')
                    if not (abs(vals[2] - u) <= 1e-7 * max(u, 1e-3) + 1e-13 and abs(vals[3] - u) <= 1e-7 * max(u, 1e-3) + 1e-13):
                        bad('boundary1', {'u': u}, vals[2:].tolist(), 'C(u,1)=C(1,u)=u')
                pts = [(u, v) for u in grid for v in grid]
                vals = cdf(c, pts)
                sw = cdf(c, [(v, u) for u, v in pts])
                for (u, v), a, b in zip(pts, vals, sw):
                    checked += 1
                    tol = 1e-9 + 1e-7 * min(u, v)
                    if not (a == a and abs(a - b) <= 1e-12 * max(1, abs(a))):
                        bad('symmetry', {'u': u, 'v': v}, [a, b], 'C(u,v)=C(v,u)')
                    if not (max(u + v - 1, 0) - tol <= a <= min(u, v) + tol):
                        bad('frechet', {'u': u, 'v': v}, a, 'max(u+v-1,0) <= C <= min(u,v)')
                # generator identity on the interior
                with np.errstate(all='ignore'):
                    for (u, v), a in zip(pts, vals):
                        if 1e-3 < u < 1 - 1e-3 and 1e-3 < v < 1 - 1e-3 and a > 1e-6:
                            checked += 1
                            g = np.asarray(c.generator(np.array([a, u, v])), dtype=float)
                            if not abs(g[0] - (g[1] + g[2])) <= 1e-6 * max(1.0, abs(g[1] + g[2])):
                                bad('archimedean', {'u': u, 'v': v}, g.tolist(), 'phi(C)=phi(u)+phi(v)')
                    # ... and deep in the lower corner (the quantifier reaches 1e-12; Frank's CDF underflows there)
                    if fam != 'frank':
                        for a_ in (1e-12, 1e-9, 1e-6):
                            for b_ in (1e-12, 1e-6, 1e-3):
                                cv = float(cdf(c, [(a_, b_)])[0])
                                if cv > 0:
                                    checked += 1
                                    g = np.asarray(c.generator(np.array([cv, a_, b_])), dtype=float)
                                    if np.all(np.isfinite(g[1:])) and not abs(g[0] - (g[1] + g[2])) <= 1e-6 * abs(g[1] + g[2]):
                                        bad('archimedean', {'u': a_, 'v': b_}, g.tolist(), 'phi(C)=phi(u)+phi(v) (lower corner)')
                    g1 = float(np.asarray(c.generator(np.array([1.0])))[0])
                    if not abs(g1) <= 1e-12:
                        bad('generator1', {}, g1, 'generator(1)=0')
                    ts = np.array(sorted(rng.uniform(1e-3, 1) for _ in range(12)))
                    gs = np.asarray(c.generator(ts), dtype=float)
                    if not np.all(np.diff(gs) <= 1e-12 * np.abs(gs[:-1]) + 1e-15):
                        bad('generator-decreasing', {'t': ts.tolist()}, gs.tolist(), 'generator decreasing')
                # the `cdf` alias (an observe-at entry point) is cumulative_distribution
                Xa = np.array([(rng.random(), rng.random()) for _ in range(6)] + [(0.0, 0.3), (1.0, 0.7), (1e-12, 1 - 1e-12)])
                with np.errstate(all='ignore'):
                    a1 = np.asarray(c.cumulative_distribution(Xa.copy()), dtype=float)
                    a2 = np.asarray(c.cdf(Xa.copy()), dtype=float)
                checked += 1
                if not np.array_equal(a1, a2, equal_nan=True):
                    bad('alias-cdf-differs', {'rows': Xa.tolist()}, {'cumulative_distribution': a1.tolist(), 'cdf': a2.tolist()},
                        'cdf is a shortcut to cumulative_distribution')
                # rectangle volumes
                for _ in range(30):
                    u1, u2 = sorted((rng.random(), rng.random()))
                    v1, v2 = sorted((rng.random(), rng.random()))
                    if rng.random() < 0.3:
                        u1 = rng.choice([0.0, 1e-12, 1e-4])
                    if rng.random() < 0.3:
                        v2 = rng.choice([1.0, 1 - 1e-12])
                    r = cdf(c, [(u2, v2), (u1, v2), (u2, v1), (u1, v1)])
                    vol = r[0] - r[1] - r[2] + r[3]
                    checked += 1
                    if not vol >= -1e-9:
                        bad('2-increasing', {'rect': [u1, u2, v1, v2]}, float(vol), 'C-volume >= 0')
                # row independence
                rows = B.batch(rng, 'closed')
                if rows:
                    whole = cdf(c, rows)
                    solo = np.array([cdf(c, [r])[0] for r in rows])
                    perm = list(range(len(rows)))
                    rng.shuffle(perm)
                    sh = cdf(c, [rows[i] for i in perm])
                    checked += 1
                    same = all((a == b) or (a != a and b != b) for a, b in zip(whole, solo)) and \
                        all((whole[i] == s) or (whole[i] != whole[i] and s != s) for i, s in zip(perm, sh))
                    if not same:
                        bad('row-independence', {'rows': rows}, {'batch': whole.tolist(), 'solo': solo.tolist()},
                            'row i of a batch = the row evaluated alone')
            except Exception as e:  # noqa  -- every admissible theta must be served
                bad('raises', {}, f'{vc.exc_kind(e)}: {e}'[:200], 'the CDF and generator are defined for every admissible theta')
        # theta ordering
        ths = sorted(set(B.theta_all(fam) + [B.theta_random(fam, rng) for _ in range(6)]))
        pts = [(rng.uniform(0.02, 0.98), rng.uniform(0.02, 0.98)) for _ in range(25)]
        prev = None
        for th in ths:
            try:
                cur = cdf(B.make(fam, th), pts)
            except Exception:  # noqa  (reported above as `raises`)
                continue
            if prev is not None:
                checked += 1
                if not np.all(cur >= prev[1] - 1e-9):
                    i = int(np.argmin(cur - prev[1]))
                    ctx.fail_input(f'{fam}.cumulative_distribution', {'theta_lo': prev[0], 'theta_hi': th, 'uv': pts[i]},
                                   [float(prev[1][i]), float(cur[i])], 'C_theta pointwise non-decreasing in theta',
                                   f'{fam}.cdf:theta-order')
            prev = (th, cur)
    # refusal: an unfitted model (theta None) or an inadmissible theta is refused by every entry point exactly as
    # check_fit() refuses it — same exception type — whatever the batch looks like (interior rows, a column that is
    # all zero, a single boundary row, an empty batch)
    from copulas.bivariate import Bivariate
    batches = {'interior': np.array([[0.3, 0.6], [0.7, 0.2]]), 'zero-column': np.array([[0.0, 0.4], [0.0, 0.9]]),
               'zero-v-column': np.array([[0.4, 0.0], [0.2, 0.0]]), 'single-boundary-row': np.array([[0.0, 0.5]]),
               'ones': np.array([[1.0, 1.0]]), 'empty': np.zeros((0, 2))}
    for fam in B.FAMS:
        makers = {'constructor': lambda: B.cls_of(fam)(), 'factory': lambda: Bivariate(copula_type=fam),
                  'from_dict-unfitted': lambda: Bivariate.from_dict(B.cls_of(fam)().to_dict())}
        states = [(name, None) for name in makers] + [('constructor', th) for th in B.theta_invalid(fam) + [float('-inf')]]
        for route, th in states:
            obj = makers[route]()
            if th is not None:
                obj.theta = th
            try:
                obj.check_fit()
                continue            # admissible after all: nothing to refuse
            except Exception as e:  # noqa
                want = vc.exc_kind(e)
            for bname, Xb in batches.items():
                for m in ('cumulative_distribution', 'cdf'):
                    checked += 1
                    try:
                        with np.errstate(all='ignore'):
                            out = getattr(obj, m)(Xb.copy())
                        got = 'returned ' + repr(np.asarray(out).tolist())[:80]
                    except Exception as e:  # noqa
                        got = vc.exc_kind(e)
                    if got != want:
                        found += 1
                        ctx.fail_input(f'{fam}.{m}', {'theta': None if th is None else (th if th == th else 'nan'), 'route': route, 'batch': bname,
                                                         'rows': Xb.tolist()}, got,
                                       f'refused like check_fit() ({want}) for every batch', f'{fam}.{m}:refusal-differs-from-check_fit')
                        break
                else:
                    continue
                break
    # near the lower boundary but not on it: coordinates of magnitude 1e-7 .. 1e-12 are ordinary arguments — the
    # uniform-margin identities C(u,1) = u, C(1,v) = v hold to 1e-3 relative plus the absolute rounding of the family's
    # own formula (Frank: -log(1+x)/theta carries an absolute error of order eps/|theta|; Clayton and Gumbel are exact
    # to 1e-13 relative there) and C(u, 1/2) lies in [0, u]
    tiny = np.array([1e-7, 5e-8, 1e-9, 3e-5])
    for fam in B.FAMS:
        for th in B.theta_all(fam):
            us = np.array([u for u in tiny if not (fam == 'clayton' and th * -math.log10(u) > 290)])
            if not len(us):
                continue
            c = B.make(fam, th)
            slack = 1e-11 + (1e-14 / abs(th) if fam == 'frank' else 0.0)
            checked += 1
            try:
                with np.errstate(all='ignore'):
                    a = np.asarray(c.cumulative_distribution(np.column_stack([us, np.ones_like(us)])), dtype=float)
                    b = np.asarray(c.cumulative_distribution(np.column_stack([np.ones_like(us), us])), dtype=float)
                    d = np.asarray(c.cumulative_distribution(np.column_stack([us, np.full_like(us, 0.5)])), dtype=float)
            except Exception as e:  # noqa
                found += 1
                ctx.fail_input(f'{fam}.cumulative_distribution', {'theta': th, 'u': us.tolist()}, f'{vc.exc_kind(e)}: {e}',
                               'evaluates near the lower boundary', f'{fam}.cumulative_distribution:raises-near-boundary')
                continue
            for name, arr in (('C(u,1)', a), ('C(1,u)', b)):
                if not np.all(np.abs(arr - us) <= 1e-3 * us + slack):
                    found += 1
                    ctx.fail_input(f'{fam}.cumulative_distribution', {'theta': th, 'u': us.tolist(), 'identity': name}, arr.tolist(),
                                   'uniform margins: C(u,1) = u and C(1,u) = u to 1e-3 relative (+ formula rounding) for u in [1e-9, 1e-4]',
                                   f'{fam}.cumulative_distribution:margin-near-lower-boundary')
                    break
            if not (np.all(d >= 0) and np.all(d <= us * (1 + 1e-6) + slack)):
                found += 1
                ctx.fail_input(f'{fam}.cumulative_distribution', {'theta': th, 'u': us.tolist(), 'v': 0.5}, d.tolist(),
                               '0 <= C(u, 1/2) <= u', f'{fam}.cumulative_distribution:frechet-near-lower-boundary')
    # positive arguments far below 1e-9 are still arguments, not zero: Clayton and Gumbel evaluate C(u,1) = u to 1e-9
    # relative down to the smallest normal numbers (Frank's -log(1+x)/theta cannot: absolute error eps/|theta|)
    for fam in ('clayton', 'gumbel'):
        for th in B.theta_all(fam):
            us = np.array([u for u in (5e-13, 1e-15, 1e-100, 1e-300) if not (fam == 'clayton' and th * -math.log10(u) > 290)])
            if not len(us):
                continue
            c = B.make(fam, th)
            checked += 1
            with np.errstate(all='ignore'):
                a = np.asarray(c.cumulative_distribution(np.column_stack([us, np.ones_like(us)])), dtype=float)
                b = np.asarray(c.cumulative_distribution(np.column_stack([np.ones_like(us), us])), dtype=float)
            for name, arr in (('C(u,1)', a), ('C(1,u)', b)):
                if not np.all(np.abs(arr - us) <= 1e-9 * us):
                    found += 1
                    ctx.fail_input(f'{fam}.cumulative_distribution', {'theta': th, 'u': us.tolist(), 'identity': name}, arr.tolist(),
                                   'uniform margins hold for every positive u: C(u,1) = C(1,u) = u to 1e-9 relative',
                                   f'{fam}.cumulative_distribution:margin-tiny-positive-argument')
                    break
    # batch size: a long batch (longer than any internal block, lengths just above powers of two, with runs of boundary
    # rows inside it) gives row i the value the same row gets in a short batch
    for fam in B.FAMS:
        th = B.theta_grid(fam)[len(B.theta_grid(fam)) // 2] if fam != 'gumbel' else 2.5
        c = B.make(fam, th)
        for n in (257, 1025, 4097, 5000):
            rs = np.random.RandomState(n)
            X = rs.uniform(1e-4, 1 - 1e-4, size=(n, 2))
            k = n // 3
            X[:256, 1] = 0.0            # an aligned run of (u, 0) rows ...
            X[256:256 + min(k, 300), 1] = 1.0   # ... followed by (u, 1) rows
            X[-1] = [0.37, 0.81]        # a recognisable last row
            checked += 1
            with np.errstate(all='ignore'):
                whole = np.asarray(c.cumulative_distribution(X.copy()), dtype=float)
                pieces = np.concatenate([np.asarray(c.cumulative_distribution(X[i:i + 61].copy()), dtype=float) for i in range(0, n, 61)])
            if whole.shape != (n,) or not (whole.shape == pieces.shape and np.allclose(whole, pieces, rtol=1e-12, atol=1e-300, equal_nan=True)):
                i = int(np.argmax(~np.isclose(whole, pieces, rtol=1e-12, atol=1e-300, equal_nan=True))) if whole.shape == pieces.shape else -1
                found += 1
                ctx.fail_input(f'{fam}.cumulative_distribution', {'theta': th, 'n': n, 'generator': 'RandomState(n).uniform + 256 rows (u,0) + rows (u,1)',
                                                                 'row': i, 'row_values': X[i].tolist() if i >= 0 else None},
                               {'whole_batch': float(whole[i]) if i >= 0 else list(whole.shape), 'in_pieces_of_61': float(pieces[i]) if i >= 0 else list(pieces.shape)},
                               'the value of row i does not depend on the batch it is evaluated in', f'{fam}.cumulative_distribution:batch-size-dependent')
                break
    # purity: a call leaves the caller's array as it was, returns memory of its own, and an earlier result does not
    # change when the same or another object of the family is called again on an equally shaped batch
    for fam in B.FAMS:
        for th in B.theta_all(fam)[:6] + ([1.0] if fam == 'gumbel' else []):
            Xa = np.array([[B.point(rng, 'open'), B.point(rng, 'open')] for _ in range(5)])
            Xb = np.array([[B.point(rng, 'open'), B.point(rng, 'open')] for _ in range(5)])
            for m in ('cumulative_distribution',):
                for label, other in (('same-object', None), ('other-object', lambda: B.make(fam, th))):
                    checked += 1
                    try:
                        probs = B.purity_problems(lambda: B.make(fam, th), m, [Xa], [Xb], other)
                    except Exception as e:  # noqa
                        probs = [('raises', f'{vc.exc_kind(e)}: {e}')]
                    # that the caller's array is untouched and not handed back as a view is C20's subject (its check
                    # reports those); here: the VALUES a caller holds or gets do not depend on other calls
                    probs = [(k, d) for k, d in probs if k not in ('input-mutated', 'result-aliases-input')]
                    for kind, detail in probs:
                        found += 1
                        ctx.fail_input(f'{fam}.{m}', {'theta': th, 'first_batch': Xa.tolist(), 'second_batch': Xb.tolist(),
                                                         'second_call_on': label}, detail,
                                       'an earlier result keeps its values and a repeated call gives the same values, whatever was called in between', f'{fam}.{m}:{kind}')
                    if probs:
                        break
    # parameter forms: an integer-typed theta (Python int, np.int64, np.int32, 0-d array) is the same parameter as the
    # equal float
    for fam in B.FAMS:
        ints = {'clayton': [1, 2, 5], 'gumbel': [1, 2, 3, 5], 'frank': [-3, 1, 4]}[fam]
        pts_f = np.array([(0.2, 0.7), (0.55, 0.4), (0.9, 0.95), (0.05, 0.3)])
        for k in ints:
            forms = {'int': int(k), 'np.int64': np.int64(k), 'np.int32': np.int32(k),
                     '0-d array': np.array(float(k))}
            with np.errstate(all='ignore'):
                ref = {m: np.asarray(getattr(B.make(fam, float(k)), m)(pts_f.copy() if m != 'generator' else np.array([0.2, 0.6, 0.9])),
                                     dtype=float) for m in ('cumulative_distribution', 'generator')}
            for name, val in forms.items():
                checked += 1
                for m in ('cumulative_distribution', 'generator'):
                    try:
                        with np.errstate(all='ignore'):
                            got = np.asarray(getattr(B.make(fam, val), m)(pts_f.copy() if m != 'generator' else np.array([0.2, 0.6, 0.9])),
                                             dtype=float)
                    except Exception as e:  # noqa
                        got = None
                        obs = f'{vc.exc_kind(e)}: {e}'[:160]
                    tol = 1e-6 if name == 'np.float32' else 1e-12
                    if got is None or got.shape != ref[m].shape or not np.all(np.abs(got - ref[m]) <= tol * np.maximum(1.0, np.abs(ref[m]))):
                        found += 1
                        ctx.fail_input(f'{fam}.{m}', {'theta': float(k), 'theta_given_as': name},
                                       obs if got is None else {'with_this_form': got.tolist(), 'with_float': ref[m].tolist()},
                                       'the result depends on the VALUE of theta, not on the numeric type it is stored in',
                                       f'{fam}.{m}:depends-on-theta-type[{name}]')
                        break
    # history: one object re-parameterised / re-fitted several times must behave like a fresh object
    for fam in B.FAMS:
        obj = B.cls_of(fam)()
        pts = [(rng.uniform(0.05, 0.95), rng.uniform(0.05, 0.95)) for _ in range(6)]
        for step in range(6 if not deep else 20):
            th = B.theta_random(fam, rng)
            if rng.random() < 0.5:
                obj.theta = th
                how = 'assign'
            else:
                # fit on data whose Kendall tau calibrates to (about) th
                tau = min(max(B.tau_of(fam, th), -0.8 if fam == 'frank' else 0.05), 0.8)
                rho = np.sin(np.pi * tau / 2)
                z = ctx.nprng('hist', fam, step).multivariate_normal([0, 0], [[1, rho], [rho, 1]], size=60)
                from scipy.stats import norm
                try:
                    obj.fit(norm.cdf(z))
                except ValueError:
                    continue
                th = obj.theta
                how = 'fit'
            fresh = B.make(fam, th)
            checked += 1
            with np.errstate(all='ignore'):
                a = np.asarray(obj.cumulative_distribution(np.array(pts)), dtype=float)
                b = np.asarray(fresh.cumulative_distribution(np.array(pts)), dtype=float)
                ga = np.asarray(obj.generator(np.array([0.3, 0.7])), dtype=float)
                gb = np.asarray(fresh.generator(np.array([0.3, 0.7])), dtype=float)
            if not (np.array_equal(a, b, equal_nan=True) and np.array_equal(ga, gb, equal_nan=True)):
                found += 1
                ctx.fail_input(f'{fam}.cumulative_distribution', {'history_step': step, 'how': how, 'theta': th, 'points': pts},
                               {'reused_object': a.tolist(), 'fresh_object': b.tolist()},
                               'C depends only on (theta, u, v): a re-parameterised object equals a fresh one',
                               f'{fam}.cdf:history-dependence')
                break
    ctx.support = {'oracle_checks': checked, 'failures': found, 'deep': deep}


def replay(ctx, payload):
    before = len(ctx.failing)
    search(ctx, True)
    return any(f['class'] == payload.get('class') for f in ctx.failing[before:])
