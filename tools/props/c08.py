"""C08 — percent_point inverts the conditional CDF of every bivariate copula."""
import numpy as np

import vcommon as vc
from props import bivlib as B

GEN_TARGETS = ('Bivariate',)
DRIVER_MAIN = 'Main/Biv.lean'
DRIVER_TARGETS = ['CopVerif.Driver.Biv']
ALWAYS_SEARCH = True
RULE = ('Clayton: translation validation of the generated closed-form percent_point at Float vs the real method; '
        'Frank/Gumbel: real percent_point (brentq) vs the generated loop run with a Lean bisection on the generated '
        'h at Float (|du| <= 1e-8 or both residuals <= 1e-10); theta grid + random theta with |tau|<=0.8, (y,v) in '
        '[1e-4,1-1e-4]^2, vectors of 1..12; error kinds for invalid theta; distinct by (family, theta, rows)')
PARTIAL = ['Props/C08b closes the Frank bracket clause: h(EPSILON, v) <= y on the whole property domain (|theta| <= 20, y >= 1e-4), with the exact iff; for Gumbel the exact region where the root lies below the bracket (contained in y*v < EPSILON) and a kernel-checked witness inside the domain (theta = 4, y = v = 1e-4) = the recorded finding',
           'bracket_valid: that the root lies above the lower bracket end EPSILON=2^-23 is a hypothesis of '
           'frank/gumbel_generic_ppf_correct; it is FALSE for Gumbel near (y,v)=(1e-4,1e-4), theta>~3 (known finding)',
           'brentq accuracy: external hypothesis (returns a root within xtol=2e-12)']
ASSUMPTIONS = ['scipy.optimize.brentq returns a root of a continuous function with a sign change in the bracket']
EPS = B.EPS


def resid(fam, th, u, y, v):
    c = B.make(fam, th)
    with np.errstate(all='ignore'):
        return float(c.partial_derivative(np.array([[u, v]]))[0]) - y


def below_bracket(fam, th, y, v):
    """the root of h(.,v)=y lies below the code's lower bracket end"""
    return resid(fam, th, EPS, y, v) > 0


def run(ctx, lean):
    n = 5 * ctx.scale
    B.tv_method(ctx, lean, 'clayton', 'ppf', 'open', 2 * n)
    for fam in ('frank', 'gumbel'):
        name = f'corr:{fam}.percent_point~generated-loop(bisection)'
        if lean is None:
            ctx.ob(name, False, 'tie', 'driver unavailable')
            continue
        rng = ctx.rng('ppf', fam)
        bad = None
        for th in B.theta_grid(fam) + [B.theta_random(fam, rng) for _ in range(n)]:
            rows = [(B.point(rng, 'open'), B.point(rng, 'open')) for _ in range(rng.choice([1, 2, 4]))]
            rows = [r for r in rows if not below_bracket(fam, th, *r)]
            if not rows:
                continue
            r1 = B.real_call(fam, 'ppf', th, rows)
            r2 = B.lean_call(lean, fam, 'ppf', th, rows)
            ctx.case((fam, 'ppf', th, tuple(rows)))
            ctx.count(f'{fam}.ppf.{r1[0]}')
            d = None
            if r1[0] != r2[0] or r1[0] != 'ok' or len(r1[1]) != len(r2[1]):
                d = f'real {r1} vs model {r2}'
            else:
                for (y, v), a, b in zip(rows, r1[1], r2[1]):
                    if abs(a - b) <= 1e-8:
                        continue
                    if abs(resid(fam, th, a, y, v)) <= 1e-10 and abs(resid(fam, th, b, y, v)) <= 1e-10:
                        ctx.count(f'{fam}.ppf.flat-root')
                        continue
                    d = f'(y,v)=({y},{v}): real {a!r} model {b!r}'
            if d and bad is None:
                bad = {'theta': th, 'rows': rows, 'diff': d}
        # invalid theta => same error kind
        for th in B.theta_invalid(fam):
            r1 = B.real_call(fam, 'ppf', th, [(0.3, 0.6)])
            r2 = B.lean_call(lean, fam, 'ppf', th, [(0.3, 0.6)])
            ctx.case((fam, 'ppf', 'invalid', repr(th)))
            if (r1[0] != r2[0] or (r1[0] == 'err' and r1[1] != r2[1])) and bad is None:
                bad = {'theta': th, 'diff': f'real {r1} vs model {r2}'}
        ctx.ob(name, bad is None, 'tie', bad or 'ok')


def search(ctx, deep):
    rng = ctx.rng('search')
    n_theta = 5 * (5 if deep else 1)
    checked = found = 0
    for fam in B.FAMS:
        # Frank near independence: a valid non-zero theta of tiny magnitude (set directly or restored, never fitted)
        tiny = [1e-9, -1e-8, 5e-8, -1.1e-7, 1e-6, -1e-5] if fam == 'frank' else []
        for th in B.theta_all(fam) + tiny + [B.theta_random(fam, rng) for _ in range(n_theta)]:
            c = B.make(fam, th)
            rtol = 1e-6 if abs(th) < 1e-4 else 1e-8     # the conditional CDF itself loses digits as theta -> 0
            n = rng.choice([1, 3, 10, 40] if not deep else [1, 3, 10, 200])
            corner = [(1e-4, 1e-4), (1e-4, 1 - 1e-4), (1 - 1e-4, 1e-4), (1 - 1e-4, 1 - 1e-4)]
            rows = [(B.point(rng, 'open'), B.point(rng, 'open')) for _ in range(n)] + corner
            y = np.array([r[0] for r in rows])
            v = np.array([r[1] for r in rows])

            def bad(kind, inp, obs, req):
                nonlocal found
                found += 1
                ctx.fail_input(f'{fam}.percent_point', dict(inp, theta=th), obs, req, f'{fam}.percent_point:{kind}')
            # each lane alone (also isolates lanes whose root is below the bracket)
            solo = []
            for yi, vi in rows:
                checked += 1
                try:
                    with np.errstate(all='ignore'):
                        ui = float(c.percent_point(np.array([yi]), np.array([vi]))[0])
                except Exception as e:  # noqa
                    kind = 'root-below-bracket' if (fam != 'clayton' and below_bracket(fam, th, yi, vi)) else 'raises'
                    bad(kind, {'y': yi, 'v': vi}, f'{vc.exc_kind(e)}: {e}', 'returns u in [0,1] with h(u,v)=y')
                    solo.append(None)
                    continue
                solo.append(ui)
                r = resid(fam, th, ui, yi, vi)
                if not (0 <= ui <= 1):
                    bad('range', {'y': yi, 'v': vi}, ui, 'u in [0,1]')
                elif not abs(r) <= rtol:
                    bad('residual', {'y': yi, 'v': vi}, {'u': ui, 'h-y': r}, f'|h(u,v)-y| <= {rtol}')
            ok_idx = [i for i, s in enumerate(solo) if s is not None]
            if ok_idx:
                with np.errstate(all='ignore'):
                    whole = np.asarray(c.percent_point(y[ok_idx], v[ok_idx]), dtype=float)
                checked += 1
                for k, i in enumerate(ok_idx):
                    if not abs(whole[k] - solo[i]) <= 1e-12:
                        bad('lane-dependence', {'rows': [rows[j] for j in ok_idx][:6], 'lane': k},
                            [float(whole[k]), solo[i]], 'output i depends only on (y_i, v_i)')
                        break
            # monotone in y
            vv = B.point(rng, 'open')
            ys = sorted(B.point(rng, 'open') for _ in range(8))
            ys = [t for t in ys if fam == 'clayton' or not below_bracket(fam, th, t, vv)]
            if len(ys) > 1:
                with np.errstate(all='ignore'):
                    us = np.asarray(c.percent_point(np.array(ys), np.full(len(ys), vv)), dtype=float)
                checked += 1
                if np.any(np.diff(us) < -1e-9):
                    bad('not-monotone-in-y', {'v': vv, 'ys': ys}, us.tolist(), 'non-decreasing in y')
    # history: one object re-parameterised / re-fitted and asked the same (y, v) again = a fresh object
    for fam in B.FAMS:
        obj = B.cls_of(fam)()
        y = np.array([0.2, 0.5, 0.9, 0.35])
        v = np.array([0.6, 0.3, 0.8, 0.35])
        for step in range(5 if not deep else 15):
            th = B.theta_random(fam, rng)
            if fam == 'gumbel' and th > 3:
                th = 2.5
            obj.theta = th
            fresh = B.make(fam, th)
            checked += 1
            try:
                with np.errstate(all='ignore'):
                    a = np.asarray(obj.percent_point(y, v), dtype=float)
                    b = np.asarray(fresh.percent_point(y, v), dtype=float)
            except Exception as e:  # noqa
                continue
            if not np.array_equal(a, b, equal_nan=True):
                found += 1
                ctx.fail_input(f'{fam}.percent_point', {'history_step': step, 'theta': th, 'y': y.tolist(), 'v': v.tolist()},
                               {'reused_object': a.tolist(), 'fresh_object': b.tolist()},
                               'percent_point depends only on (theta, y, v)', f'{fam}.percent_point:history-dependence')
                break
    # containers: "vectors of any length" — the same numbers handed over as list, tuple, Series with a default, a
    # permuted, an offset (sliced) or a string index must give the same element-wise (positional) answer as ndarrays.
    # A container the UNCHANGED code does not serve at all for a family is only counted.
    import pandas as pd
    for fam in B.FAMS:
        th = B.theta_grid(fam)[3] if fam != 'gumbel' else 2.0
        c = B.make(fam, th)
        yv = np.array([0.2, 0.55, 0.9, 0.35, 0.7])
        vv = np.array([0.6, 0.3, 0.8, 0.35, 0.15])
        with np.errstate(all='ignore'):
            ref = np.asarray(c.percent_point(yv, vv), dtype=float)
        n = len(yv)
        long_y = pd.Series(np.concatenate([[0.11, 0.12, 0.13], yv]))
        long_v = pd.Series(np.concatenate([[0.21, 0.22, 0.23], vv]))
        forms = {
            'list': (list(yv), list(vv)), 'tuple': (tuple(yv), tuple(vv)),
            'series-default': (pd.Series(yv), pd.Series(vv)),
            'series-permuted-index': (pd.Series(yv, index=[3, 1, 0, 4, 2]), pd.Series(vv, index=[3, 1, 0, 4, 2])),
            'series-offset-index': (long_y.iloc[3:], long_v.iloc[3:]),
            'series-string-index': (pd.Series(yv, index=list('abcde')), pd.Series(vv, index=list('abcde'))),
            'series-y-only': (pd.Series(yv, index=[4, 3, 2, 1, 0]), vv),
            'series-v-only': (yv, pd.Series(vv, index=[4, 3, 2, 1, 0])),
            'float32': (yv.astype(np.float32).astype(float), vv.astype(np.float32).astype(float)),
        }
        for name, (yy, vv_) in forms.items():
            checked += 1
            if name == 'float32':
                with np.errstate(all='ignore'):
                    want = np.asarray(c.percent_point(np.asarray(yy), np.asarray(vv_)), dtype=float)
                yy, vv_ = np.asarray(yy, dtype=np.float32), np.asarray(vv_, dtype=np.float32)
                # Clayton's closed form computes in the precision of its input; the Brent families solve in binary64
                # whatever the storage type of the probabilities, so there the answer is the float64 answer
                tol = 1e-6 if fam == 'clayton' else 1e-12
            else:
                want, tol = ref, 0.0
            try:
                with np.errstate(all='ignore'):
                    got = np.asarray(c.percent_point(yy, vv_), dtype=float).ravel()
            except Exception as e:  # noqa
                ctx.count(f'container:{fam}:{name}:unsupported({vc.exc_kind(e)})')
                if name.startswith('series'):
                    # Series are served by the unchanged code for every family: raising is a failure
                    found += 1
                    ctx.fail_input(f'{fam}.percent_point', {'theta': th, 'container': name, 'y': list(map(float, yv)), 'v': list(map(float, vv))},
                                   f'{vc.exc_kind(e)}: {e}'[:200], 'a Series of probabilities is served element-wise by position',
                                   f'{fam}.percent_point:container-dependent[{name}]')
                continue
            ctx.count(f'container:{fam}:{name}')
            if not (got.shape == want.shape and np.all(np.abs(got - want) <= tol)):
                found += 1
                ctx.fail_input(f'{fam}.percent_point', {'theta': th, 'container': name, 'y': list(map(float, yv)), 'v': list(map(float, vv))},
                               {'got': got.tolist(), 'ndarray_answer': want.tolist()},
                               'the i-th output depends only on (y[i], v[i]) whatever the container', f'{fam}.percent_point:container-dependent[{name}]')
    # a finely resolved quantile curve: consecutive, nearly equal probabilities (relative step 1e-7) at one v are each
    # inverted on their own — same residual bound as anywhere else, same values as when asked one by one or reversed
    for fam in B.FAMS:
        for th in B.theta_all(fam)[:4]:
            c = B.make(fam, th)
            for y0, v0 in ((0.3, 0.6), (0.72, 0.25)):
                ys = y0 * (1 + 1e-7 * np.arange(12))
                vs = np.full(12, v0) * (1 + 1e-9 * np.arange(12))
                checked += 1
                try:
                    with np.errstate(all='ignore'):
                        fwd = np.asarray(c.percent_point(ys.copy(), vs.copy()), dtype=float)
                        rev = np.asarray(c.percent_point(ys[::-1].copy(), vs[::-1].copy()), dtype=float)[::-1]
                        solo = np.array([float(np.asarray(c.percent_point(ys[i:i + 1].copy(), vs[i:i + 1].copy())).ravel()[0]) for i in range(12)])
                except Exception as e:  # noqa
                    ctx.count(f'fine-grid:{fam}:raises({vc.exc_kind(e)})')
                    continue
                res = np.array([resid(fam, th, fwd[i], ys[i], vs[i]) for i in range(12)])
                if not (np.all(np.abs(fwd - solo) <= 1e-12) and np.all(np.abs(rev - solo) <= 1e-12) and np.all(np.abs(res) <= 1e-8)):
                    found += 1
                    ctx.fail_input(f'{fam}.percent_point', {'theta': th, 'y': ys.tolist(), 'v': vs.tolist()},
                                   {'batch': fwd.tolist(), 'reversed_batch': rev.tolist(), 'one_by_one': solo.tolist(), 'max|h-y|': float(np.max(np.abs(res)))},
                                   'output i depends only on (y_i, v_i): nearly equal neighbours are each inverted on their own',
                                   f'{fam}.percent_point:lane-dependence')
                    break
    # batch size (closed-form family): vectors longer than any internal block, lengths 4096k+1 included
    for th in B.theta_all('clayton')[:3]:
        c = B.make('clayton', th)
        for n in (257, 4097, 5000, 8193):
            rs = np.random.RandomState(n)
            ys, vs = rs.uniform(1e-3, 1 - 1e-3, n), rs.uniform(1e-3, 1 - 1e-3, n)
            checked += 1
            with np.errstate(all='ignore'):
                whole = np.asarray(c.percent_point(ys.copy(), vs.copy()), dtype=float)
                pieces = np.concatenate([np.asarray(c.percent_point(ys[i:i + 61].copy(), vs[i:i + 61].copy()), dtype=float).ravel() for i in range(0, n, 61)])
            if whole.shape != (n,) or not (whole.shape == pieces.shape and np.allclose(whole, pieces, rtol=1e-12, atol=1e-300, equal_nan=True)):
                i = int(np.argmax(~np.isclose(whole, pieces, rtol=1e-12, atol=1e-300, equal_nan=True))) if whole.shape == pieces.shape else -1
                found += 1
                ctx.fail_input('clayton.percent_point', {'theta': th, 'n': n, 'generator': 'rs = RandomState(n); y, v = rs.uniform(1e-3, 1-1e-3, n) twice', 'lane': i},
                               {'whole_batch': float(whole[i]) if i >= 0 else list(whole.shape), 'in_pieces_of_61': float(pieces[i]) if i >= 0 else list(pieces.shape)},
                               'output i depends only on (y_i, v_i), whatever the length of the vectors', 'clayton.percent_point:batch-size-dependent')
                break
    # purity: an earlier result keeps its values when percent_point is called again (same object, another object of
    # the family) on equally long vectors, and a repeated call gives the same values
    for fam in B.FAMS:
        for th in B.theta_all(fam)[:5]:
            ya, va = np.array([0.2, 0.5, 0.9, 0.35, 0.61]), np.array([0.6, 0.3, 0.8, 0.35, 0.12])
            yb, vb = np.array([0.7, 0.15, 0.4, 0.88, 0.5]), np.array([0.25, 0.55, 0.9, 0.4, 0.7])
            for label, other in (('same-object', None), ('other-object', lambda: B.make(fam, th))):
                checked += 1
                try:
                    probs = B.purity_problems(lambda: B.make(fam, th), 'percent_point', [ya, va], [yb, vb], other)
                except Exception as e:  # noqa
                    ctx.count(f'purity:{fam}:raises({vc.exc_kind(e)})')
                    continue
                probs = [(k, d) for k, d in probs if k not in ('input-mutated', 'result-aliases-input')]   # C20's subject
                for kind, detail in probs:
                    found += 1
                    ctx.fail_input(f'{fam}.percent_point', {'theta': th, 'first': [ya.tolist(), va.tolist()], 'second': [yb.tolist(), vb.tolist()],
                                                          'second_call_on': label}, detail,
                                   'an earlier result keeps its values and a repeated call gives the same values, whatever was called in between',
                                   f'{fam}.percent_point:{kind}')
                if probs:
                    break
    # the `ppf` alias (an observe-at entry point) is percent_point: same values bitwise, positional and by keyword,
    # including roots close to 1 and close to 0
    for fam in B.FAMS:
        for th in (B.theta_grid(fam)[3] if fam != 'gumbel' else 2.0, B.theta_grid(fam)[-1] if fam != 'gumbel' else 3.0):
            c = B.make(fam, th)
            yv = np.array([0.9999, 0.999, 0.5, 0.02, 0.97, 0.3])
            vv = np.array([0.5, 0.999, 0.5, 0.9, 0.98, 0.02])
            checked += 1
            try:
                with np.errstate(all='ignore'):
                    want = np.asarray(c.percent_point(yv, vv), dtype=float)
                    got1 = np.asarray(c.ppf(yv, vv), dtype=float)
                    got2 = np.asarray(c.ppf(y=yv, V=vv), dtype=float)
            except Exception as e:  # noqa
                found += 1
                ctx.fail_input(f'{fam}.ppf', {'theta': th, 'y': yv.tolist(), 'v': vv.tolist()}, f'{vc.exc_kind(e)}: {e}'[:200],
                               'ppf is a shortcut to percent_point', f'{fam}.ppf:alias-differs-from-percent_point')
                continue
            if not (np.array_equal(want, got1, equal_nan=True) and np.array_equal(want, got2, equal_nan=True)):
                found += 1
                ctx.fail_input(f'{fam}.ppf', {'theta': th, 'y': yv.tolist(), 'v': vv.tolist()},
                               {'percent_point': want.tolist(), 'ppf': got1.tolist(), 'ppf_keywords': got2.tolist()},
                               'ppf is a shortcut to percent_point (same values)', f'{fam}.ppf:alias-differs-from-percent_point')
    ctx.support = {'oracle_checks': checked, 'failures': found, 'deep': deep}


def replay(ctx, payload):
    inp = payload['input']
    fam = payload['entry_point'].split('.')[0]
    c = B.make(fam, inp['theta'])
    if 'y' in inp:
        try:
            u = float(c.percent_point(np.array([inp['y']]), np.array([inp['v']]))[0])
            return not (0 <= u <= 1 and abs(resid(fam, inp['theta'], u, inp['y'], inp['v'])) <= 1e-8)
        except Exception:  # noqa
            return True
    before = len(ctx.failing)
    search(ctx, True)
    return any(f['class'] == payload.get('class') for f in ctx.failing[before:])
