"""C20 — Library calls never modify caller-owned inputs; plots show exactly the data.

Tie: (a) the Lean checker `noParamWrite` / `safeFrom` (proved sound in Props/C20.lean) is evaluated by the
driver on the write-effect IR generated from /repo for every public entry point -> may-write set per entry;
(b) every entry point is called on the REAL code with deep-snapshotted arguments of every container kind it
accepts (ndarray incl. read-only / Fortran / strided views, DataFrame, Series, dict, list, mutation-logging dict
and list subclasses): observed mutations must be a subset of the may-write set, an accepted entry point must
show none, a parameter the checker cannot clear must either be observed mutated (a real defect, reported by
`search`) or be a documented imprecision; a second identical call on a fresh model re-using the SAME argument
objects must give the same result; (c) `Figure.data` of the 2-D/3-D builders equals the traces predicted by
the Lean plot model (exact multiset of points per label)."""
import collections
import copy
import struct
import types
import warnings

import numpy as np
import pandas as pd

import vcommon as vc

GEN_TARGETS = ('Effects',)
DRIVER_MAIN = 'Main/Effects.lean'
DRIVER_TARGETS = ['CopVerif.Driver.Effects']
ALWAYS_SEARCH = True
RULE = ('(a) one static query per public entry point (91 functions after de-duplication of inherited methods; '
        'constructors judged together with all entry points of their classes) on the '
        'IR regenerated from the working tree; (b) dynamic cases: entry point x concrete class x container kind of '
        'every argument (ndarray C/F/strided/read-only, DataFrame, Series, dict, list, logging dict/list) x random '
        'data from ctx.nprng; a case is distinct by (entry, class, kinds, data seed) and non-trivial when the call '
        'reaches the body (result or a library exception after argument use); (c) plot cases: builder x frame '
        'width 2..4 x row counts 0..12 x column request (default, empty, valid, wrong arity, unknown name)')
PARTIAL = ['the IR-to-Python faithfulness of tools/gen_effects.py is validated dynamically, not proved',
           'completeness of the checker (rejected => really mutates) is shown on the shapes in Props/C20.lean only; '
           'static-only alarms are listed in KNOWN_IMPRECISION',
           'px.scatter / px.scatter_3d are external symbols: their grouping is a hypothesis validated on every run']
ASSUMPTIONS = ['parameters whose default is an int/float/str/bool literal are immutable scalars',
               'callables supplied by the caller (f of bisect/chandrupatla) do not mutate their argument',
               'effect whitelist of numpy/scipy/pandas/plotly functions and methods in tools/gen_effects.py',
               '`a + b` / `a * b` between operands that are not list displays is arithmetic (fresh result)',
               'flow-insensitive reading: a real execution is one trace over the statement set of the IR']
TRUSTED_EXTRA = ['tools/gen_effects.py (Python AST -> write-effect IR); Lean interpreter running the checker on the '
                 'generated program; Model.Effects.decodeModule (text form, cross-checked against a Python re-linking)']

# parameters the flow-insensitive checker cannot clear although the code does not write them (reason recorded)
KNOWN_IMPRECISION = {
    ('copulas.multivariate.tree.Tree.fit', 'edges'):
        '`self.edges = edges or []` then `self.edges.append(..)` only under `if not self.edges:` (path condition)',
    ('copulas.multivariate.tree.Tree.fit', 'previous_tree'):
        'new edges hold references to the previous tree\'s edges (`new_edge.parents`); `edge.U = ..` on the new '
        'edges is attributed to everything reachable from them (depth-collapsed contents)',
}


# entry points that cannot return normally in this environment / by design (they still get snapshot checks)
MAY_ALWAYS_RAISE = {
    'copulas.visualization.dist_1d': 'installed plotly has no figure_factory.create_distplot (AttributeError)',
    'copulas.visualization.compare_1d': 'installed plotly has no figure_factory.create_distplot (AttributeError)',
    'copulas.bivariate.independence.Independence.percent_point': 'check_fit: theta is never set (NotFittedError)',
    'copulas.bivariate.base.Bivariate.probability_density': 'abstract (NotImplementedError)',
    'copulas.bivariate.base.Bivariate.cumulative_distribution': 'abstract (NotImplementedError)',
    'copulas.bivariate.base.Bivariate.generator': 'abstract (NotImplementedError)',
    'copulas.multivariate.base.Multivariate.probability_density': 'abstract (NotImplementedError)',
    'copulas.multivariate.base.Multivariate.cumulative_distribution': 'abstract (NotImplementedError)',
    'copulas.univariate.base.Univariate.log_probability_density':
        'selected GaussianKDE: gaussian_kde.logpdf(**params) is a TypeError',
}


# batch lengths of the size sweep (around typical chunking / copy thresholds), per group of entry points
SIZES = {'rootfind': (4096, 4097, 10000), 'bivariate': (257, 4097), 'bivariate-fit': (1025, 5003),
         'univariate': (1025, 4097), 'gaussian-pdf': (4097,)}
SIZE_UNIVARIATES = ('GaussianUnivariate', 'UniformUnivariate')
_SHORTCUTS = {}


def shortcut_params(cname):
    """[(attr, value)]: numeric literals the CURRENT source of the family (and of the shared base class) compares
    `self.theta` / `self.tau` against - the parameter values that select shortcut branches (Gumbel theta == 1,
    Frank theta == 0, tau == 1, ...), plus their float neighbours"""
    if cname in _SHORTCUTS:
        return _SHORTCUTS[cname]
    import ast
    import math
    import os
    files = {'Clayton': 'clayton', 'Frank': 'frank', 'Gumbel': 'gumbel', 'Independence': 'independence',
             'Bivariate': 'frank'}
    found = []
    for rel in (f'copulas/bivariate/{files[cname]}.py', 'copulas/bivariate/base.py'):
        try:
            tree = ast.parse(open(os.path.join(vc.REPO, rel)).read())
        except Exception:     # noqa
            continue
        for node in ast.walk(tree):
            if not isinstance(node, ast.Compare):
                continue
            terms = [node.left] + list(node.comparators)
            attrs = [t.attr for t in terms if isinstance(t, ast.Attribute) and t.attr in ('theta', 'tau')
                     and isinstance(t.value, ast.Name) and t.value.id == 'self']
            for t in terms:
                neg = isinstance(t, ast.UnaryOp) and isinstance(t.op, ast.USub)
                c = t.operand if neg else t
                if isinstance(c, ast.Constant) and type(c.value) in (int, float):
                    v = -float(c.value) if neg else float(c.value)
                    for a in attrs:
                        for w in (v, math.nextafter(v, math.inf), math.nextafter(v, -math.inf)):
                            if (a, w) not in found:
                                found.append((a, w))
    _SHORTCUTS[cname] = found
    return found


def short(key):
    ps = key.split('.')
    if ps[-2][:1].isupper():
        return f'{ps[-2]}.{ps[-1]}'
    return f'{ps[-2]}.{ps[-1]}'


# ----------------------------------------------------------------------------------- deep compare
class TList(list):
    """list that logs mutating calls"""

    def _l(self, what):
        self.__dict__.setdefault('_log', []).append(what)

    def append(self, x): self._l('append'); return list.append(self, x)
    def extend(self, x): self._l('extend'); return list.extend(self, x)
    def insert(self, i, x): self._l('insert'); return list.insert(self, i, x)
    def pop(self, *a): self._l('pop'); return list.pop(self, *a)
    def remove(self, x): self._l('remove'); return list.remove(self, x)
    def clear(self): self._l('clear'); return list.clear(self)
    def sort(self, **k): self._l('sort'); return list.sort(self, **k)
    def reverse(self): self._l('reverse'); return list.reverse(self)
    def __setitem__(self, i, x): self._l('setitem'); return list.__setitem__(self, i, x)
    def __delitem__(self, i): self._l('delitem'); return list.__delitem__(self, i)
    def __iadd__(self, x): self._l('iadd'); return list.__iadd__(self, x)
    def __imul__(self, x): self._l('imul'); return list.__imul__(self, x)


class TDict(dict):
    """dict that logs mutating calls"""

    def _l(self, what):
        self.__dict__.setdefault('_log', []).append(what)

    def __setitem__(self, k, v): self._l('setitem'); return dict.__setitem__(self, k, v)
    def __delitem__(self, k): self._l('delitem'); return dict.__delitem__(self, k)
    def pop(self, *a): self._l('pop'); return dict.pop(self, *a)
    def popitem(self): self._l('popitem'); return dict.popitem(self)
    def clear(self): self._l('clear'); return dict.clear(self)
    def update(self, *a, **k): self._l('update'); return dict.update(self, *a, **k)
    def setdefault(self, *a): self._l('setdefault'); return dict.setdefault(self, *a)
    def __ior__(self, o): self._l('ior'); return dict.__ior__(self, o)


def fbits(x):
    return struct.pack('<d', float(x))


def diff(a, b, path='', seen=None, depth=0):
    """first difference between two structures (None if identical): bitwise for arrays, `.equals` + dtypes +
    index for pandas, key ORDER for dicts, recursive through containers and object attributes"""
    if seen is None:
        seen = set()
    if a is b:
        return None
    if depth > 40:
        return None
    if type(a) is not type(b):
        return f'{path}: type {type(a).__name__} -> {type(b).__name__}'
    if isinstance(a, np.ndarray):
        if a.dtype != b.dtype or a.shape != b.shape:
            return f'{path}: dtype/shape {a.dtype}{a.shape} -> {b.dtype}{b.shape}'
        if a.dtype == object:
            for i, (x, y) in enumerate(zip(a.ravel().tolist(), b.ravel().tolist())):
                d = diff(x, y, f'{path}[{i}]', seen, depth + 1)
                if d:
                    return d
            return None
        if np.ascontiguousarray(a).tobytes() != np.ascontiguousarray(b).tobytes():
            idx = np.argwhere(~((a == b) | ((a != a) & (b != b))))
            where = idx[0].tolist() if len(idx) else '?'
            return f'{path}: array content differs at {where}'
        return None
    if isinstance(a, pd.DataFrame):
        if list(a.columns) != list(b.columns):
            return f'{path}: columns {list(a.columns)} -> {list(b.columns)}'
        if not a.index.equals(b.index):
            return f'{path}: index changed'
        if list(a.dtypes) != list(b.dtypes):
            return f'{path}: dtypes changed'
        if not a.equals(b):
            return f'{path}: frame content differs'
        return None
    if isinstance(a, pd.Series):
        if a.name != b.name or not a.index.equals(b.index) or a.dtype != b.dtype:
            return f'{path}: series name/index/dtype changed'
        if not a.equals(b):
            return f'{path}: series content differs'
        return None
    if isinstance(a, pd.Index):
        return None if a.equals(b) else f'{path}: index differs'
    if isinstance(a, dict):
        if list(a.keys()) != list(b.keys()):
            return f'{path}: keys {list(a.keys())[:6]} -> {list(b.keys())[:6]}'
        for k in a:
            d = diff(a[k], b[k], f'{path}[{k!r}]', seen, depth + 1)
            if d:
                return d
        return None
    if isinstance(a, (list, tuple)):
        if len(a) != len(b):
            return f'{path}: length {len(a)} -> {len(b)}'
        for i, (x, y) in enumerate(zip(a, b)):
            d = diff(x, y, f'{path}[{i}]', seen, depth + 1)
            if d:
                return d
        return None
    if isinstance(a, (set, frozenset)):
        return None if a == b else f'{path}: set differs'
    if isinstance(a, (float, np.floating)):
        return None if fbits(a) == fbits(b) or (a != a and b != b) else f'{path}: {a!r} -> {b!r}'
    if isinstance(a, (int, str, bool, bytes, np.integer, np.bool_, type(None), complex)):
        return None if a == b else f'{path}: {a!r} -> {b!r}'
    if isinstance(a, np.random.RandomState):
        return diff(a.get_state(), b.get_state(), path + '.state', seen, depth + 1)
    if isinstance(a, (types.FunctionType, types.MethodType, types.BuiltinFunctionType, types.BuiltinMethodType)):
        qa, qb = getattr(a, '__qualname__', None), getattr(b, '__qualname__', None)
        return None if qa == qb else f'{path}: callable {qa} -> {qb}'
    if isinstance(a, type) or callable(a) and not hasattr(a, '__dict__'):
        return None if a is b or a == b else f'{path}: callable differs'
    if hasattr(a, 'to_plotly_json'):
        return diff(a.to_plotly_json(), b.to_plotly_json(), path + '.json', seen, depth + 1)
    key = (id(a), id(b))
    if key in seen:
        return None
    seen.add(key)
    if hasattr(a, '__dict__'):
        da, db = vars(a), vars(b)
        if sorted(da) != sorted(db):
            return f'{path}: attributes {sorted(da)} -> {sorted(db)}'
        for k in sorted(da):
            if callable(da[k]) and not isinstance(da[k], type) and hasattr(da[k], '__self__'):
                continue          # bound methods (replaced constant methods): compared through the owner
            d = diff(da[k], db[k], f'{path}.{k}', seen, depth + 1)
            if d:
                return d
        return None
    try:
        return None if a == b else f'{path}: {type(a).__name__} differs'
    except Exception:
        return None


def logged(x):
    return list(getattr(x, '__dict__', {}).get('_log', [])) if isinstance(x, (TList, TDict)) else []


# ----------------------------------------------------------------------------------- case generation
Case = collections.namedtuple('Case', 'entry tag label make_fn make_args tracked')


class AsView:
    """an ndarray argument to be passed as a strided (non-contiguous) view of a larger array"""

    def __init__(self, a):
        self.a = np.array(a, dtype=float)

    def make(self):
        a = self.a
        if a.ndim == 2:
            big = np.zeros((a.shape[0] * 2, a.shape[1] + 1))
            big[::2, :a.shape[1]] = a
            return big[::2, :a.shape[1]]
        big = np.zeros(a.shape[0] * 2)
        big[::2] = a
        return big[::2]


class Gen:
    """dynamic cases for every public entry point"""

    def __init__(self, ctx, stream):
        self.ctx = ctx
        self.rs = ctx.nprng('dyn', stream)
        self.cache = {}

    # --- data
    def uniforms(self, n=40):
        u = self.rs.uniform(0.03, 0.97, size=(n, 2))
        u[:, 1] = np.clip(0.6 * u[:, 0] + 0.4 * u[:, 1], 0.02, 0.98)
        return u

    def closed_uniforms(self):
        """points of the CLOSED unit square: some (not a whole column of) exact 0.0 / 1.0 coordinates"""
        u = self.uniforms(14)
        border = [(0.0, 0.3), (0.4, 0.0), (1.0, 0.5), (0.6, 1.0), (0.0, 0.0), (1.0, 1.0), (0.0, 1.0), (1.0, 0.0)]
        for k, (a, b) in enumerate(border):
            u[1 + k] = (a, b)
        return u

    def sample1d(self, n=60):
        return self.rs.gamma(2.0, size=n) + 1.0

    def table(self, n=60, cols=('a', 'b', 'c')):
        z = self.rs.normal(size=(n, len(cols)))
        for k in range(1, len(cols)):
            z[:, k] += 0.7 * z[:, k - 1]
        return pd.DataFrame(z, columns=list(cols))

    def array_kinds(self, a):
        """the same numbers as different ndarray layouts"""
        a = np.array(a, dtype=float)
        out = [('ndarray', a.copy())]
        if a.ndim == 2:
            out.append(('ndarray-F', np.asfortranarray(a)))
        out.append(('ndarray-view', AsView(a)))
        return out

    def vec_kinds(self, a, lists=True):
        out = self.array_kinds(a)
        out.append(('Series', pd.Series(np.array(a, dtype=float), name='v')))
        if lists:
            out.append(('list', [float(x) for x in a]))
            out.append(('TList', TList(float(x) for x in a)))
        return out

    # --- models
    def model(self, key, build):
        if key not in self.cache:
            with warnings.catch_warnings():
                warnings.simplefilter('ignore')
                st = np.random.get_state()
                np.random.seed(12345)
                try:
                    self.cache[key] = build()
                finally:
                    np.random.set_state(st)
        return copy.deepcopy(self.cache[key])

    def biv_model(self, cname, variant=None):
        m = self._biv_model(cname)
        if variant is not None:
            setattr(m, variant[0], variant[1])
        return m

    def _biv_model(self, cname):
        from copulas.bivariate import Bivariate, Clayton, Frank, Gumbel
        from copulas.bivariate.independence import Independence

        def build():
            if cname == 'Bivariate':
                # the base-class implementations (generic brentq inverse, finite-difference derivative) are
                # exercised as unbound methods on a Frank instance, see `bound`
                m = Frank()
                m.theta, m.tau = 5.0, 0.4565
            elif cname == 'Independence':
                m = Independence()
                m.tau = 0.0
            else:
                m = {'Clayton': Clayton, 'Frank': Frank, 'Gumbel': Gumbel}[cname]()
                m.theta, m.tau = {'Clayton': (2.0, 0.5), 'Frank': (5.0, 0.4565), 'Gumbel': (2.0, 0.5)}[cname]
            return m
        return self.model(('biv', cname), build)

    def uni_class(self, cname):
        import copulas.univariate as U
        return getattr(U, cname)

    def uni_model(self, cname):
        def build():
            m = self.uni_class(cname)()
            m.fit(np.random.RandomState(7).gamma(2.0, size=70) + 1.0)
            return m
        return self.model(('uni', cname), build)

    def gm_model(self):
        from copulas.multivariate import GaussianMultivariate
        from copulas.univariate import GaussianUnivariate

        def build():
            m = GaussianMultivariate(distribution=GaussianUnivariate)
            z = np.random.RandomState(5).normal(size=(50, 3))
            z[:, 1] += z[:, 0]
            m.fit(pd.DataFrame(z, columns=['a', 'b', 'c']))
            return m
        return self.model(('gm',), build)

    def vine_model(self, vt):
        from copulas.multivariate import VineCopula

        def build():
            m = VineCopula(vt)
            z = np.random.RandomState(5).normal(size=(60, 3))
            z[:, 1] += z[:, 0]
            z[:, 2] += 0.5 * z[:, 1]
            m.fit(pd.DataFrame(z, columns=['a', 'b', 'c']))
            return m
        return self.model(('vine', vt), build)

    # --- cases
    def cases(self, entry, tag):
        """yield Case objects for one (module, class, method) tag of an entry point"""
        modname, cname, meth = tag
        if cname is None:
            yield from self.function_cases(entry, modname, meth)
        elif modname.startswith('copulas.bivariate'):
            yield from self.bivariate_cases(entry, cname, meth)
        elif modname.startswith('copulas.univariate'):
            yield from self.univariate_cases(entry, cname, meth)
        elif cname == 'GaussianMultivariate':
            yield from self.gaussian_cases(entry, meth)
        elif cname == 'VineCopula':
            yield from self.vine_cases(entry, meth)
        elif cname == 'Tree':
            yield from self.tree_cases(entry)

    def mk(self, entry, tag, label, make_fn, make_args, tracked):
        def fresh_args():
            # fresh argument objects for every call sequence (a mutated object must never be handed out again)
            out = {k: (v.make() if isinstance(v, AsView) else v) for k, v in copy.deepcopy(make_args()).items()}
            for v in out.values():
                if isinstance(v, (TList, TDict)):
                    v.__dict__['_log'] = []          # construction / deepcopy is not a mutation by the library
            return out
        return Case(entry, tag, label, make_fn, fresh_args, tuple(tracked))

    def shortcut_batches(self):
        """batches that select row-level / whole-batch shortcuts: a column of zeros, a column of ones"""
        out = []
        for name, col, val in (('zeros-col0', 0, 0.0), ('zeros-col1', 1, 0.0), ('ones-col0', 0, 1.0),
                               ('ones-col1', 1, 1.0)):
            u = self.uniforms(9)
            u[:, col] = val
            out.append((name, u))
        out.append(('all-zeros', np.zeros((6, 2))))
        out.append(('all-ones', np.ones((6, 2))))
        return out

    def bound(self, cname, meth, variant=None):
        """the method of a fresh model; for the base class: the BASE implementation on a concrete instance"""
        m = self.biv_model(cname, variant)
        if cname == 'Bivariate':
            from copulas.bivariate import Bivariate
            base = getattr(Bivariate, meth)
            return lambda *a, **k: base(m, *a, **k)
        return getattr(m, meth)

    def bivariate_cases(self, entry, cname, meth):
        tag = f'{cname}.{meth}'
        U = self.uniforms()
        if meth == 'select_copula':
            from copulas.bivariate import Bivariate
            for kind, a in self.array_kinds(U):
                yield self.mk(entry, tag, kind, lambda: (lambda X: state(Bivariate.select_copula(X))),
                              lambda a=a: {'X': a}, ['X'])
            return
        if meth == 'fit':
            def make_fn():
                m = self.biv_model(cname)
                m.theta = None

                def run(X):
                    m.fit(X)
                    return fitted_then_used(m, X)
                return run
            for kind, a in self.array_kinds(U) + [('closed/ndarray', self.closed_uniforms())] + \
                    [(f'batch:{n}', b) for n, b in self.shortcut_batches()]:
                yield self.mk(entry, tag, kind, make_fn, lambda a=a: {'X': a}, ['X'])
            if cname in ('Clayton', 'Bivariate'):
                for n in SIZES['bivariate-fit']:
                    yield self.mk(entry, tag, f'n={n}', make_fn, lambda n=n: {'X': self.uniforms(n)}, ['X'])
        elif meth == 'check_marginal':
            vecs = self.vec_kinds(U[:, 0], lists=False) + [('closed', self.closed_uniforms()[:, 0]),
                                                           ('zeros', np.zeros(7)), ('ones', np.ones(7))]
            for kind, a in vecs:
                yield self.mk(entry, tag, kind, lambda: self.bound(cname, meth), lambda a=a: {'u': a}, ['u'])
            for n in SIZES['bivariate-fit']:
                yield self.mk(entry, tag, f'n={n}', lambda: self.bound(cname, meth),
                              lambda n=n: {'u': self.uniforms(n)[:, 0].copy()}, ['u'])
        elif meth == 'partial_derivative_scalar':
            C = self.closed_uniforms()
            variants = [None] + shortcut_params(cname)
            for var in variants:
                for where, (u, v) in (('open', (U[:6, 0], U[:6, 1])), ('closed', (C[:10, 0], C[:10, 1]))):
                    yield self.mk(entry, tag, f'{var}/{where}', lambda var=var: self.bound(cname, meth, var),
                                  lambda u=u, v=v: {'U': np.array(u), 'V': np.array(v)}, ['U', 'V'])
        elif meth in ('probability_density', 'pdf', 'log_probability_density', 'cumulative_distribution', 'cdf',
                      'partial_derivative'):
            for where, pts in (('open', U), ('closed', self.closed_uniforms())):
                for kind, a in self.array_kinds(pts):
                    yield self.mk(entry, tag, f'{where}/{kind}', lambda: self.bound(cname, meth),
                                  lambda a=a: {'X': a}, ['X'])
            if meth in ('cumulative_distribution', 'probability_density', 'partial_derivative'):
                for n in SIZES['bivariate']:
                    yield self.mk(entry, tag, f'n={n}', lambda: self.bound(cname, meth),
                                  lambda n=n: {'X': self.uniforms(n)}, ['X'])
            # row-level shortcuts at the ordinary parameter, and every parameter value that selects a shortcut
            # branch (literals the source compares theta / tau against) on ordinary, closed and shortcut batches
            for bname, a in self.shortcut_batches():
                yield self.mk(entry, tag, f'batch:{bname}', lambda: self.bound(cname, meth), lambda a=a: {'X': a}, ['X'])
            for var in shortcut_params(cname):
                batches = [('open', U[:10]), ('closed', self.closed_uniforms())] + self.shortcut_batches()[:2]
                for bname, a in batches:
                    yield self.mk(entry, tag, f'{var[0]}={var[1]!r}/{bname}',
                                  lambda var=var: self.bound(cname, meth, var), lambda a=a: {'X': a}, ['X'])
        elif meth in ('percent_point', 'ppf'):
            C = self.closed_uniforms()
            for where, (y, v) in (('open', (U[:8, 0], U[:8, 1])), ('closed', (C[:10, 0], C[:10, 1]))):
                for (k1, a), (k2, b) in zip(self.vec_kinds(y), self.vec_kinds(v)):
                    yield self.mk(entry, tag, f'{where}/{k1}', lambda: self.bound(cname, meth),
                                  lambda a=a, b=b: {'y': a, 'V': b}, ['y', 'V'])
            if cname == 'Clayton' and meth == 'percent_point':       # closed form: cheap at any length
                for n in SIZES['bivariate']:
                    yield self.mk(entry, tag, f'n={n}', lambda: self.bound(cname, meth),
                                  lambda n=n: dict(zip(('y', 'V'), self.uniforms(n).T.copy())), ['y', 'V'])
            for var in shortcut_params(cname):
                for where, (y, v) in (('open', (U[:6, 0], U[:6, 1])), ('closed', (C[:10, 0], C[:10, 1])),
                                      ('zeros', (np.zeros(4), U[:4, 1])), ('ones', (U[:4, 0], np.ones(4)))):
                    yield self.mk(entry, tag, f'{var[0]}={var[1]!r}/{where}',
                                  lambda var=var: self.bound(cname, meth, var),
                                  lambda y=y, v=v: {'y': np.array(y), 'V': np.array(v)}, ['y', 'V'])
        elif meth == 'generator':
            t = np.concatenate([self.rs.uniform(0.02, 0.98, size=6), [0.0, 1.0, 1.0, 0.0]])
            for kind, a in self.vec_kinds(t, lists=False):
                yield self.mk(entry, tag, kind, lambda: self.bound(cname, meth), lambda a=a: {'t': a}, ['t'])
        elif meth == '__init__':
            yield from self.ctor_cases(entry, 'copulas.bivariate.independence' if cname == 'Independence'
                                       else 'copulas.bivariate', cname)
        elif meth == 'sample':
            yield self.mk(entry, tag, 'n', lambda: self.bound(cname, meth), lambda: {'n_samples': 5}, [])

    def ctor_cases(self, entry, modname, cname):
        """constructor arguments are caller-owned for the whole life of the model: build the model from them,
        fit it (also on data for which a configured marginal raises, so that fall-back paths run), keep using
        it, then look at the constructor arguments again.  The result is the configuration of the model: a
        second model built from the SAME argument objects must be configured like the first."""
        tag = f'{cname}.__init__'
        rs = self.rs

        def lifetime(build, data, config):
            def make_fn():
                def run(**kw):
                    m = build(**kw)
                    try:
                        with np.errstate(all='ignore'):
                            m.fit(data)
                    except Exception as e:     # noqa
                        return ('fit-raised', vc.exc_kind(e))
                    fitted_then_used(m, data)
                    return config(m)
                return run
            return make_fn

        if cname == 'GaussianMultivariate':
            from copulas.multivariate import GaussianMultivariate
            from copulas.univariate import GammaUnivariate, GaussianUnivariate
            df = self.table(40)
            df['b'] = np.abs(df['b']) + 0.1
            wide = df.copy()
            wide['b'] = wide['b'] * 1e120           # scipy's gamma.fit raises on this column -> Gaussian fall-back

            def config(m):
                return [(c, type(u).__name__, getattr(getattr(u, '_instance', None), '__class__', type(None)).__name__)
                        for c, u in zip(m.columns, m.univariates)]
            specs = [('dict-classes', {'a': GaussianUnivariate, 'b': GammaUnivariate}),
                     ('dict-names', {'b': 'copulas.univariate.gamma.GammaUnivariate',
                                     'c': 'copulas.univariate.gaussian.GaussianUnivariate'}),
                     ('TDict-stub', TDict({'a': RaisingUnivariate, 'c': GaussianUnivariate})),
                     ('class', GaussianUnivariate),
                     ('name', 'copulas.univariate.gaussian.GaussianUnivariate')]
            for sname, spec in specs:
                for dname, data in (('ordinary', df), ('wide-scale', wide)):
                    yield self.mk(entry, tag, f'{sname}/{dname}',
                                  lifetime(lambda **kw: GaussianMultivariate(**kw), data, config),
                                  lambda spec=spec: {'distribution': spec, 'random_state': np.random.RandomState(3)},
                                  ['distribution', 'random_state'])
        elif cname == 'Univariate':
            from copulas.univariate import GammaUnivariate, GaussianUnivariate, Univariate, UniformUnivariate
            x = self.sample1d(50)
            cands = [('list', [GaussianUnivariate, GammaUnivariate, UniformUnivariate]),
                     ('TList-stub', TList([RaisingUnivariate, GaussianUnivariate])),
                     ('list-instances', [GaussianUnivariate(), UniformUnivariate()])]
            for kind, c in cands:
                for dname, data in (('ordinary', x), ('huge', x * 1e120)):
                    yield self.mk(entry, tag, f'{kind}/{dname}',
                                  lifetime(lambda **kw: Univariate(**kw), data,
                                           lambda m: type(m._instance).__name__),
                                  lambda c=c: {'candidates': c, 'random_state': np.random.RandomState(4)},
                                  ['candidates', 'random_state'])
        elif cname == 'GaussianKDE':
            from copulas.univariate import GaussianKDE
            x = self.sample1d(30)
            w = rs.uniform(0.5, 1.5, size=30)
            for kind, a in self.vec_kinds(w, lists=False):
                yield self.mk(entry, tag, kind, lifetime(lambda **kw: GaussianKDE(**kw), x,
                                                         lambda m: sorted(m._params)),
                              lambda a=a: {'weights': a, 'bw_method': 0.5, 'random_state': np.random.RandomState(5)},
                              ['weights', 'random_state'])
        else:
            import importlib
            cls = getattr(importlib.import_module(modname), cname)
            kw = {'vine_type': 'regular'} if cname == 'VineCopula' else {}
            if cname in ('Bivariate',):
                kw = {'copula_type': 'frank'}
            data = self.table(40) if cname == 'VineCopula' else (
                self.uniforms() if modname.startswith('copulas.bivariate') else self.sample1d(40))
            yield self.mk(entry, tag, 'random_state',
                          lifetime(lambda **k2: cls(**k2), data, lambda m: type(m).__name__),
                          lambda: dict(kw, random_state=np.random.RandomState(6)), ['random_state'])

    def univariate_cases(self, entry, cname, meth):
        tag = f'{cname}.{meth}'
        if meth == '__init__':
            import copulas.univariate as UU
            yield from self.ctor_cases(entry, UU.__name__ if hasattr(UU, cname) else 'copulas.univariate', cname)
            return
        x = self.sample1d()
        if meth == 'fit':
            def make_fn():
                m = self.uni_class(cname)()

                def run(X):
                    m.fit(X)
                    return fitted_then_used(m, X)
                return run
            kinds = self.vec_kinds(x, lists=True)
            const = np.full(20, 3.5)
            kinds.append(('ndarray-constant', const))
            for kind, a in kinds:
                yield self.mk(entry, tag, kind, make_fn, lambda a=a: {'X': a}, ['X'])
            if cname in SIZE_UNIVARIATES:
                for n in SIZES['univariate']:
                    yield self.mk(entry, tag, f'n={n}', make_fn, lambda n=n: {'X': self.sample1d(n)}, ['X'])
        elif meth in ('probability_density', 'pdf', 'log_probability_density', 'cumulative_distribution', 'cdf'):
            for kind, a in self.vec_kinds(x[:12]):
                yield self.mk(entry, tag, kind, lambda: getattr(self.uni_model(cname), meth),
                              lambda a=a: {'X': a}, ['X'])
            if cname in SIZE_UNIVARIATES:
                for n in SIZES['univariate']:
                    yield self.mk(entry, tag, f'n={n}', lambda: getattr(self.uni_model(cname), meth),
                                  lambda n=n: {'X': self.sample1d(n)}, ['X'])
        elif meth in ('percent_point', 'ppf'):
            u = self.rs.uniform(0.05, 0.95, size=9)
            u[0] = 0.0
            u[1] = 1.0
            for kind, a in self.vec_kinds(u):
                yield self.mk(entry, tag, kind, lambda: getattr(self.uni_model(cname), meth),
                              lambda a=a: {'U': a}, ['U'])
            if cname in SIZE_UNIVARIATES:
                for n in SIZES['univariate']:
                    yield self.mk(entry, tag, f'n={n}', lambda: getattr(self.uni_model(cname), meth),
                                  lambda n=n: {'U': self.rs.uniform(0.01, 0.99, size=n)}, ['U'])
        elif meth == 'sample':
            yield self.mk(entry, tag, 'n', lambda: getattr(self.uni_model(cname), meth), lambda: {'n_samples': 4}, [])

    def gaussian_cases(self, entry, meth):
        from copulas.multivariate import GaussianMultivariate
        from copulas.univariate import GaussianUnivariate, Univariate
        if meth == '__init__':
            yield from self.ctor_cases(entry, 'copulas.multivariate', 'GaussianMultivariate')
            return
        tag = f'GaussianMultivariate.{meth}'
        df = self.table(40)
        if meth == 'fit':
            for dist, dname in ((GaussianUnivariate, 'gaussian'), (Univariate, 'default')):
                def make_fn(dist=dist):
                    m = GaussianMultivariate(distribution=dist)

                    def run(X):
                        m.fit(X)
                        return fitted_then_used(m, X)
                    return run
                kinds = [('DataFrame', df), ('DataFrame-int-index', df.set_index(pd.Index(range(100, 100 + len(df)))))]
                kinds += [(k, a) for k, a in self.array_kinds(df.to_numpy())]
                if dname == 'default':
                    kinds = kinds[:1]
                for kind, a in kinds:
                    yield self.mk(entry, tag, f'{dname}/{kind}', make_fn, lambda a=a: {'X': a}, ['X'])
        elif meth in ('probability_density', 'pdf', 'log_probability_density', 'cumulative_distribution', 'cdf'):
            pts = self.table(6)
            kinds = [('DataFrame', pts), ('Series-row', pts.iloc[0]), ('DataFrame-subset', pts[['c', 'a']])]
            kinds += self.array_kinds(pts.to_numpy())
            for kind, a in kinds:
                yield self.mk(entry, tag, kind, lambda: getattr(self.gm_model(), meth), lambda a=a: {'X': a}, ['X'])
            if meth in ('probability_density', 'pdf'):       # (the cdf is a QMC integral per row: not at this size)
                for n in SIZES['gaussian-pdf']:
                    yield self.mk(entry, tag, f'n={n}/DataFrame', lambda: getattr(self.gm_model(), meth),
                                  lambda n=n: {'X': self.table(n)}, ['X'])
                    yield self.mk(entry, tag, f'n={n}/ndarray', lambda: getattr(self.gm_model(), meth),
                                  lambda n=n: {'X': self.table(n).to_numpy()}, ['X'])
        elif meth == 'sample':
            conds = [('none', None), ('dict', {'a': 0.3}), ('dict2', {'c': -0.2, 'a': 0.1}),
                     ('TDict', TDict({'b': 0.5})), ('Series', pd.Series({'a': 0.3}))]
            for kind, c in conds:
                yield self.mk(entry, tag, kind, lambda: getattr(self.gm_model(), meth),
                              lambda c=c: {'num_rows': 4, 'conditions': c}, ['conditions'])

    def vine_cases(self, entry, meth):
        from copulas.multivariate import VineCopula
        if meth == '__init__':
            yield from self.ctor_cases(entry, 'copulas.multivariate', 'VineCopula')
            return
        for vt in ('center', 'direct', 'regular'):
            tag = f'VineCopula[{vt}].{meth}'
            if meth == 'fit':
                df = self.table(60)

                def make_fn(vt=vt):
                    m = VineCopula(vt)

                    def run(X, truncated=3):
                        m.fit(X, truncated=truncated)
                        return fitted_then_used(m, X)
                    return run
                for kind, a in (('DataFrame', df), ('DataFrame-strcols', df.rename(columns=str.upper))):
                    yield self.mk(entry, tag, kind, make_fn, lambda a=a: {'X': a}, ['X'])
            elif meth == 'sample':
                yield self.mk(entry, tag, 'n', lambda vt=vt: getattr(self.vine_model(vt), meth),
                              lambda: {'num_rows': 3}, [])
            else:
                pts = self.table(4)
                yield self.mk(entry, tag, 'DataFrame', lambda vt=vt: getattr(self.vine_model(vt), meth),
                              lambda: {'X': pts}, ['X'])

    def tree_cases(self, entry):
        from scipy import stats
        from copulas.multivariate.tree import get_tree
        df = self.table(50)
        z = df.to_numpy()
        um = np.column_stack([stats.rankdata(z[:, i]) / (len(z) + 1.0) for i in range(z.shape[1])])
        tau = df.corr(method='kendall').to_numpy().copy()
        for vt in ('center', 'direct', 'regular'):
            def make_fn(vt=vt):
                t = get_tree(vt)

                def run(index, n_nodes, tau_matrix, previous_tree, edges=None):
                    t.fit(index, n_nodes, tau_matrix, previous_tree, edges)
                    return state(t)
                return run
            yield self.mk(entry, f'Tree[{vt}].fit', 'level1',
                          make_fn, lambda: {'index': 0, 'n_nodes': 3, 'tau_matrix': tau.copy(),
                                            'previous_tree': um.copy(), 'edges': None},
                          ['tau_matrix', 'previous_tree', 'edges'])

            def level2_args(vt=vt):
                t1 = get_tree(vt)
                t1.fit(0, 3, tau.copy(), um.copy())
                t1._get_constraints()
                return {'index': 1, 'n_nodes': 2, 'tau_matrix': t1.get_tau_matrix(), 'previous_tree': t1,
                        'edges': TList()}
            yield self.mk(entry, f'Tree[{vt}].fit', 'level2', make_fn, level2_args,
                          ['tau_matrix', 'previous_tree', 'edges'])

            def given_edges(vt=vt):
                t1 = get_tree(vt)
                t1.fit(0, 3, tau.copy(), um.copy())
                return {'index': 0, 'n_nodes': 3, 'tau_matrix': tau.copy(), 'previous_tree': um.copy(),
                        'edges': TList(t1.edges)}
            yield self.mk(entry, f'Tree[{vt}].fit', 'edges-given', make_fn, given_edges,
                          ['tau_matrix', 'previous_tree', 'edges'])

    def function_cases(self, entry, modname, fname):
        tag = f'{modname.split(".")[-1]}.{fname}'
        if modname == 'copulas.optimize':
            import copulas.optimize as O
            fn = getattr(O, fname)
            c = self.rs.uniform(0.5, 7.0, size=6)
            lo, hi = np.zeros(6), np.full(6, 3.0)
            for (k1, a), (k2, b) in zip(self.vec_kinds(lo, lists=False), self.vec_kinds(hi, lists=False)):
                yield self.mk(entry, tag, k1, lambda: fn,
                              lambda a=a, b=b: {'f': (lambda x: x ** 3 - c), 'xmin': a, 'xmax': b}, ['xmin', 'xmax'])
            for n in SIZES['rootfind']:          # size sweep: behaviour must not depend on the batch length
                cn = self.rs.uniform(0.5, 7.0, size=n)
                yield self.mk(entry, tag, f'n={n}', lambda: fn,
                              lambda cn=cn, n=n: {'f': (lambda x: x ** 3 - cn), 'xmin': np.zeros(n),
                                                  'xmax': np.full(n, 3.0)}, ['xmin', 'xmax'])
        elif modname == 'copulas.bivariate.utils':
            from copulas.bivariate.utils import split_matrix
            for kind, a in self.array_kinds(self.uniforms()) + [('empty', np.zeros((0, 2)))]:
                yield self.mk(entry, tag, kind, lambda: split_matrix, lambda a=a: {'X': a}, ['X'])
        elif modname == 'copulas.bivariate' and fname == '_compute_empirical':
            import copulas.bivariate as B
            batches = self.array_kinds(self.uniforms()) + [('closed/ndarray', self.closed_uniforms())] + \
                [(f'batch:{n}', b) for n, b in self.shortcut_batches()]
            for kind, a in batches:
                yield self.mk(entry, tag, kind, lambda: B._compute_empirical, lambda a=a: {'X': a}, ['X'])
        elif modname == 'copulas.bivariate' and fname == '_compute_tail':
            import copulas.bivariate as B
            z = np.linspace(0.05, 0.9, 8)
            c = z ** 2
            for (k1, a), (k2, b) in zip(self.vec_kinds(c), self.vec_kinds(z)):
                yield self.mk(entry, tag, k1, lambda: B._compute_tail, lambda a=a, b=b: {'c': a, 'z': b}, ['c', 'z'])
        elif modname == 'copulas.bivariate' and fname == '_compute_candidates':
            import copulas.bivariate as B
            z = np.linspace(0.05, 0.9, 8)
            for (k1, a), (k2, b) in zip(self.vec_kinds(z), self.vec_kinds(z[::-1].copy())):
                yield self.mk(entry, tag, k1, lambda: B._compute_candidates,
                              lambda a=a, b=b: {'copulas': [self.biv_model('Frank'), self.biv_model('Clayton'),
                                                            self.biv_model('Gumbel', ('theta', 1.0))],
                                                'left_tail': a, 'right_tail': b},
                              ['copulas', 'left_tail', 'right_tail'])
        elif modname == 'copulas.bivariate':
            from copulas.bivariate import select_copula
            batches = self.array_kinds(self.uniforms()) + [('closed/ndarray', self.closed_uniforms())] + \
                [(f'batch:{n}', b) for n, b in self.shortcut_batches()]
            for kind, a in batches:
                yield self.mk(entry, tag, kind, lambda: (lambda X: state(select_copula(X))),
                              lambda a=a: {'X': a}, ['X'])
        elif modname == 'copulas.datasets':
            import copulas.datasets as D
            yield self.mk(entry, tag, 'sizes', lambda: getattr(D, fname),
                          lambda: {'size': int(self.rs.randint(3, 40)), 'seed': int(self.rs.randint(0, 1000))}, [])
        elif modname == 'copulas.visualization':
            import copulas.visualization as V
            fn = getattr(V, fname)
            if fname == 'dist_1d':
                x = self.sample1d(25)
                kinds = self.vec_kinds(x) + [('DataFrame', pd.DataFrame({'col': x}))]
                for kind, a in kinds:
                    yield self.mk(entry, tag, kind, lambda: fn, lambda a=a: {'data': a, 'title': None, 'label': 'L'},
                                  ['data', 'title', 'label'])
            elif fname == 'compare_1d':
                x, y = self.sample1d(25), self.sample1d(20)
                for (k1, a), (k2, b) in zip(self.vec_kinds(x), self.vec_kinds(y)):
                    yield self.mk(entry, tag, k1, lambda: fn, lambda a=a, b=b: {'real': a, 'synth': b, 'title': None},
                                  ['real', 'synth', 'title'])
                for nr, ns in ((25, 0), (25, 1), (0, 20), (1, 20)):       # boundary table sizes
                    yield self.mk(entry, tag, f'rows{nr}/{ns}/Series', lambda: fn,
                                  lambda nr=nr, ns=ns: {'real': pd.Series(x[:nr], name='v'),
                                                        'synth': pd.Series(y[:ns], name='v'), 'title': None},
                                  ['real', 'synth', 'title'])
            else:
                dim = 2 if '2d' in fname else 3
                names = ['a', 'b', 'c', 'd']
                for nr, ns in ((9, 0), (9, 1), (0, 7), (1, 7)):           # boundary table sizes
                    real, synth = self.table(9, names[:dim]).iloc[:nr], self.table(7, names[:dim]).iloc[:ns]
                    if fname.startswith('scatter'):
                        if ns:
                            continue
                        yield self.mk(entry, tag, f'rows{nr}/list', lambda: fn,
                                      lambda real=real: {'data': real, 'columns': names[:dim], 'title': None},
                                      ['data', 'columns', 'title'])
                    else:
                        yield self.mk(entry, tag, f'rows{nr}/{ns}/list', lambda: fn,
                                      lambda real=real, synth=synth: {'real': real, 'synth': synth,
                                                                      'columns': names[:dim], 'title': None},
                                      ['real', 'synth', 'columns', 'title'])
                for width in (dim, dim + 1):
                    real, synth = self.table(9, names[:width]), self.table(7, names[:width])
                    reqs = [('none', None), ('list', names[:dim]), ('TList', TList(names[:dim])),
                            ('list-rev', list(reversed(names[:dim]))), ('empty', [])]
                    if width > dim:
                        reqs.append(('list-other', names[1:dim + 1]))
                    for kind, cols in reqs:
                        if fname.startswith('scatter'):
                            yield self.mk(entry, tag, f'w{width}/{kind}', lambda: fn,
                                          lambda real=real, cols=cols: {'data': real, 'columns': copy.copy(cols),
                                                                       'title': None}, ['data', 'columns', 'title'])
                        else:
                            yield self.mk(entry, tag, f'w{width}/{kind}', lambda: fn,
                                          lambda real=real, synth=synth, cols=cols: {
                                              'real': real, 'synth': synth, 'columns': copy.copy(cols), 'title': None},
                                          ['real', 'synth', 'columns', 'title'])


def _stub():
    from copulas.univariate import GaussianUnivariate

    class RaisingUnivariate(GaussianUnivariate):
        """a configured marginal whose fit always fails (forces the fall-back paths)"""

        def fit(self, X):
            raise ValueError('stub family: cannot be fitted')
    return RaisingUnivariate


RaisingUnivariate = _stub()


def state(obj):
    """a comparable snapshot of a model after `fit`"""
    return copy.deepcopy(obj)


def fitted_then_used(m, X):
    """history: after `fit(X)` keep using the model (the argument must stay intact through later calls that
    do not receive it); returns the snapshot taken right after the fit"""
    st = state(m)
    try:
        X2 = copy.deepcopy(X)       # later calls get their OWN data: only what `fit` retained can reach `X`
    except Exception:               # noqa
        X2 = None
    for name, args in (('sample', (3,)), ('cumulative_distribution', (X2,)), ('probability_density', (X2,)),
                       ('sample', (2,))):
        try:
            with np.errstate(all='ignore'):
                getattr(m, name)(*args)
        except Exception:      # noqa
            pass
    return st


WRITE_MSGS = ('assignment destination is read-only', 'output array is read-only', 'array is read-only',
              'sort array is read-only', 'cannot set WRITEABLE')


def call(make_fn, args):
    """build the callable (fresh model) and call it; exceptions of either step are the result"""
    with warnings.catch_warnings():
        warnings.simplefilter('ignore')
        st = np.random.get_state()
        np.random.seed(20240920)
        try:
            with np.errstate(all='ignore'):
                fn = make_fn()
                return ('ok', fn(**args))
        except Exception as e:      # noqa
            return ('exc', vc.exc_kind(e), str(e)[:120])
        finally:
            np.random.set_state(st)


def run_case(case):
    """-> dict(mutated=[param names], evidence={param: text}, reuse=None|text, reached=bool)"""
    args = case.make_args()
    before = copy.deepcopy(args)
    r1 = call(case.make_fn, args)
    evidence = {}
    for name in case.tracked:
        d = diff(before[name], args[name], name)
        if d:
            evidence[name] = d
        elif logged(args[name]):
            evidence[name] = f'{name}: mutating calls {logged(args[name])[:4]} (content restored or unchanged)'
    # second identical call on a fresh model, re-using the same argument objects
    reuse = None
    r2 = call(case.make_fn, args)
    if not evidence:
        if r1[0] != r2[0] or (r1[0] == 'exc' and r1[1] != r2[1]):
            reuse = f'first call {r1[:2]}, second call {r2[:2]}'
        elif r1[0] == 'ok':
            d = diff(r1[1], r2[1], 'result')
            if d:
                reuse = 'second call differs: ' + d
    # read-only probes: an in-place operation that leaves the values unchanged (`X += 0`) still is a write
    for name in case.tracked:
        if name in evidence or not isinstance(args.get(name), np.ndarray):
            continue
        probe = case.make_args()
        arr = np.array(probe[name], copy=True, order='K')
        arr.setflags(write=False)
        probe[name] = arr
        r3 = call(case.make_fn, probe)
        if r3[0] == 'exc' and any(m in r3[2] for m in WRITE_MSGS) and not (r1[0] == 'exc' and r1[2] == r3[2]):
            evidence[name] = f'{name}: in-place write attempted on a read-only array ({r3[2][:60]})'
    view = False
    if r1[0] == 'ok':
        outs = r1[1] if isinstance(r1[1], (tuple, list)) else [r1[1]]
        for o in outs:
            for a in args.values():
                if isinstance(o, np.ndarray) and isinstance(a, np.ndarray) and o.size and a.size \
                        and np.shares_memory(o, a):
                    view = True
    return {'mutated': sorted(evidence, key=list(case.tracked).index), 'evidence': evidence, 'reuse': reuse,
            'view': view,
            'reached': r1[0] == 'ok' or r1[1] != 'TypeError', 'result': r1[0] if r1[0] == 'ok' else r1[1]}


def render(v):
    """the argument as it was handed to the call (small values in full)"""
    try:
        if isinstance(v, np.ndarray):
            return {'ndarray': v.tolist()} if v.size <= 60 else {'ndarray-shape': list(v.shape)}
        if isinstance(v, pd.DataFrame):
            return ({'DataFrame': v.to_numpy().tolist(), 'columns': [str(c) for c in v.columns],
                     'index': [str(i) for i in v.index]} if v.size <= 60 else {'DataFrame-shape': list(v.shape)})
        if isinstance(v, pd.Series):
            return {'Series': v.tolist(), 'index': [str(i) for i in v.index]} if v.size <= 60 else \
                {'Series-shape': list(v.shape)}
        if isinstance(v, dict):
            return {type(v).__name__: {str(k): (x if isinstance(x, (int, float, str)) else getattr(x, '__name__', repr(x)[:60]))
                                       for k, x in v.items()}}
        if isinstance(v, (list, tuple)):
            return {type(v).__name__: [x if isinstance(x, (int, float, str)) else getattr(x, '__name__', repr(x)[:60])
                                       for x in list(v)[:60]]}
        if isinstance(v, (int, float, str, type(None))):
            return v
    except Exception:     # noqa
        pass
    return type(v).__name__


def describe(case, res):
    return {'entry': case.entry, 'call': case.tag, 'kind': case.label,
            'arguments': {k: render(v) for k, v in case.make_args().items()}}


# ----------------------------------------------------------------------------------- static side
def static_verdicts(ctx, lean):
    """entry name -> {'idx', 'verdict', 'size', 'params': {pname: may_write_bool}}"""
    import gen_effects
    n = int(lean.ask('effects count').split()[1])
    out = collections.OrderedDict()
    for i in range(n):
        ws = lean.ask(f'effects entry {i}').split()
        if not ws or ws[0] != 'ok':
            raise RuntimeError(f'effects entry {i}: {" ".join(ws)[:200]}')
        name, verdict, size, k = ws[1], ws[3], int(ws[4]), int(ws[5])
        params = collections.OrderedDict()
        for j in range(k):
            params[ws[6 + 3 * j]] = ws[8 + 3 * j] == '1'
        out[name] = {'idx': i, 'verdict': verdict, 'size': size, 'params': params}
    # constructors: their arguments are caller-owned for the whole life of the object, so `__init__` is judged
    # together with every other entry point of the classes that use it (one statement set, any call order)
    an = analysis()
    by_name = {e['name']: e for e in an.entries}
    for name, s in out.items():
        if not name.endswith('.__init__'):
            continue
        classes = {(t[0], t[1]) for t in by_name[name]['tags']}
        group = [out[e['name']]['idx'] for e in an.entries
                 if e['name'] != name and any((t[0], t[1]) in classes for t in e['tags'])]
        ws = lean.ask('effects lifetime ' + ' '.join(str(i) for i in [s['idx']] + group)).split()
        if ws[0] != 'ok':
            raise RuntimeError(f'effects lifetime for {name}: {" ".join(ws)[:200]}')
        for j in range(int(ws[2])):
            if ws[5 + 3 * j] == '1':
                s['params'][ws[3 + 3 * j]] = True
        if any(s['params'].values()):
            s['verdict'] = 'reject'
        s['lifetime'] = len(group)
    return out


def analysis():
    import gen_effects
    an = getattr(gen_effects.generate, 'last', None)
    if an is None or an.repo != vc.REPO:
        an = gen_effects.analyse(vc.REPO)
    return an


def entry_table():
    """[{name, tags}] of the public entry points.  Falls back to the declared table (no function bodies
    translated) when the translator rejects the working tree, so that the oracle on the real code still runs."""
    import gen_effects
    try:
        return analysis().entries
    except Exception:      # noqa  (reported by the obligation translate:Effects)
        an = gen_effects.Analysis(vc.REPO)
        return [{'name': k, 'tags': tags, 'params': [], 'fn': None} for k, _, tags in gen_effects.entry_specs(an)]


def sweep(ctx, stream, rounds, only=None):
    """dynamic observations: entry -> {'mutated': {param: (case, evidence)}, 'reuse': [(case, text)], 'cases': n}"""
    entries = entry_table()
    obs = collections.OrderedDict()
    for r in range(rounds):
        g = Gen(ctx, f'{stream}/{r}')
        for e in entries:
            if only and e['name'] not in only:
                continue
            o = obs.setdefault(e['name'], {'mutated': collections.OrderedDict(), 'reuse': [], 'cases': 0,
                                           'reached': 0, 'ok': 0})
            for tag in e['tags']:
                for case in g.cases(e['name'], tag):
                    res = run_case(case)
                    o['cases'] += 1
                    o['reached'] += bool(res['reached'])
                    o['ok'] += res['result'] == 'ok'
                    ctx.case((case.entry, case.tag, case.label, stream, r), nontrivial=res['reached'])
                    ctx.count(f'dyn:{case.tag.split(".")[-1]}:{case.label.split("/")[-1]}')
                    ctx.count(f'dyn-result:{res["result"] if res["result"] != "ok" else "ok"}')
                    if res.get('view'):
                        ctx.count(f'result-is-view-of-input:{case.tag}')      # counted, not flagged
                    for p in res['mutated']:
                        o['mutated'].setdefault(p, (describe(case, res), res['evidence'][p]))
                    if res['reuse']:
                        o['reuse'].append((describe(case, res), res['reuse']))
    return obs


def mutation_class(name, params):
    return f'{short(name)}:mutates-' + '-'.join(params)


def run(ctx, lean):
    if lean is None:
        ctx.ob('corr:static-vs-dynamic', False, 'tie', 'driver unavailable')
        return
    import gen_effects
    try:
        an = analysis()
    except Exception as e:      # noqa
        ctx.ob('translate:Effects-analysis', False, 'translate', f'{type(e).__name__}: {e}'[:400])
        plots(ctx, lean)        # the plot tie does not need the IR
        return
    sv = static_verdicts(ctx, lean)
    ctx.notes.append(f'IR: {len(an.order)} functions (incl. per-call-site clones), '
                     f'{sum(len(f.body) for f in an.order)} statements, {len(an.varnames)} variables, '
                     f'{an.rounds} translation rounds; unknown externals: {sorted(an.unknown_external)}')
    ctx.ob('translate:no-unknown-external', not an.unknown_external, 'translate',
           f'external functions without an effect entry (treated as writing their arguments): '
           f'{sorted(an.unknown_external)}')
    # ---- (a0) the program the checker sees is the program the translator produced
    bad = None
    for e in an.entries:
        i = sv[e['name']]['idx']
        ws = lean.ask(f'effects flat {i}').split()
        mine = gen_effects.python_flatten(an, e['fn'])
        theirs = set(ws[1:])
        ctx.case(('flatten', e['name']))
        if ws[0] != 'ok' or mine != theirs:
            bad = bad or {'entry': e['name'], 'only_python': sorted(mine - theirs)[:5],
                          'only_lean': sorted(theirs - mine)[:5]}
    ctx.ob('corr:decode+flatten', bad is None, 'tie', bad or f'{len(an.entries)} entry points: Lean flatten of the '
           'decoded module = independent Python linking of the IR')
    # ---- (b) dynamic validation
    obs = sweep(ctx, 'tie', 1 if ctx.scale == 1 else 3)
    ctx._c20_obs = obs
    subset_bad, accept_bad, static_only, reuse_bad, imprecise = None, None, [], None, []
    uncovered = []
    rejected = []
    for name, s in sv.items():
        o = obs.get(name, {'mutated': {}, 'reuse': [], 'cases': 0})
        may = [p for p, w in s['params'].items() if w]
        ctx.count(f'static:{s["verdict"]}')
        seen = list(o['mutated'])
        extra = [p for p in seen if p not in may]
        if extra and subset_bad is None:
            subset_bad = {'entry': name, 'observed_mutated': seen, 'may_write': may,
                          'case': o['mutated'][extra[0]][0], 'evidence': o['mutated'][extra[0]][1]}
        if s['verdict'] == 'accept' and seen and accept_bad is None:
            accept_bad = {'entry': name, 'observed_mutated': seen, 'case': o['mutated'][seen[0]][0]}
        if may:
            rejected.append((name, may, seen))
        for p in may:
            if p not in seen:
                if (name, p) in KNOWN_IMPRECISION:
                    imprecise.append(f'{short(name)}:{p}')
                else:
                    e = next(x for x in an.entries if x['name'] == name)
                    pv = next((v, c) for n, v, c in e['params'] if n == p)
                    static_only.append({'entry': name, 'param': p, 'cases_run': o['cases'],
                                        'path': gen_effects.witness(an, e['fn'], list(pv))})
        if o['reuse'] and not seen and reuse_bad is None:
            reuse_bad = {'entry': name, 'case': o['reuse'][0][0], 'diff': o['reuse'][0][1]}
        if s['params'] and (o['cases'] == 0 or (o.get('ok', 0) == 0 and name not in MAY_ALWAYS_RAISE)):
            uncovered.append({'entry': name, 'cases': o['cases'], 'returned_normally': o.get('ok', 0)})
    ctx.ob('corr:observed-mutations-within-may-write-set', subset_bad is None, 'tie', subset_bad or
           f'{sum(o["cases"] for o in obs.values())} calls on the real code with deep-snapshotted arguments')
    ctx.ob('corr:accepted-entry-points-do-not-mutate', accept_bad is None, 'tie', accept_bad or
           f'{sum(1 for s in sv.values() if s["verdict"] == "accept")} accepted entry points')
    ctx.ob('static:every-rejected-parameter-is-a-witnessed-mutation', not static_only, 'proof',
           static_only[:3] if static_only else
           f'rejected: {[(short(n), m) for n, m, _ in rejected]}; documented imprecision: {imprecise}')
    ctx.ob('tie:dynamic-coverage', not uncovered, 'tie', uncovered[:4] if uncovered else
           'every entry point with a tracked parameter returned normally in at least one snapshot case '
           f'(documented exceptions: {sorted(short(k) for k in MAY_ALWAYS_RAISE)})')
    ctx.ob('corr:reuse-same-result', reuse_bad is None, 'tie', reuse_bad or
           'second identical call on a fresh model with the same argument objects: same result')
    # ---- histories: any sequence of the individually clean public calls on shared objects
    clean = [str(s['idx']) for n, s in sv.items() if s['verdict'] == 'accept']
    r = lean.ask('effects session ' + ' '.join(clean)).split()
    ctx.case(('session', len(clean)))
    ctx.ob('static:session-of-accepted-entry-points', r[:2] == ['ok', 'accept'], 'proof',
           f'{len(clean)} entry points in one statement set (any call sequence): ' + ' '.join(r[:8]))
    for name, may, seen in rejected:
        ctx.sample({'entry': short(name), 'checker': 'reject', 'may_write': may, 'observed_mutated': seen})
    # ---- (c) plots
    plots(ctx, lean)


# ----------------------------------------------------------------------------------- plots
def canon(x):
    """exact identity of a plotted / given number: the float64 bit pattern (so -0.0, denormals and the last
    bit count; float32 and small integers are compared through their exact float64 value), big integers as such"""
    if isinstance(x, (bool, np.bool_)):
        return ('b', bool(x))
    if isinstance(x, (int, np.integer)):
        i = int(x)
        return ('f', float(i).hex()) if abs(i) < 2 ** 53 else ('i', i)
    if isinstance(x, (float, np.floating)):
        return ('f', float(x).hex())
    return ('o', repr(x))


def fig_traces(fig, dim):
    """[(label, sorted multiset of exact points)] of a figure; coordinates are NOT converted to float"""
    out = []
    for t in fig.data:
        xs = [[canon(v) for v in np.asarray(getattr(t, ax)).tolist()] for ax in ('x', 'y', 'z')[:dim]]
        out.append((t.name, sorted(zip(*xs)) if xs and len(xs[0]) else []))
    return out


def frame_points(frame, used):
    cols = [[canon(v) for v in frame[c].tolist()] for c in used]
    return sorted(zip(*cols)) if cols and len(cols[0]) else []


def approx_same(a, b):
    """same multisets up to rounding (the figure holds rounded copies of the data, not other rows)"""
    def val(c):
        return float.fromhex(c[1]) if c[0] == 'f' else float(c[1])
    if len(a) != len(b):
        return False
    if not a:
        return True
    for axis in range(len(a[0])):      # per axis (rounding may reorder / merge points)
        xs, ys = sorted(val(p[axis]) for p in a), sorted(val(p[axis]) for p in b)
        for x, y in zip(xs, ys):
            if not (x == y or abs(x - y) <= 1e-5 * max(abs(x), abs(y)) or (x == 0.0 and abs(y) < 1e-30)
                    or (np.isinf(x) and abs(y) > 1e38) or (np.isinf(y) and abs(x) > 1e38)):
                return False
    return True


VALUE_SCHEMES = ('unit', 'offset-1e12', 'epoch', 'tiny', 'huge', 'denormal', 'neg-zero', 'bigint-float', 'bigint-int64',
                 'float32')


def value_column(rng, n, scheme):
    """(python values, dtype) of one column in the given value scale"""
    ks = [rng.randint(0, 40) for _ in range(n)]
    if scheme == 'offset-1e12':
        return [1e12 + 0.25 * k for k in ks], 'float64'
    if scheme == 'epoch':
        return [1.7e9 + k for k in ks], 'float64'
    if scheme == 'tiny':
        return [1e-300 * (1 + k) for k in ks], 'float64'
    if scheme == 'huge':
        return [1e300 * (1 + k / 64.0) for k in ks], 'float64'
    if scheme == 'denormal':
        return [5e-324 * (1 + k) if k % 2 else 2.2250738585072014e-308 / (k + 2) for k in ks], 'float64'
    if scheme == 'neg-zero':
        return [rng.choice([-0.0, 0.0, -1.5, 2.5]) for _ in ks], 'float64'
    if scheme == 'bigint-float':
        return [float(2 ** 24 + 1 + 2 * k) for k in ks], 'float64'
    if scheme == 'bigint-int64':
        return [rng.choice([2 ** 24 + 1, 2 ** 40 + 3, -(2 ** 31) - 7]) + k for k in ks], 'int64'
    if scheme == 'float32':
        return [float(np.float32(rng.uniform(-5, 5))) for _ in ks], 'float32'
    return [rng.choice([0.0, 1.0, -1.0, 0.5]) if rng.random() < 0.3 else round(rng.uniform(-5, 5), 3) for _ in ks], \
        'float64'


def scaled_rows(rng, n, schemes):
    cols = [value_column(rng, n, sc) for sc in schemes]
    return [[c[0][i] for c in cols] for i in range(n)], [c[1] for c in cols]


INDEX_SCHEMES = ('default', 'strided', 'tail', 'offset', 'shuffled', 'duplicated', 'filtered', 'strings')


def with_index(rows, cols, scheme, rng, dtypes=None):
    """a frame holding exactly `rows`, whose index is what a caller gets from slicing / filtering / re-labelling"""
    n = len(rows)
    if dtypes is None:
        df = pd.DataFrame(rows, columns=cols)
    else:
        df = pd.DataFrame({c: np.array([r[j] for r in rows], dtype=dt) for j, (c, dt) in enumerate(zip(cols, dtypes))},
                          columns=cols)
    if scheme == 'strided':          # df.iloc[::2]
        df.index = pd.RangeIndex(0, 2 * n, 2)
    elif scheme == 'tail':           # df.iloc[n:]
        df.index = pd.RangeIndex(n, 2 * n)
    elif scheme == 'offset':
        df.index = pd.RangeIndex(1000, 1000 + n)
    elif scheme == 'shuffled':
        perm = list(range(n))
        rng.shuffle(perm)
        df.index = pd.Index(perm)
    elif scheme == 'duplicated':     # pd.concat([df.iloc[:k]] * m)
        df.index = pd.Index([i % max(1, (n + 1) // 2) for i in range(n)])
    elif scheme == 'filtered':       # df[mask]: an increasing subset of a longer range
        labels, cur = [], 0
        for _ in range(n):
            cur += rng.randint(1, 3)
            labels.append(cur)
        df.index = pd.Index(labels)
    elif scheme == 'strings':
        df.index = pd.Index([f'r{i}' for i in range(n)])
    return df


COLUMN_SCHEMES = ('same', 'permuted', 'extra', 'int-labels')


def column_frames(cols, real, synth, schemes, rng, dtypes, colscheme, compare):
    """(real frame, synth frame, label of each logical column).  `real` / `synth` rows are in the order of `cols`;
    the synthetic FRAME may carry the same labels in another order, extra columns, or integer labels - pandas
    aligns by label, so the figure must show the values addressed BY LABEL whatever the positions are"""
    labels = list(range(len(cols))) if colscheme == 'int-labels' else list(cols)
    fr = with_index(real, labels, schemes[0], rng, dtypes)
    fs = with_index(synth, labels, schemes[1], rng, dtypes)
    if compare and colscheme in ('permuted', 'extra', 'int-labels') and len(labels) > 1:
        perm = list(labels)
        while perm == list(labels):
            rng.shuffle(perm)
        fs = fs[perm]
    if compare and colscheme == 'extra':
        fs.insert(rng.randint(0, len(labels)), 'q', [float(i) + 0.5 for i in range(len(fs))])
    return fr, fs, labels


def plot_case(lean, fname, cols, real, synth, req, titled=False, schemes=('default', 'default'), rng=None,
              dtypes=None, colscheme='same'):
    import copulas.visualization as V
    dim = 2 if '2d' in fname else 3
    kind = 'scatter' if fname.startswith('scatter') else 'compare'
    with warnings.catch_warnings():
        warnings.simplefilter('ignore')
        try:
            title = 'T' if titled else None
            fr, fs, labels = column_frames(cols, real, synth, schemes, rng, dtypes, colscheme, kind == 'compare')
            r_req = None if req is None else [labels[cols.index(c)] if c in cols else c for c in req]
            if kind == 'scatter':
                fig = getattr(V, fname)(fr, r_req, title)
            else:
                fig = getattr(V, fname)(fr, fs, r_req, title)
            got = ('ok', fig_traces(fig, dim))
        except Exception as e:   # noqa
            got = ('err', vc.exc_kind(e))

    def rows(a):
        return f'{len(a)} ' + ' '.join(vc.f2h(x) for r in a for x in r)
    mcols, mreal, msynth = list(cols), real, synth
    if kind == 'compare' and colscheme == 'extra':
        # the stacked frame has the union of the columns; the extra one is never requested
        mcols = list(cols) + ['q']
        mreal = [list(r) + [0.0] for r in real]
        msynth = [list(r) + [0.0] for r in synth]
    line = f'plot {dim} {kind} {int(titled)} {len(mcols)} {" ".join(mcols)} '
    line += '-1 ' if req is None else f'{len(req)} {" ".join(req)} '
    line += rows(mreal) + (' ' + rows(msynth) if kind == 'compare' else '')
    ws = lean.ask(' '.join(line.split())).split()
    if ws[0] == 'err':
        want = ('err', ws[1])
    elif ws[0] == 'ok':
        k, pos, trs = int(ws[1]), 2, []
        for _ in range(k):
            name, n = ws[pos], int(ws[pos + 1])
            vals = [canon(vc.h2f(w)) for w in ws[pos + 2:pos + 2 + n * dim]]
            trs.append((name, sorted(tuple(vals[i * dim:(i + 1) * dim]) for i in range(n))))
            pos += 2 + n * dim
        want = ('ok', trs)
    else:
        want = ('bad', ' '.join(ws)[:80])
    same = got == want
    return same, got, want


def plots(ctx, lean):
    rng = ctx.rng('plots')
    bad = None
    names = ['a', 'b', 'c', 'd', 'e']
    n = 10 * ctx.scale
    def cell():
        return rng.choice([0.0, 1.0, -1.0, 0.5]) if rng.random() < 0.3 else round(rng.uniform(-5, 5), 3)
    for fname in ('scatter_2d', 'compare_2d', 'scatter_3d', 'compare_3d'):
        dim = 2 if '2d' in fname else 3
        # every index scheme at least once on each side, with a valid request (the frames a caller has after
        # slicing, filtering, re-labelling or concatenating: the figure must not depend on the index)
        pairs = [(sc, 'default') for sc in INDEX_SCHEMES] + [('default', sc) for sc in INDEX_SCHEMES[1:]]
        pairs += [(rng.choice(INDEX_SCHEMES), rng.choice(INDEX_SCHEMES)) for _ in range(2 * ctx.scale)]
        for k, schemes in enumerate(pairs):
            width = rng.choice([dim, dim + 1])
            cols = names[:width]
            nr, ns = rng.randint(3, 9), rng.randint(2, 7)
            real = [[cell() for _ in cols] for _ in range(nr)]
            synth = [[cell() for _ in cols] for _ in range(ns)]
            req = rng.sample(cols, dim) if (width > dim or rng.random() < 0.5) else None
            ok, got, want = plot_case(lean, fname, cols, real, synth, req, False, schemes, rng)
            ctx.case((fname, 'index', schemes, width, nr, ns, k), nontrivial=True)
            ctx.count(f'plot-index:{schemes[0]}/{schemes[1]}')
            ctx.count(f'plot:{fname}:{got[0] if got[0] == "ok" else got[1]}')
            if not ok and bad is None:
                bad = {'builder': fname, 'columns': cols, 'request': req, 'index_schemes': schemes, 'real': real,
                       'synth': synth, 'figure': got, 'model': want}
        # boundary table sizes: zero-row and one-row tables on either side (a label without rows has no trace;
        # the rows of the other table must stay under their own label)
        sizes = [(0, 0), (0, 1), (1, 0), (1, 1), (0, 3), (3, 0), (1, 4), (4, 1)] if fname.startswith('compare') \
            else [(0, 0), (1, 0), (2, 0)]
        for k, (nr, ns) in enumerate(sizes):
            for with_cols in (False, True):
                width = dim + 1 if with_cols else dim
                cols = names[:width]
                real = [[cell() for _ in cols] for _ in range(nr)]
                synth = [[cell() for _ in cols] for _ in range(ns)]
                req = rng.sample(cols, dim) if with_cols else None
                schemes = (rng.choice(INDEX_SCHEMES), rng.choice(INDEX_SCHEMES))
                ok, got, want = plot_case(lean, fname, cols, real, synth, req, bool(k % 2), schemes, rng,
                                          ['float64'] * width)
                ctx.case((fname, 'sizes', nr, ns, with_cols), nontrivial=True)
                ctx.count(f'plot-sizes:{nr}/{ns}')
                ctx.count(f'plot:{fname}:{got[0] if got[0] == "ok" else got[1]}')
                if not ok and bad is None:
                    bad = {'builder': fname, 'columns': cols, 'request': req, 'rows_real': nr, 'rows_synth': ns,
                           'index_schemes': schemes, 'real': real, 'synth': synth, 'figure': got, 'model': want}
        # column order: the synthetic frame with the same labels permuted / with an extra column / integer labels,
        # and `columns=` in an order different from the frame's: coordinates are addressed BY LABEL
        applicable = COLUMN_SCHEMES if fname.startswith('compare') else ('same', 'int-labels')
        for k, (cs, with_cols) in enumerate([(c, w) for c in applicable for w in (False, True, True)]):
            width = dim + 1 if (with_cols and k % 2) else dim
            cols = names[:width]
            nr, ns = rng.randint(3, 8), rng.randint(2, 6)
            real = [[cell() for _ in cols] for _ in range(nr)]
            synth = [[cell() for _ in cols] for _ in range(ns)]
            req = None
            if with_cols:
                req = rng.sample(cols, dim)
                while req == cols[:dim]:
                    rng.shuffle(req)
            schemes = (rng.choice(INDEX_SCHEMES), rng.choice(INDEX_SCHEMES))
            ok, got, want = plot_case(lean, fname, cols, real, synth, req, False, schemes, rng, None, cs)
            ctx.case((fname, 'columns', cs, with_cols, width, k), nontrivial=True)
            ctx.count(f'plot-columns:{cs}:{"given" if with_cols else "default"}')
            ctx.count(f'plot:{fname}:{got[0] if got[0] == "ok" else got[1]}')
            if not ok and bad is None:
                bad = {'builder': fname, 'columns': cols, 'column_scheme': cs, 'request': req,
                       'index_schemes': schemes, 'real': real, 'synth': synth, 'figure': got, 'model': want}
        # every value scale at least once with and without `columns`: the figure holds EXACTLY the given numbers
        # (bitwise: large offsets with fine spacing, epoch seconds, 1e-300, 1e300, denormals, -0.0, integers
        # beyond 2**24 as float64 and as int64, float32 columns)
        for k, (vs, with_cols) in enumerate([(v, w) for v in VALUE_SCHEMES for w in (False, True)]):
            width = dim + 1 if with_cols else dim
            cols = names[:width]
            vschemes = [vs] + [rng.choice(VALUE_SCHEMES) for _ in range(width - 1)]
            rng.shuffle(vschemes)
            nr, ns = rng.randint(3, 8), rng.randint(2, 6)
            real, dtypes = scaled_rows(rng, nr, vschemes)
            synth, _ = scaled_rows(rng, ns, vschemes)
            req = None
            if with_cols:
                req = [cols[vschemes.index(vs)]] + rng.sample([c for c in cols if c != cols[vschemes.index(vs)]],
                                                              dim - 1)
                rng.shuffle(req)
            schemes = (rng.choice(INDEX_SCHEMES), rng.choice(INDEX_SCHEMES))
            cs = rng.choice(COLUMN_SCHEMES if fname.startswith('compare') else ('same', 'int-labels'))
            ok, got, want = plot_case(lean, fname, cols, real, synth, req, False, schemes, rng, dtypes, cs)
            ctx.case((fname, 'values', tuple(vschemes), with_cols, cs, k), nontrivial=True)
            ctx.count(f'plot-values:{vs}')
            ctx.count(f'plot:{fname}:{got[0] if got[0] == "ok" else got[1]}')
            if not ok and bad is None:
                bad = {'builder': fname, 'columns': cols, 'dtypes': dtypes, 'value_scales': vschemes, 'request': req,
                       'column_scheme': cs,
                       'index_schemes': schemes, 'real': real, 'synth': synth, 'figure': got, 'model': want}
        for k in range(n):
            width = rng.choice([dim, dim, dim + 1, 4, 2])
            cols = names[:width]
            nr = rng.choice([0, 1, 2, 5, 12]) if k % 3 else rng.randint(1, 12)
            ns = rng.choice([0, 1, 3, 8])
            if fname.startswith('scatter') and nr == 0:
                nr = 1
            if nr + ns == 0:
                ns = 2
            real = [[cell() for _ in cols] for _ in range(nr)]
            synth = [[cell() for _ in cols] for _ in range(ns)]
            mode = rng.choice(['none', 'empty', 'valid', 'valid', 'valid', 'arity-', 'arity+', 'unknown'])
            if mode == 'none':
                req = None
            elif mode == 'empty':
                req = []
            elif mode == 'valid' and width >= dim:
                req = rng.sample(cols, dim)
            elif mode == 'arity-':
                req = rng.sample(cols, max(1, min(width, dim - 1)))
            elif mode == 'arity+' and width > dim:
                req = rng.sample(cols, dim + 1)
            elif mode == 'unknown' and width >= dim:
                req = rng.sample(cols, dim - 1) + ['zz']
                rng.shuffle(req)
            else:
                req = None
            titled = rng.random() < 0.4
            schemes = (rng.choice(INDEX_SCHEMES), rng.choice(INDEX_SCHEMES))
            ok, got, want = plot_case(lean, fname, cols, real, synth, req, titled, schemes, rng)
            ctx.case((fname, width, nr, ns, tuple(req) if req is not None else None, titled, k),
                     nontrivial=nr + ns > 0)
            ctx.count(f'plot:{fname}:{got[0] if got[0] == "ok" else got[1]}')
            if not ok and bad is None:
                bad = {'builder': fname, 'columns': cols, 'request': req, 'titled': titled, 'index_schemes': schemes,
                       'real': real, 'synth': synth,
                       'figure': got, 'model': want}
    ctx.ob('corr:plots-figure-data-vs-model', bad is None, 'tie', bad or 'Figure.data = traces predicted by the model')


# ----------------------------------------------------------------------------------- oracle on the real code
def search(ctx, deep):
    """snapshot / compare on the real code only (no Lean): every mutated argument is a failing input"""
    if not deep and getattr(ctx, '_c20_obs', None) is not None:
        obs = ctx._c20_obs          # quick tier: the observations of the tie ARE calls on the real code
    else:
        obs = sweep(ctx, 'search', 4 if deep else 1)
    found, calls = 0, 0
    known = {k['class'] for k in vc.load_known().get('findings', []) if k['property'] == ctx.prop}
    hit = set()
    for name, o in obs.items():
        calls += o['cases']
        if o['mutated']:
            params = list(o['mutated'])
            case, ev = next(iter(o['mutated'].values()))
            cls = mutation_class(name, params)
            hit.add(cls)
            found += 1
            ctx.fail_input(short(name), case, {'mutated_arguments': params,
                                               'evidence': [o['mutated'][p][1] for p in params]},
                           'no caller-owned argument object is modified by the call', cls)
        elif o['reuse']:
            found += 1
            case, text = o['reuse'][0]
            ctx.fail_input(short(name), case, text, 'a second identical call re-using the same argument objects '
                           'gives the same result', f'{short(name)}:reuse-differs')
    # plots on the real code: every row once under the right label (independent of the Lean model)
    pf = plot_oracle(ctx, 2 * len(VALUE_SCHEMES) * (3 if deep else 1))
    found += pf
    for c in sorted(known - hit):
        ctx.known_absent.append(c)
    ctx.support = {'calls_with_snapshots': calls, 'entry_points': len(obs), 'failing_classes': found, 'deep': deep}


def plot_oracle(ctx, n):
    """the statement itself on the real code: per label, the plotted coordinates are EXACTLY (bitwise for floats,
    as multisets) the rows of the given table for the requested columns - over index schemes and value scales"""
    import copulas.visualization as V
    rng = ctx.rng('plot-oracle')
    found = 0
    for fname in ('scatter_2d', 'compare_2d', 'scatter_3d', 'compare_3d'):
        dim = 2 if '2d' in fname else 3
        for k in range(max(n, 2 * len(VALUE_SCHEMES))):
            vs = VALUE_SCHEMES[(k // 2) % len(VALUE_SCHEMES)]
            with_cols = bool(k % 2)
            width = dim + 1 if with_cols else dim
            cols = ['a', 'b', 'c', 'd'][:width]
            vschemes = [vs] + [rng.choice(VALUE_SCHEMES) for _ in range(width - 1)]
            rng.shuffle(vschemes)
            schemes = (INDEX_SCHEMES[k % len(INDEX_SCHEMES)], rng.choice(INDEX_SCHEMES))
            if k >= len(INDEX_SCHEMES):
                schemes = (rng.choice(INDEX_SCHEMES), INDEX_SCHEMES[k % len(INDEX_SCHEMES)])
            sizes = [(0, 0), (1, 0), (0, 1), (1, 1), (3, 0), (0, 3), (4, 1), (1, 4)]
            if k < len(sizes):           # boundary table sizes first (zero / one row on either side)
                nr, ns = sizes[k]
            else:
                nr, ns = rng.randint(2, 9), rng.randint(2, 7)
            rrows, dtypes = scaled_rows(rng, nr, vschemes)
            srows, _ = scaled_rows(rng, ns, vschemes)
            applicable = COLUMN_SCHEMES if fname.startswith('compare') else ('same', 'int-labels')
            cs = applicable[(k // 2) % len(applicable)]
            real, synth, labels = column_frames(cols, rrows, srows, schemes, rng, dtypes, cs,
                                                fname.startswith('compare'))
            req = None
            if with_cols:
                key = labels[vschemes.index(vs)]
                req = [key] + rng.sample([c for c in labels if c != key], dim - 1)
                rng.shuffle(req)
            elif cs == 'extra' and fname.startswith('compare'):
                req = list(labels[:dim])        # default columns of a stacked frame with an extra column: arity error
            used = req or labels
            inp = {'columns': [str(c) for c in labels], 'synth_columns': [str(c) for c in synth.columns],
                   'column_scheme': cs, 'dtypes': dtypes, 'value_scales': vschemes,
                   'request': None if req is None else [str(c) for c in req],
                   'real_index': [str(i) for i in real.index], 'synth_index': [str(i) for i in synth.index],
                   'real': [[repr(v) for v in r] for r in rrows], 'synth': [[repr(v) for v in r] for r in srows]}
            with warnings.catch_warnings():
                warnings.simplefilter('ignore')
                try:
                    if fname.startswith('scatter'):
                        fig = getattr(V, fname)(real, None if req is None else list(req))
                    else:
                        fig = getattr(V, fname)(real, synth, None if req is None else list(req))
                except Exception as e:   # noqa
                    found += 1
                    ctx.fail_input(f'visualization.{fname}', inp, f'{type(e).__name__}: {e}'[:200],
                                   'a figure is produced for a valid request', f'visualization.{fname}:raises')
                    continue
            tr = dict(fig_traces(fig, dim))
            want = {'Real': frame_points(real, used)}
            if fname.startswith('compare'):
                want['Synthetic'] = frame_points(synth, used)
            want = {l: pts for l, pts in want.items() if pts}      # a label without rows has no trace
            if tr != want or len(fig.data) != len(want):
                found += 1
                rounded = bool(want) and set(tr) == set(want) and all(approx_same(tr[l], want[l]) for l in want)
                shown = {'rows_real': len(rrows), 'rows_synth': len(srows),
                         'traces': {l: len(p) for l, p in tr.items()}}
                for l in sorted(set(want) | set(tr)):
                    extra = [p for p in tr.get(l, []) if p not in want.get(l, [])][:3]
                    missing = [p for p in want.get(l, []) if p not in tr.get(l, [])][:3]
                    shown[l] = {'plotted_but_not_given': [[float.fromhex(c[1]) if c[0] == 'f' else c[1] for c in p]
                                                          for p in extra],
                                'given_but_not_plotted': [[float.fromhex(c[1]) if c[0] == 'f' else c[1] for c in p]
                                                          for p in missing]}
                ctx.fail_input(f'visualization.{fname}', inp, shown,
                               'the figure contains every given row exactly (bitwise) once under the correct '
                               'Real/Synthetic label',
                               f'visualization.{fname}:' + ('points-not-exactly-the-data' if rounded else 'wrong-points'))
    return found


def replay(ctx, payload):
    before = len(ctx.failing)
    search(ctx, True)
    return any(f['class'] == payload.get('class') for f in ctx.failing[before:])
