"""C10 — Bivariate fit calibrates theta to the data's Kendall tau or refuses."""
import math

import numpy as np
from scipy import stats

import vcommon as vc
from props import bivlib as B

GEN_TARGETS = ('Bivariate',)
DRIVER_MAIN = 'Main/Biv.lean'
DRIVER_TARGETS = ['CopVerif.Driver.Biv']
ALWAYS_SEARCH = True
RULE = ('(n,2) pseudo-observation arrays, n in 2..400: Gaussian-copula samples over a tau grid, heavy ties (rounded), '
        'strictly monotone / anti-monotone, one or both columns constant, values outside [0,1], tau forced to 0; for each '
        'array and family the real fit (result kind, .tau, .theta, usability afterwards) is compared with the Lean model '
        'of fit run at Float on the quantities the code derives from the data (min/max, kendalltau, constant flags, '
        'Frank solver output), and scipy kendalltau with the Lean tau-b; distinct by (kind, n, family, data hash), '
        'non-trivial when n >= 3')
PARTIAL = ['Props/C10c: for the ideal calibration tau(theta) (lower limit 0): oddness, strict monotonicity on R\\{0}, bounds and limits +-1, existence and uniqueness of theta for every tau0 in (-1,1)\\{0}; for the code\'s epsilon-shifted residual: exact shift -4 int_0^eps/theta^2 (|.| <= 4 eps/theta^2), existence+uniqueness of the positive root, the spurious positive root for tau0 <= 0 (mechanism of the recorded near-zero finding) and non-monotonicity on the negative axis',
           'Frank: accuracy of least_squares/quad is an external hypothesis; the calibrated theta deviates from the '
           'root of tau(theta)=tau by ~4.8e-7/theta^2 because the Debye integral starts at EPSILON (known finding)',
           'Frank tau(theta) strictly monotone (uniqueness of the calibration): not proved',
           'tau = +-1 (theta = inf / solver bound): outside the property quantifier tau in (-1,1)']
ASSUMPTIONS = ['scipy.stats.kendalltau = tau-b (cross-checked against the Lean executable tau-b every run)',
               'scipy least_squares / quad as external solver for Frank']


def gen_arrays(rng, nprng, count):
    out = []
    for i in range(count):
        kind = rng.choice(['gauss', 'gauss', 'gauss', 'ties', 'mono', 'anti', 'constU', 'constV', 'constBoth',
                           'outside', 'tiny', 'indep', 'tau0', 'strong', 'strong', 'edge', 'nearties'])
        n = rng.choice([2, 3, 4, 5, 8, 20, 60, 150, 400])
        if kind in ('gauss', 'ties'):
            rho = rng.uniform(-0.95, 0.95)
            z = nprng.multivariate_normal([0, 0], [[1, rho], [rho, 1]], size=n)
            X = stats.norm.cdf(z)
            if kind == 'ties':
                X = np.round(X, rng.choice([1, 1, 2]))
        elif kind == 'strong':
            # near-(anti)monotone: a sorted sequence with a few adjacent transpositions => |tau| in (0.9, 1)
            n = max(n, 20)
            u = np.sort(nprng.uniform(0.01, 0.99, size=n))
            v = u.copy()
            for _ in range(rng.randrange(1, max(2, n // 6))):
                i = rng.randrange(n - 1)
                v[i], v[i + 1] = v[i + 1], v[i]
            X = np.column_stack((u, v if rng.random() < 0.5 else 1 - v))
        elif kind == 'edge':
            # values just outside [0,1] by less than float32 eps, and exactly on the boundary
            X = nprng.uniform(size=(max(n, 3), 2))
            X[rng.randrange(len(X)), rng.randrange(2)] = rng.choice([1 + 1e-8, -1e-10, float(np.nextafter(1.0, 2.0)),
                                                                      float(np.nextafter(0.0, -1.0)), 0.0, 1.0])
        elif kind == 'nearties':
            # distinct values closer than 1e-9 to each other and to 0/1 (far-tail probabilities)
            n = max(n, 8)
            z = nprng.normal(size=(n, 2)) * 1.2
            z[: n // 2] += np.array([6.5, 6.5]) * np.sign(nprng.normal(size=(n // 2, 1)))
            X = stats.norm.cdf(z)
        elif kind == 'mono':
            u = np.sort(nprng.uniform(size=n))
            X = np.column_stack((u, u ** rng.choice([0.5, 1, 2])))
        elif kind == 'anti':
            u = np.sort(nprng.uniform(size=n))
            X = np.column_stack((u, 1 - u))
        elif kind == 'constU':
            X = np.column_stack((np.full(n, rng.random()), nprng.uniform(size=n)))
        elif kind == 'constV':
            X = np.column_stack((nprng.uniform(size=n), np.full(n, rng.random())))
        elif kind == 'constBoth':
            X = np.column_stack((np.full(n, 0.3), np.full(n, 0.7)))
        elif kind == 'outside':
            X = nprng.uniform(size=(n, 2))
            X[rng.randrange(n), rng.randrange(2)] = rng.choice([-0.01, 1.01, -5.0, 2.0, 1 + 1e-12])
        elif kind == 'tiny':
            n = rng.choice([2, 3])
            X = nprng.uniform(size=(n, 2))
        elif kind == 'tau0':
            # exactly tau = 0: a 4-point configuration with 3 concordant and 3 discordant pairs
            X = np.array([[0.1, 0.2], [0.2, 0.4], [0.3, 0.1], [0.4, 0.3]]) if rng.random() < 0.5 else \
                np.array([[0.1, 0.5], [0.3, 0.2], [0.6, 0.9], [0.8, 0.3], [0.9, 0.55]])
        else:
            X = nprng.uniform(size=(n, 2))
        out.append((kind, np.ascontiguousarray(X, dtype=float)))
    return out


def real_fit(fam, X, errstate=None):
    c = B.cls_of(fam)()
    try:
        with np.errstate(**(errstate or {'all': 'ignore'})):
            c.fit(X)
        res = 'ok'
    except Exception as e:  # noqa
        res = 'err ' + vc.exc_kind(e)
    try:
        c.check_fit()
        us = 'usable'
    except Exception as e:  # noqa
        us = 'unusable:' + vc.exc_kind(e)
    return res, c.tau, c.theta, us, c


def frank_solver(tau):
    f = B.cls_of('frank')()
    f.tau = tau
    try:
        with np.errstate(all='ignore'):
            return float(f.compute_theta())
    except Exception:  # noqa
        return float('nan')


def fmt_opt(x):
    return 'none' if x is None else vc.f2h(float(x))


def run(ctx, lean):
    rng = ctx.rng('fit')
    nprng = ctx.nprng('fit')
    arrays = gen_arrays(rng, nprng, 45 * ctx.scale)
    bad_fit = bad_tau = None
    for kind, X in arrays:
        U, V = X[:, 0], X[:, 1]
        with np.errstate(all='ignore'):
            tau = float(stats.kendalltau(U, V)[0])
        key = (kind, len(X), hash(X.tobytes()))
        # --- tau-b: scipy vs the Lean executable model
        if lean is not None:
            r = lean.ask('biv taub ' + ' '.join(vc.f2h(a) + ' ' + vc.f2h(b) for a, b in X))
            ws = r.split()
            ctx.case(('taub',) + key, nontrivial=len(X) >= 3)
            if ws[0] != 'ok':
                bad_tau = bad_tau or {'X': X.tolist(), 'reply': r}
            else:
                t2 = vc.h2f(ws[1])
                if not B.close(tau, t2, 1e-12, 1e-13):
                    bad_tau = bad_tau or {'X': X.tolist()[:8], 'scipy': tau, 'lean': t2, 'counts': ws[2:]}
        for fam in B.FAMS:
            res, rtau, rtheta, us, _ = real_fit(fam, X)
            ctx.count(f'{fam}.{kind}.{res}')
            ctx.case(('fit', fam) + key, nontrivial=len(X) >= 3)
            if lean is None:
                continue
            fth = frank_solver(tau) if (fam == 'frank' and tau == tau) else 0.0
            uc = int(len(np.unique(U)) == 1)
            vcn = int(len(np.unique(V)) == 1)
            line = (f'biv fit {fam} {uc} {vcn} ' + ' '.join(vc.f2h(x) for x in
                    (U.min(), U.max(), V.min(), V.max(), tau, fth)))
            m = lean.ask(line)
            want = f'{res} tau={fmt_opt(rtau)} theta={fmt_opt(rtheta)} {us}'
            if m != want and not same_up_to_nan(m, want):
                bad_fit = bad_fit or {'family': fam, 'kind': kind, 'X': X.tolist()[:8], 'real': want, 'model': m}
            if len(ctx.samples) < 4:
                ctx.sample({'family': fam, 'kind': kind, 'n': len(X), 'tau': tau, 'real': want})
    if lean is None:
        ctx.ob('corr:Bivariate.fit~Model.fit', False, 'tie', 'driver unavailable')
        ctx.ob('corr:kendalltau~Model.Kendall.tauB', False, 'tie', 'driver unavailable')
    else:
        ctx.ob('corr:Bivariate.fit~Model.fit', bad_fit is None, 'tie', bad_fit or 'ok')
        ctx.ob('corr:kendalltau~Model.Kendall.tauB', bad_tau is None, 'tie', bad_tau or 'ok')
    # closed-form calibrations: generated computeTheta vs real compute_theta (bit-exact: + - * / only)
    bad = None
    if lean is not None:
        for fam in ('clayton', 'gumbel'):
            for _ in range(30 * ctx.scale):
                tau = rng.choice([rng.uniform(-1, 1), rng.uniform(0, 1), 0.0, 1.0, -1.0, 0.5])
                c = B.cls_of(fam)()
                c.tau = tau
                try:
                    with np.errstate(all='ignore'):
                        r1 = ('ok', [float(c.compute_theta())])
                except Exception as e:  # noqa
                    r1 = ('err', vc.exc_kind(e))
                r2 = lean.floats(f'biv ctheta {fam} {vc.f2h(tau)}')
                ctx.case(('ctheta', fam, tau))
                if r1[0] != r2[0] or (r1[0] == 'ok' and not (r1[1][0] == r2[1][0])) or (r1[0] == 'err' and r1[1] != r2[1]):
                    bad = bad or {'family': fam, 'tau': tau, 'real': r1, 'model': r2}
        ctx.ob('tv:compute_theta(bit-exact)', bad is None, 'tie', bad or 'ok')
    else:
        ctx.ob('tv:compute_theta(bit-exact)', False, 'tie', 'driver unavailable')


def same_up_to_nan(a, b):
    """tau=NaN is printed with its bit pattern; numpy/scipy NaNs may carry a different payload/sign."""
    wa, wb = a.split(), b.split()
    if len(wa) != len(wb):
        return False
    for x, y in zip(wa, wb):
        if x == y:
            continue
        if '=' in x and '=' in y and x.split('=')[0] == y.split('=')[0]:
            hx, hy = x.split('=')[1], y.split('=')[1]
            try:
                fx, fy = vc.h2f(hx), vc.h2f(hy)
                if fx != fx and fy != fy:
                    continue
            except ValueError:
                pass
        return False
    return True


# ------------------------------------------------------------------ oracle on the real code
def search(ctx, deep):
    rng = ctx.rng('search')
    nprng = ctx.nprng('search')
    arrays = gen_arrays(rng, nprng, 60 * (6 if deep else 1))
    # forced: very strong but imperfect dependence, tau = 1 - 4k/(n(n-1)) within 1e-5 .. 1e-6 of +-1 (one or two
    # adjacent transpositions in a long monotone sequence): theta must still be the finite calibration of tau
    for n_, k_, sign in ((700, 1, 1), (2000, 1, 1), (1500, 2, -1), (10000, 1, 1)):    # the last: 1 - tau = 4e-8 < float32 eps
        u = (np.arange(n_) + 0.5) / n_
        v = u.copy()
        for j in range(k_):
            a = (n_ // 3) * (j + 1)
            v[a], v[a + 1] = v[a + 1], v[a]
        arrays.insert(0, ('nearperfect', np.column_stack((u, v if sign > 0 else 1 - v))))
    checked = found = 0
    for kind, X in arrays:
        U, V = X[:, 0], X[:, 1]
        with np.errstate(all='ignore'):
            tau = float(stats.kendalltau(U, V)[0])
        outside = bool(X.min() < 0 or X.max() > 1)
        const = len(np.unique(U)) == 1 or len(np.unique(V)) == 1
        for fam in B.FAMS:
            res, rtau, rtheta, us, c = real_fit(fam, X)
            checked += 1

            def bad(what, obs, req):
                nonlocal found
                found += 1
                ctx.fail_input(f'{fam}.fit', {'X': X.tolist()[:12], 'n': len(X), 'kind': kind, 'tau': tau},
                               obs, req, f'{fam}.fit:{what}')
            if outside or const:
                if res != 'err ValueError':
                    bad('invalid-data-not-refused', res, 'ValueError for a constant column or a value outside [0,1]')
                continue
            if tau != tau:
                continue
            if (abs(tau) >= 1 - 1e-9 or checked % 5 == 0) and res in ('ok', 'err ValueError'):
                # the decision (a theta, or ValueError) is a function of the data: a caller whose process runs with
                # numpy's divide errors raised (np.seterr(divide='raise')) gets the same one, not a third outcome
                res2, _, th2, _, _ = real_fit(fam, X, {'divide': 'raise'})
                same = res2 == res and (res != 'ok' or th2 == rtheta or (th2 != th2 and rtheta != rtheta))
                if not same:
                    bad('outcome-depends-on-ambient-numpy-error-state',
                        {'default': [res, rtheta], "under np.errstate(divide='raise')": [res2, th2]},
                        'fit calibrates theta or raises ValueError, whatever numpy error state the caller runs under')
            if abs(tau) >= 1 - 1e-9:
                continue        # (numerically) monotone data: outside the property's tau in (-1,1)
            admissible = {'clayton': tau > 0, 'gumbel': tau >= 0, 'frank': tau != 0}[fam]
            if res == 'ok':
                if us != 'usable':
                    bad('accepted-but-unusable', {'theta': rtheta, 'after': us}, 'a successful fit leaves a usable model')
                    continue
                if not (rtau == tau):
                    bad('tau-not-kendall', [rtau, tau], 'model.tau = Kendall tau-b of the columns')
                th = float(rtheta)
                if not math.isfinite(th) and fam in ('clayton', 'gumbel'):
                    # tau is strictly inside (-1,1) here: the calibration 2tau/(1-tau), 1/(1-tau) is finite
                    bad('calibration', {'theta': th}, 'theta is the finite calibration of a tau strictly below 1')
                if math.isfinite(th) and th != 0:
                    err = B.tau_of(fam, th) - tau
                    tol = 1e-6 if fam != 'frank' else 1e-5
                    if not abs(err) <= tol:
                        cls = 'calibration'
                        if fam == 'frank' and abs(tau) < 0.03:
                            cls = 'calibration-inaccurate-near-zero-tau'
                        elif fam == 'frank' and abs(th) >= 690.0 and abs(tau) >= 0.994:
                            cls = 'theta-clamped-at-solver-bound'
                        bad(cls, {'theta': th, 'tau(theta)-tau': err}, f'theoretical tau of theta equals the sample tau (|err| <= {tol})')
                if math.isfinite(th) and fam in ('clayton', 'gumbel') and admissible and tau > 0:
                    # closed forms: 1 - tau(theta) is 2/(theta+2), 1/theta, and must equal 1 - tau to rounding
                    # (a relative statement: an absolute tolerance on tau is blind once 1 - tau is below it)
                    comp = 1.0 / th if fam == 'gumbel' else 2.0 / (th + 2.0)
                    rel = abs(comp - (1.0 - tau)) / (1.0 - tau)
                    if not rel <= 1e-9:
                        bad('calibration', {'theta': th, '1-tau(theta)': comp, '1-tau': 1.0 - tau, 'relative_error': rel},
                            'theoretical tau of theta equals the sample tau: 1 - tau(theta) = 1 - tau to 1e-9 relative')
                if not admissible:
                    cls = 'inadmissible-accepted'
                    if fam == 'frank' and tau == 0:
                        cls = 'calibration-inaccurate-near-zero-tau'
                    bad(cls, {'theta': rtheta}, 'no admissible theta exists: fit must raise ValueError')
            else:
                if res != 'err ValueError':
                    bad('wrong-exception', res, 'refusal must be ValueError')
                elif admissible:
                    bad('admissible-refused', res, 'an admissible theta exists: fit must succeed')
                if us == 'usable':
                    # a refused fit on a fresh object must not leave a usable model behind
                    bad('refused-but-usable', {'theta': rtheta}, 'refused fit leaves no usable model')
    # construction routes and data forms: the outcome of fit is a function of the VALUES of the data, whatever route
    # built the object (constructor, factory by name / upper-case name / enum, from_dict of an unfitted model) and
    # whatever dtype / layout carries the values; out-of-range values are refused in every dtype
    from copulas.bivariate import Bivariate, CopulaTypes
    fixed = [('tau0', np.array([[0.1, 0.2], [0.2, 0.4], [0.3, 0.1], [0.4, 0.3]])),
             ('pos', np.column_stack((np.linspace(0.05, 0.95, 19), np.linspace(0.05, 0.95, 19)[[1, 0, 2, 4, 3, 5, 6, 8, 7, 9, 10, 12, 11, 13, 14, 16, 15, 17, 18]]))),
             ('neg', np.column_stack((np.linspace(0.05, 0.95, 15), 1 - np.linspace(0.05, 0.95, 15)[[1, 0, 2, 4, 3, 5, 6, 8, 7, 9, 10, 12, 11, 13, 14]])))]
    for fam in B.FAMS:
        enum = {'clayton': CopulaTypes.CLAYTON, 'frank': CopulaTypes.FRANK, 'gumbel': CopulaTypes.GUMBEL}[fam]
        makers = {'factory-name': lambda: Bivariate(copula_type=fam), 'factory-upper': lambda: Bivariate(copula_type=fam.upper()),
                  'factory-enum': lambda: Bivariate(copula_type=enum),
                  'from_dict-unfitted': lambda: Bivariate.from_dict(B.cls_of(fam)().to_dict())}
        for dname, X in fixed:
            ref = real_fit(fam, X)[:4]
            for rname, mk in makers.items():
                checked += 1
                try:
                    obj = mk()
                except Exception as e:  # noqa
                    ctx.count(f'route:{rname}:unavailable({vc.exc_kind(e)})')
                    continue
                try:
                    with np.errstate(all='ignore'):
                        obj.fit(X)
                    res = 'ok'
                except Exception as e:  # noqa
                    res = 'err ' + vc.exc_kind(e)
                try:
                    obj.check_fit()
                    us = 'usable'
                except Exception as e:  # noqa
                    us = 'unusable:' + vc.exc_kind(e)
                got = (res, obj.tau, obj.theta, us)
                same = got[0] == ref[0] and got[3] == ref[3] and (got[0] != 'ok' or (got[1] == ref[1] and got[2] == ref[2]))
                if not same:
                    found += 1
                    ctx.fail_input(f'{fam}.fit', {'route': rname, 'data': dname, 'X': X.tolist()},
                                   {'this_route': [str(x) for x in got], 'constructor': [str(x) for x in ref]},
                                   'fit decides and calibrates the same way whatever route built the object',
                                   f'{fam}.fit:depends-on-construction-route')
                    break
        # data forms
        base = fixed[1][1]
        refb = real_fit(fam, base)[:4]
        forms = {'fortran': np.asfortranarray(base), 'object-dtype': base.astype(object), 'strided': np.repeat(base, 2, axis=0)[::2],
                 'readonly': base.copy()}
        forms['readonly'].setflags(write=False)
        for fname, Xf in forms.items():
            checked += 1
            got = real_fit(fam, Xf)[:4]
            if not (got[0] == refb[0] and got[3] == refb[3] and (got[0] != 'ok' or (float(got[1]) == float(refb[1]) and float(got[2]) == float(refb[2])))):
                found += 1
                ctx.fail_input(f'{fam}.fit', {'data_form': fname, 'X': base.tolist()},
                               {'this_form': [str(x) for x in got], 'float64_C_order': [str(x) for x in refb]},
                               'fit is a function of the values of the data', f'{fam}.fit:depends-on-data-form')
        bad_forms = {'int-0-1-2': np.array([[0, 1], [1, 2], [2, 0], [1, 1], [0, 2]]), 'int-ranks': np.column_stack((np.arange(1, 9), np.arange(1, 9)[::-1])),
                     'int-negative': np.array([[0, 1], [1, 0], [-1, 1], [0, 0]]), 'object-out-of-range': np.array([[0.2, 0.4], [0.5, 1.5], [0.7, 0.1]], dtype=object),
                     'float32-out-of-range': np.array([[0.2, 0.4], [0.5, 1.5], [0.7, 0.1]], dtype=np.float32)}
        # one out-of-range value anywhere in a LONG array (lengths around and between multiples of 256 / 1024: first row,
        # middle, last row, last-but-k): refused like in a short one
        for n_ in (1025, 1100, 1500, 2049, 5003):
            base_ = np.random.RandomState(n_).uniform(0.01, 0.99, size=(n_, 2))
            for pos in (0, n_ // 2, n_ - 1, n_ - 1 - (n_ % 256) // 2):
                for colj, val in ((0, 1.0000001), (1, -1e-9)):
                    Xl = base_.copy()
                    Xl[pos, colj] = val
                    bad_forms[f'long-n{n_}-row{pos}-col{colj}'] = Xl
        for fname, Xf in bad_forms.items():
            checked += 1
            got = real_fit(fam, Xf)
            if got[0] != 'err ValueError':
                found += 1
                ctx.fail_input(f'{fam}.fit', {'data_form': fname, 'X': Xf.tolist() if len(Xf) < 50 else 'RandomState(n).uniform(0.01, 0.99, (n,2)) with one cell replaced (see data_form)'}, got[0],
                               'a value outside [0,1] is refused with ValueError in every dtype, at every position of an array of any length', f'{fam}.fit:invalid-data-not-refused')
                if fname.startswith('long-'):
                    break
    # history with refusals: a refused fit must not influence a later fit on the same object
    refusing = [X for kind, X in arrays if kind in ('gauss', 'ties', 'anti', 'tau0', 'tiny') and len(X) >= 2][:10]
    for fam in B.FAMS:
        for X in refusing:
            fresh0 = B.cls_of(fam)()
            r0 = 'ok'
            try:
                fresh0.fit(X)
            except Exception as e:  # noqa
                r0 = 'err ' + vc.exc_kind(e)
            if r0 == 'ok':
                continue
            obj = B.cls_of(fam)()
            seq = []
            for Y in (X, X[::-1].copy(), X):
                try:
                    obj.fit(Y)
                    seq.append('ok')
                except Exception as e:  # noqa
                    seq.append('err ' + vc.exc_kind(e))
            checked += 1
            try:
                obj.check_fit()
                usable = True
            except Exception:  # noqa
                usable = False
            if seq != [r0, r0, r0] or usable:
                found += 1
                ctx.fail_input(f'{fam}.fit', {'history': 'fit(X) refused; fit(X reversed); fit(X)', 'X': X.tolist()[:8]},
                               {'fresh': r0, 'sequence': seq, 'usable_afterwards': usable, 'theta': obj.theta},
                               'every fit of the same data on the same object is refused like on a fresh object',
                               f'{fam}.fit:refusal-depends-on-history')
                break
    # history: re-fitting an already fitted object = fitting a fresh one (tau AND theta are recomputed)
    valid = [X for kind, X in arrays if kind in ('gauss', 'ties', 'indep') and len(X) >= 20][:12]
    for fam in B.FAMS:
        for i in range(len(valid) - 1):
            X1, X2 = valid[i], valid[i + 1]
            obj = B.cls_of(fam)()
            fresh = B.cls_of(fam)()
            try:
                obj.fit(X1)
            except ValueError:
                continue
            r_obj = r_fresh = 'ok'
            try:
                obj.fit(X2)
            except Exception as e:  # noqa
                r_obj = 'err ' + vc.exc_kind(e)
            try:
                fresh.fit(X2)
            except Exception as e:  # noqa
                r_fresh = 'err ' + vc.exc_kind(e)
            checked += 1
            same = r_obj == r_fresh and (r_obj != 'ok' or (obj.tau == fresh.tau and obj.theta == fresh.theta))
            if not same:
                found += 1
                ctx.fail_input(f'{fam}.fit', {'history': 'fit(X1); fit(X2)', 'X1': X1.tolist()[:6], 'X2': X2.tolist()[:6]},
                               {'refit': [r_obj, obj.tau, obj.theta], 'fresh': [r_fresh, fresh.tau, fresh.theta]},
                               'after fit(X) tau and theta are those of X, whatever was fitted before',
                               f'{fam}.fit:refit-differs-from-fresh')
                break
    # history: a successful fit, then theta set from outside (the library's own tests assign theta; from_dict restores
    # one), then a fit on data with exactly the same tau (the same X, X with its columns swapped): after fit(X) theta is
    # the calibration of tau(X) again — nothing is skipped because tau "has not changed"
    for fam in B.FAMS:
        for X in valid[:4]:
            fresh = B.cls_of(fam)()
            try:
                fresh.fit(X)
            except ValueError:
                continue
            foreign = {'clayton': fresh.theta * 3 + 1, 'gumbel': fresh.theta * 2 + 1, 'frank': -fresh.theta * 2 - 1}[fam]
            for label, X2 in (('same-X', X), ('columns-swapped', X[:, ::-1].copy())):
                obj = B.cls_of(fam)()
                obj.fit(X)
                obj.theta = foreign
                restored = B.cls_of(fam).from_dict(dict(fresh.to_dict(), theta=foreign)) if hasattr(B.cls_of(fam), 'from_dict') else None
                outcomes = {}
                for name, o in (('theta-reassigned', obj), ('from_dict-with-foreign-theta', restored)):
                    if o is None:
                        continue
                    try:
                        o.fit(X2)
                        outcomes[name] = ('ok', o.tau, o.theta)
                    except Exception as e:  # noqa
                        outcomes[name] = ('err ' + vc.exc_kind(e), None, None)
                ref = B.cls_of(fam)()
                ref.fit(X2)
                checked += 1
                bad_ = {k: v for k, v in outcomes.items() if v != ('ok', ref.tau, ref.theta)}
                if bad_:
                    found += 1
                    ctx.fail_input(f'{fam}.fit', {'history': f'fit(X); theta := {foreign}; fit({label})', 'X': X.tolist()[:6], 'n': len(X)},
                                   {'got': {k: list(v) for k, v in bad_.items()}, 'fresh_fit': [ref.tau, ref.theta]},
                                   'after fit(X) theta is the calibration of tau(X), whatever theta the object held before',
                                   f'{fam}.fit:stale-theta-kept-when-tau-unchanged')
                    break
            else:
                continue
            break
    # history over ONE array object: the caller keeps a work buffer, overwrites it in place with the next batch and fits
    # again (the same model, another model of the family): the outcome is that of a fresh model fitted on a copy of the
    # values now in the buffer — nothing may be remembered per array identity, shape or class
    same_len = {}
    for X in valid:
        same_len.setdefault(len(X), []).append(X)
    groups = [g for g in same_len.values() if len(g) >= 2]
    if not groups:
        groups = [[valid[0], valid[0][::-1].copy() * np.array([1.0, 1.0])]] if valid else []
        if groups:
            groups[0][1][:, 1] = 1 - groups[0][1][:, 1]
    for fam in B.FAMS:
        for g in groups[:4]:
            X1, X2 = g[0], g[1]
            buf = np.array(X1, dtype=float, copy=True)
            first = B.cls_of(fam)()
            try:
                first.fit(buf)
            except ValueError:
                pass
            buf[:] = X2
            outcomes = {}
            for label, obj in (('same-model', first), ('other-model', B.cls_of(fam)()), ('fresh-on-copy', None)):
                if obj is None:
                    obj, data = B.cls_of(fam)(), np.array(X2, dtype=float, copy=True)
                else:
                    data = buf
                try:
                    obj.fit(data)
                    outcomes[label] = ('ok', obj.tau, obj.theta)
                except Exception as e:  # noqa
                    outcomes[label] = ('err ' + vc.exc_kind(e), None, None)
            checked += 1
            if not (outcomes['same-model'] == outcomes['fresh-on-copy'] == outcomes['other-model']):
                found += 1
                ctx.fail_input(f'{fam}.fit', {'history': 'buf = X1; fit(buf); buf[:] = X2; fit(buf) on the same model and on another model',
                                             'X1': X1.tolist()[:6], 'X2': X2.tolist()[:6], 'n': len(X1)},
                               {k: list(v) for k, v in outcomes.items()},
                               'fit is a function of the VALUES in the array, not of the array object',
                               f'{fam}.fit:depends-on-array-identity')
                break
    ctx.support = {'oracle_checks': checked, 'failures': found, 'deep': deep}


def replay(ctx, payload):
    before = len(ctx.failing)
    search(ctx, True)
    return any(f['class'] == payload.get('class') for f in ctx.failing[before:])
