"""Shared harness for the bivariate families (C06, C07, C08, C09, C10): generators, calls into the
real classes and into the Lean driver, translation validation of the generated definitions."""
import math
import warnings

import numpy as np

import vcommon as vc

warnings.filterwarnings('ignore')

EPS = float(np.finfo(np.float32).eps)
FAMS = ('clayton', 'frank', 'gumbel')
BOUNDARY = [0.0, 1e-12, 1e-4, 0.5, 1 - 1e-4, 1 - 1e-12, 1.0]


def cls_of(fam):
    from copulas.bivariate import Clayton, Frank, Gumbel
    return {'clayton': Clayton, 'frank': Frank, 'gumbel': Gumbel}[fam]


def make(fam, theta, tau=None):
    c = cls_of(fam)()
    c.theta = theta
    c.tau = tau
    return c


def theta_grid(fam):
    if fam == 'clayton':
        return [0.01, 0.1, 0.5, 1.0, 2.0, 3.5, 8.0]
    if fam == 'gumbel':
        return [1.0, 1.0000001, 1.05, 1.5, 2.0, 3.3, 5.0]
    return [-18.2, -7.0, -1.0, -0.05, -5e-4, 1e-5, 3e-4, 0.05, 1.0, 4.5, 18.2]


_SRC_CONST = {}


def source_constants(fam):
    """Numeric literals of the family's source file and of the shared bivariate modules (AST of the
    CURRENT /repo; not compared with anything): a special case keyed on a literal (`theta == 3`,
    `theta > 15.9`) manifests only at/next to that literal, so the literals are added to the theta
    grids.  Returns admissible thetas derived from them, without those already in theta_grid."""
    if fam in _SRC_CONST:
        return _SRC_CONST[fam]
    import ast
    import os
    vals = set()
    for rel in ('copulas/bivariate/%s.py' % fam, 'copulas/bivariate/base.py', 'copulas/bivariate/utils.py',
                'copulas/bivariate/__init__.py'):
        try:
            tree = ast.parse(open(os.path.join(vc.REPO, rel)).read())
        except Exception:  # noqa
            continue
        for node in ast.walk(tree):
            if isinstance(node, ast.Constant) and type(node.value) in (int, float):
                v = float(node.value)
                if math.isfinite(v) and 1e-6 <= abs(v) <= 40:
                    vals.add(abs(v))
    lo, hi = {'clayton': (1e-3, 20.0), 'gumbel': (1.0, 20.0), 'frank': (-30.0, 30.0)}[fam]
    base = set(theta_grid(fam))

    def admissible(ts):
        sg = (1.0, -1.0) if fam == 'frank' else (1.0,)
        return sorted({s_ * t for t in ts for s_ in sg
                       if lo <= s_ * t <= hi and abs(t) >= 1e-6 and s_ * t not in base})

    exact = admissible({t for v in vals for t in (v, v + 1.0, 1.0 / v)})
    near = [t for t in admissible({t for v in vals for t in (math.nextafter(v, math.inf), math.nextafter(v, 0.0))})
            if t not in exact]

    def thin(xs, k):
        if len(xs) <= k:
            return xs
        step = len(xs) / float(k)
        return [xs[int(i * step)] for i in range(k)]
    out = thin(exact, 24) + thin(near, 8)
    _SRC_CONST[fam] = out
    return out


def theta_all(fam):
    """theta_grid + the thetas derived from literals in the current source"""
    return theta_grid(fam) + source_constants(fam)


def theta_random(fam, rng):
    if fam == 'clayton':
        return math.exp(rng.uniform(math.log(0.01), math.log(8.0)))
    if fam == 'gumbel':
        return 1.0 + 4.0 * rng.random() ** 2 if rng.random() > 0.1 else 1.0
    t = math.exp(rng.uniform(math.log(1e-5 if rng.random() < 0.25 else 0.02), math.log(18.2)))
    return t if rng.random() < 0.6 else -t


def theta_invalid(fam):
    if fam == 'clayton':
        return [0.0, -0.5, float('nan')]
    if fam == 'gumbel':
        return [0.0, 0.5, -2.0, float('nan')]
    return [0.0, float('nan')]


def tau_of(fam, theta):
    if fam == 'clayton':
        return theta / (theta + 2)
    if fam == 'gumbel':
        return 1 - 1 / theta
    from scipy import integrate
    d = integrate.quad(lambda t: t / math.expm1(t) if t != 0 else 1.0, 0, theta)[0] / theta
    return 1 + 4 * (d - 1) / theta


def point(rng, domain):
    """one coordinate"""
    if domain == 'open':       # the property's [1e-4, 1-1e-4]
        r = rng.random()
        if r < 0.1:
            return rng.choice([1e-4, 1 - 1e-4, 0.5])
        return 1e-4 + (1 - 2e-4) * rng.random()
    r = rng.random()
    if r < 0.35:
        return rng.choice(BOUNDARY)
    return rng.random()


def batch(rng, domain, nmax=12):
    n = rng.choice([0, 1, 1, 2, 3, 5, 8, nmax, 64]) if domain != 'open' else rng.choice([1, 2, 3, 5, 8, nmax])
    rows = [(point(rng, domain), point(rng, domain)) for _ in range(n)]
    if domain != 'open' and n and rng.random() < 0.15:      # shortcut-triggering compositions
        k = rng.choice([0, 1])
        rows = [((0.0, r[1]) if k == 0 else (r[0], 0.0)) for r in rows]
    if domain != 'open' and n > 1 and rng.random() < 0.15:
        i = rng.randrange(n)
        rows[i] = (0.0, rows[i][1]) if rng.random() < 0.5 else (rows[i][0], 0.0)
    return rows


PY_METH = {'cdf': 'cumulative_distribution', 'pdf': 'probability_density', 'h': 'partial_derivative'}


def real_call(fam, meth, theta, rows):
    c = make(fam, theta)
    try:
        with np.errstate(all='ignore'):
            if meth == 'ppf':
                y = np.array([r[0] for r in rows], dtype=float)
                v = np.array([r[1] for r in rows], dtype=float)
                out = c.percent_point(y, v)
            elif meth == 'gen':
                out = c.generator(np.array(rows, dtype=float))
            else:
                X = np.array(rows, dtype=float).reshape(-1, 2)
                out = getattr(c, PY_METH[meth])(X)
        return ('ok', [float(x) for x in np.asarray(out, dtype=float).ravel()])
    except Exception as e:  # noqa
        return ('err', vc.exc_kind(e))


def lean_call(lean, fam, meth, theta, rows):
    if meth == 'gen':
        return lean.floats(f'biv gen {fam} {vc.f2h(theta)} ' + ' '.join(vc.f2h(t) for t in rows))
    flat = ' '.join(vc.f2h(a) + ' ' + vc.f2h(b) for a, b in rows)
    return lean.floats(f'biv {meth} {fam} {vc.f2h(theta)} {vc.f2h(EPS)} {flat}')


def close(a, b, rtol=1e-9, atol=0.0):
    if a != a or b != b:
        return (a != a) and (b != b)
    if math.isinf(a) or math.isinf(b):
        return a == b
    return abs(a - b) <= atol + rtol * max(1.0, abs(a), abs(b))


def compare(r1, r2, rtol=1e-9, atol=0.0):
    """-> None if equal (within tolerance) else description"""
    if r1[0] != r2[0]:
        return f'real {r1[0]}:{str(r1[1])[:60]} vs model {r2[0]}:{str(r2[1])[:60]}'
    if r1[0] == 'err':
        return None if r1[1] == r2[1] else f'real raises {r1[1]}, model {r2[1]}'
    if r1[0] == 'bad':
        return f'driver: {r2[1]}'
    if len(r1[1]) != len(r2[1]):
        return f'length {len(r1[1])} vs {len(r2[1])}'
    for i, (a, b) in enumerate(zip(r1[1], r2[1])):
        if not close(a, b, rtol, atol):
            return f'row {i}: real {a!r} vs model {b!r}'
    return None


def tv_method(ctx, lean, fam, meth, domain, nrandom, rtol=1e-9, atol=1e-12, invalid=True):
    """Translation validation of Gen.<Fam>.<meth> at Float against the real method."""
    rng = ctx.rng('tv', fam, meth, domain)
    name = f'tv:{fam}.{meth}[{domain}]'
    if lean is None:
        return ctx.ob(name, False, 'tie', 'driver unavailable')
    thetas = list(theta_grid(fam)) + [theta_random(fam, rng) for _ in range(nrandom)]
    bitexact = total = 0
    first_bad = None
    for th in thetas:
        for _ in range(3):
            rows = batch(rng, domain)
            if meth == 'ppf' and fam != 'clayton':
                rows = rows[:3]
            r1 = real_call(fam, meth, th, rows)
            r2 = lean_call(lean, fam, meth, th, rows)
            d = compare(r1, r2, rtol, atol)
            ctx.case((fam, meth, round(th, 9), tuple(rows)), nontrivial=len(rows) > 0)
            ctx.count(f'{fam}.{meth}.{r1[0]}')
            if r1[0] == 'ok' and r2[0] == 'ok':
                total += len(r1[1])
                bitexact += sum(1 for a, b in zip(r1[1], r2[1]) if a == b or (a != a and b != b))
            if d and first_bad is None:
                first_bad = {'theta': th, 'rows': rows, 'diff': d}
            if len(ctx.samples) < 3 and rows:
                ctx.sample({'op': f'{fam}.{meth}', 'theta': th, 'rows': rows[:3], 'real': r1[1][:3] if r1[0] == 'ok' else r1})
    if invalid:
        for th in theta_invalid(fam):
            rows = [(0.3, 0.6)]
            r1 = real_call(fam, meth, th, rows)
            r2 = lean_call(lean, fam, meth, th, rows)
            d = compare(r1, r2, rtol, atol)
            ctx.case((fam, meth, 'invalid', repr(th)))
            ctx.count(f'{fam}.{meth}.{r1[0]}')
            if d and first_bad is None:
                first_bad = {'theta': th, 'rows': rows, 'diff': d}
    ctx.count(f'{fam}.{meth}.values', total)
    ctx.count(f'{fam}.{meth}.bitexact', bitexact)
    ctx.ob(name, first_bad is None, 'tie', first_bad or f'{total} values, {bitexact} bit-identical')
    return first_bad


def purity_problems(make_obj, meth, args_a, args_b, other=None):
    """Call `meth` on a fresh object with arrays `args_a`, then (on `other()` if given, else the same object) with
    the equally shaped `args_b`; report
      input-mutated        an argument array differs from what the caller passed
      result-aliases-input the result shares memory with an argument
      earlier-result-changed  the first result changed after the second call (shared workspace / view)
      call-order-dependent the first call repeated afterwards gives another value
    Values are compared bit for bit; returns a list of (kind, detail)."""
    out = []
    a = [np.array(x, dtype=float, copy=True) for x in args_a]
    b = [np.array(x, dtype=float, copy=True) for x in args_b]
    a0 = [x.copy() for x in a]
    obj = make_obj()
    with np.errstate(all='ignore'):
        r1 = getattr(obj, meth)(*a)
    for x, x0 in zip(a, a0):
        if not np.array_equal(x, x0, equal_nan=True):
            out.append(('input-mutated', {'before': x0.tolist()[:6], 'after': x.tolist()[:6]}))
            break
    if isinstance(r1, np.ndarray) and any(np.shares_memory(r1, x) for x in a):
        out.append(('result-aliases-input', {}))
    keep = np.array(r1, copy=True)
    obj2 = other() if other is not None else obj
    with np.errstate(all='ignore'):
        getattr(obj2, meth)(*b)
    if not np.array_equal(np.asarray(r1), keep, equal_nan=True):
        out.append(('earlier-result-changed', {'first': keep.tolist()[:6], 'now': np.asarray(r1).tolist()[:6]}))
    with np.errstate(all='ignore'):
        r3 = getattr(obj, meth)(*[x.copy() for x in a0])
    if not np.array_equal(np.asarray(r3), keep, equal_nan=True):
        out.append(('call-order-dependent', {'first': keep.tolist()[:6], 'repeated': np.asarray(r3).tolist()[:6]}))
    return out
